"""Helpers of the C09 rules (iv_event_raw): role discovery, mode specialisation,
a result tracker for interruptible system calls and a small symbolic path executor.

Nothing in here knows the name of a static function or of a local variable: the public
iv_event_raw_* functions are analysed with every static helper inlined (inlining stops at
functions with external linkage: those are operations of another module), the descriptor
handler is the function whose address registration installs, descriptors are identified by the
member they were loaded from / stored to, and the mode flag is the file-scope variable the
functions branch on.
"""
from ..core import (AnalysisBroken, Inliner, Block, subst, canon, strip, strip_load, walk, last_member, members, _norm_cond1, forward,
                    relpath, names_of, lvalue_root)
from ..analyses import clone_cfg
from .. import interp, roles

EAGAIN = 11
EINTR = 4


# --------------------------------------------------------------------------
# roots, roles
# --------------------------------------------------------------------------

def inl(prog, f):
    """f with the helpers of its own translation unit inlined (static functions, header inlines, and functions with
    external linkage defined in the same file; functions of other units are operations of another module and stay
    calls; normalised: flag partitioning, copy propagation), calls through constant
    file-scope tables of function pointers resolved to a switch over the table index, branches decided by
    constants (arguments of merged entry points) folded."""
    cache = prog.__dict__.setdefault('_h09_inl', {})
    if f.q not in cache:
        unit = prog.unit_of(f)
        g = TableInliner(prog, stop=lambda t: not t.static and (unit is None or prog.unit_of(t) != unit)).inline(f)
        call_values(g)
        prune_const(g)
        cache[f.q] = g
    return cache[f.q]


# --------------------------------------------------------------------------
# constant file-scope data (tables indexed by the mode), calls through such tables
# --------------------------------------------------------------------------

def _is_gvar(x):
    return isinstance(x, dict) and x.get('k') == 'var' and x.get('vk') in ('global', 'staticlocal')


def _declared_const(t):
    t = str(t or '')
    if '*' in t:
        t = t.rsplit('*', 1)[1]
    return 'const' in t.replace('[', ' ').replace(']', ' ').split()


def global_reads(G):
    """{canon path: expression} of the file-scope objects whose *value* the function reads (anywhere: conditions,
    right-hand sides, arguments, indices); `&g`, `&g.f` do not read g."""
    c = getattr(G, '_h09_greads', None)
    if c is not None:
        return c
    out = {}

    def path(e, addr):
        # e is a var/member/index node
        idx = []
        x = e
        while isinstance(x, dict):
            k = x.get('k')
            if k == 'member' and not x['arrow']:
                x = strip_load(x['base'])
            elif k == 'index':
                idx.append(x['idx'])
                x = strip_load(x['base'])
            elif k in ('cast', 'paren') and 'e' in x:
                x = strip_load(x['e'])
            else:
                break
        for i in idx:
            visit(i, False)
        if isinstance(x, dict) and x.get('k') == 'member' and x['arrow']:
            visit(x['base'], False)
            return
        if _is_gvar(x):
            if not addr:
                out.setdefault(canon(e), e)
            return
        if isinstance(x, dict) and x.get('k') == 'var':
            return
        visit(x, False)

    def visit(e, addr):
        if isinstance(e, list):
            for y in e:
                visit(y, addr)
            return
        if not isinstance(e, dict):
            return
        k = e.get('k')
        if k == 'addr':
            visit(e['e'], True)
            return
        if k in ('load', 'cast', 'paren', 'stmtexpr') and 'e' in e:
            visit(e['e'], addr)
            return
        if k in ('var', 'member', 'index'):
            path(expand(G, e) if k == 'member' else e, addr)
            return
        for key, v in e.items():
            if key in ('sizeof', '_was') or not isinstance(v, (dict, list)):
                continue
            visit(v, False)

    for blk in G.blocks.values():
        if blk.term and blk.term.get('cond') is not None:
            visit(blk.term['cond'], False)
        for e in blk.events:
            for key in ('rhs', 'args', 'value', 'fnexpr', 'init', 'e'):
                if key in e:
                    visit(e[key], False)
            if e['ev'] == 'store':
                # the location stored to is not read (its index / pointer operands are); `x op= e` reads it
                visit(e['lhs'], e.get('op') == '=')
    G._h09_greads = out
    return out


def _path_root_name(x):
    x = strip_load(x)
    while isinstance(x, dict):
        k = x.get('k')
        if k == 'var':
            return x['name'] if x.get('vk') in ('global', 'staticlocal') else None
        if k == 'member' and not x['arrow']:
            x = strip_load(x['base'])
        elif k == 'index':
            x = strip_load(x['base'])
        elif k in ('cast', 'paren', 'load') and 'e' in x:
            x = x['e']
        else:
            return None
    return None


def constant_data(prog, unit, name):
    """The file-scope object never changes: declared const, or static, never stored to, its address never
    taken and (arrays) never passed on as a pointer."""
    cache = prog.__dict__.setdefault('_h09_const', {})
    key = (unit, name)
    if key in cache:
        return cache[key]
    g = prog.global_for(unit, name)
    res = False
    if isinstance(g, dict) and not g.get('extern_decl'):
        if _declared_const(g.get('type')):
            res = True
        elif g.get('static') and not prog.global_writers(name):
            res = True
            isarr = '[' in str(g.get('type', ''))
            for f in prog.all_funcs():
                if prog.unit_of(f) not in (unit, None):
                    continue
                for e in f.events():
                    for x in walk(e):
                        if x.get('k') == 'addr' and _path_root_name(x['e']) == name:
                            res = False
                if isarr and name in global_reads(f):
                    res = False           # the bare array decays to a pointer somewhere
                if not res:
                    break
    cache[key] = res
    return res


ZERO = {'k': 'int', 'v': 0}


def fold_data(prog, unit, e, asg, env):
    """e with reads of constant file-scope data replaced by their initialisers (indices evaluated under asg/env)."""
    def ev_int(x):
        try:
            v = interp.evaluate(fold(x), asg, env)
        except (interp.Undecided, KeyError, TypeError, ZeroDivisionError):
            return None
        return v if isinstance(v, int) else None

    def resolve(x):
        x = strip(x)
        if not isinstance(x, dict):
            return None
        k = x.get('k')
        if k == 'var':
            if _is_gvar(x) and constant_data(prog, unit, x['name']):
                g = prog.global_for(unit, x['name'])
                return g.get('init', ZERO)
            return None
        if k == 'member' and not x['arrow']:
            b = resolve(x['base'])
            if isinstance(b, dict) and b.get('k') == 'init' and 'fields' in b:
                return b['fields'].get(x['field'], ZERO)
            return None
        if k == 'index':
            b = resolve(x['base'])
            if not (isinstance(b, dict) and b.get('k') == 'init' and 'elems' in b):
                return None
            i = ev_int(x['idx'])
            if i is not None and 0 <= i < len(b['elems']):
                return b['elems'][i]
            return None
        return None

    def fold(x):
        if isinstance(x, list):
            return [fold(y) for y in x]
        if not isinstance(x, dict):
            return x
        if x.get('k') in ('load', 'member', 'index', 'var'):
            r = resolve(x)
            if isinstance(r, dict) and r.get('k') != 'init':
                return fold(r) if r is not x else r
        return {key: (fold(v) if isinstance(v, (dict, list)) and key not in ('sizeof',) else v) for key, v in x.items()}
    if prog is None:
        return e
    return fold(e)


def accessors(prog, unit, e, depth=0):
    """e with calls of pure accessor functions (static, no parameters, body `return <expression without calls>;`)
    replaced by the returned expression"""
    def r(n):
        if n.get('k') != 'call' or 'callee' not in n or n.get('args') or depth > 3:
            return None
        t = prog.resolve(unit, n['callee']) if unit else None
        if t is None or not t.static or not t.blocks or t.params:
            return None
        f0 = t.pristine() if hasattr(t, 'pristine') else t
        evs = [e_ for e_ in f0.events() if e_['ev'] not in ('load',)]
        if len(evs) != 1 or evs[0]['ev'] != 'ret' or 'value' not in evs[0]:
            return None
        v = evs[0]['value']
        if any(y.get('k') in ('call', 'assign', 'incdec') for y in walk(v)):
            v2 = accessors(prog, unit, v, depth + 1)
            if any(y.get('k') in ('call', 'assign', 'incdec') for y in walk(v2)):
                return None
            return v2
        return v
    return subst(e, r)


def table_slot(prog, unit, G, fnexpr):
    """fnexpr reads a function pointer out of a constant file-scope array (of function pointers, or of records with
    a function pointer member): (index expression, [function name per row]); None otherwise.
    `p = &T[i]; p->f` counts (single origin of p)."""
    x = strip(expand(G, accessors(prog, unit, fnexpr)))
    if isinstance(x, dict) and x.get('k') == 'deref':           # (*T[i])(...)
        x = strip(x['e'])
    field = None
    if isinstance(x, dict) and x.get('k') == 'member' and not x['arrow']:
        field = x['field']
        x = strip_load(x['base'])
    if not (isinstance(x, dict) and x.get('k') == 'index'):
        return None
    ix = x
    t = strip_load(ix['base'])
    if not (_is_gvar(t) and constant_data(prog, unit, t['name'])):
        return None
    init = prog.global_for(unit, t['name']).get('init')
    if not (isinstance(init, dict) and init.get('k') == 'init' and init.get('elems')):
        return None
    rows = []
    for el in init['elems']:
        if field is not None:
            v = el.get('fields', {}).get(field) if isinstance(el, dict) and el.get('k') == 'init' else None
        else:
            v = el
        v = strip(v) if isinstance(v, dict) else None
        if isinstance(v, dict) and v.get('k') == 'addr':
            v = strip(v['e'])
        if not (isinstance(v, dict) and v.get('k') == 'var' and v.get('vk') == 'func'):
            return None
        rows.append(v['name'])
    return ix['idx'], rows


class TableInliner(Inliner):
    """Inliner that also enters the functions a constant table of function pointers can select
    (`T[i].op(...)`): all rows' functions become alternatives of a dispatch block, which is then
    turned into a switch over the index expression, so that the choice stays correlated with the mode."""

    def _targets(self, caller, e, known_table=None):
        tg = Inliner._targets(self, caller, e, known_table)
        if tg or 'callee' in e or 'fnexpr' not in e:
            return tg
        unit = self.prog.unit_of(caller)
        ts = table_slot(self.prog, unit, caller, e['fnexpr']) if unit else None
        if ts is None:
            return tg
        out = []
        for nm in ts[1]:
            t = self.prog.resolve(unit, nm)
            if t is None or not t.blocks or self.stop(t):
                return tg
            if t not in out:
                out.append(t)
        return out

    def inline(self, f):
        g = Inliner.inline(self, f)
        unit = self.prog.unit_of(f)
        nxt = max(g.blocks) + 1
        for b in sorted(g.blocks):
            blk = g.blocks[b]
            if not (blk.term and blk.term.get('cls') == 'MethodDispatch' and blk.events and blk.events[-1]['ev'] == 'enter'
                    and 'fnexpr' in blk.events[-1]):
                continue
            en = blk.events[-1]
            ts = table_slot(self.prog, unit, g, en['fnexpr']) if unit else None
            if ts is None:
                continue
            idx, rows = ts
            qs = []
            for nm in rows:
                t = self.prog.resolve(unit, nm)
                qs.append(t.q if t is not None else None)
            if any(q not in en.get('targets', []) for q in qs) or len(en['targets']) != len(blk.succ):
                continue
            succ = []
            for q in qs:
                g.blocks[nxt] = Block(nxt, [], [blk.succ[en['targets'].index(q)]], None)
                succ.append(nxt)
                nxt += 1
            blk.succ = succ
            blk.term = {'cls': 'SwitchStmt', 'cond': idx, 'cases': list(range(len(rows))), 'loc': en.get('loc'), 'table_dispatch': True}
        g._preds = None
        return g


def call_values(G):
    """The inliner replaces the value of an inlined call by its result variable only within the source block of the
    call; a use in a later block (`x = helper() ? a : b` is lowered to a branch followed by the store) still spells
    the call.  Replace those by a read of the result variable of that call instance."""
    ent, m = {}, {}
    for e in G.events():
        if e['ev'] == 'enter' and 'callee' in e:
            ent[e.get('inst')] = e
    for e in G.events():
        if e['ev'] == 'leave' and e.get('retvar') and e.get('inst') in ent:
            en = ent[e['inst']]
            m.setdefault((en['callee'], en.get('loc')), []).append((repr(en.get('chain') or []), e['retvar'], e.get('rettype')))
    if not m:
        return G

    def fix(x, chain):
        def r(n):
            if n.get('k') == 'call' and (n.get('callee'), n.get('loc')) in m:
                c = m[(n.get('callee'), n.get('loc'))]
                if len({v for (_, v, _) in c}) > 1:
                    c = [y for y in c if y[0] == chain]
                if len({v for (_, v, _) in c}) == 1:
                    return {'k': 'load', 'e': {'k': 'var', 'name': c[0][1], 'vk': 'local', 'type': c[0][2]}}
            return None
        return subst(x, r)
    for blk in G.blocks.values():
        chain = None
        for e in blk.events:
            chain = repr(e.get('chain') or [])
            if e['ev'] in ('enter', 'leave'):
                continue
            for key in ('rhs', 'args', 'value', 'fnexpr', 'lhs', 'init'):
                if key in e and any(x.get('k') == 'call' for x in walk(e[key])):
                    e[key] = fix(e[key], chain)
        if blk.term and blk.term.get('cond') is not None and any(x.get('k') == 'call' for x in walk(blk.term['cond'])):
            blk.term = dict(blk.term, cond=fix(blk.term['cond'], chain))
    return G


def prune_const(G):
    """Remove the edges that a condition built from constants only decides the other way (arguments of a merged
    entry point substituted for its selector parameter), and the blocks that become unreachable."""
    asg = interp.Assignment()
    changed = False
    for blk in G.blocks.values():
        t = blk.term
        if not t or t.get('cond') is None or len(blk.succ) < 2 or any(x.get('k') in ('var', 'call', 'member', 'deref', 'index')
                                                                    for x in walk(t['cond'])):
            continue
        try:
            val = interp.evaluate(t['cond'], asg, {})
        except (interp.Undecided, KeyError, TypeError, ZeroDivisionError):
            continue
        if t.get('cls') == 'SwitchStmt':
            cases = t.get('cases', [])
            pick = [s_ for s_, cv in zip(blk.succ, cases) if cv == val] or [s_ for s_, cv in zip(blk.succ, cases) if cv == 'default']
            if not pick:
                continue
            blk.succ = [pick[0]]
        elif len(blk.succ) == 2 and t.get('cls') != 'MethodDispatch':
            blk.succ = [blk.succ[0] if val else blk.succ[1]]
        else:
            continue
        blk.term = None
        changed = True
    if changed:
        live = G.reachable_blocks()
        live.add(G.exit)
        for b in [b for b in G.blocks if b not in live]:
            del G.blocks[b]
        G._preds = None
        for b in G.blocks.values():
            for i, e in enumerate(b.events):
                e['_b'] = b.id
                e['_i'] = i
    return G


def handler_of(prog, reg, R):
    """The function(s) registration installs as input handler of the read descriptor:
    stores `<iv_fd>.handler_in = <function>` executed by (inlined) registration."""
    names = {}
    for e in R.events():
        if e['ev'] != 'store' or e.get('op') != '=' or 'rhs' not in e:
            continue
        lm = last_member(e['lhs'])
        if not lm or lm[1] != 'handler_in' or lm[0] not in ('iv_fd', 'iv_fd_'):
            continue
        for r in walk(e['rhs']):
            # directly, as an arm of a `?:`, ...
            if r.get('k') == 'var' and r.get('vk') == 'func':
                names[r['name']] = e
        # ... or read out of a constant table of function pointers
        unit0 = prog.unit_of(reg)
        ts = table_slot(prog, unit0, R, e['rhs']) if unit0 else None
        if ts is not None:
            for nm in ts[1]:
                names[nm] = e
    # the store executed by (inlined) registration is the installation itself; the name must resolve to a function
    # of the library with a body (roles.installed_in sees plain `x.handler_in = f` stores only)
    unit = prog.unit_of(reg)
    out = []
    for n in sorted(names):
        g = prog.resolve(unit, n) if unit else None
        if g is not None and g.blocks and g not in out:
            out.append(g)
    return out


# --------------------------------------------------------------------------
# where a value comes from (flow-insensitive over the definitions of locals)
# --------------------------------------------------------------------------

def _defs(G):
    c = getattr(G, '_h09_defs', None)
    if c is not None:
        return c
    d, bad = {}, set()
    for e in G.events():
        for x in walk(e):
            if x.get('k') == 'addr':
                v = strip(x['e'])
                if isinstance(v, dict) and v.get('k') == 'var':
                    bad.add(v['name'])
        if e['ev'] == 'store':
            l = strip(e['lhs'])
            if l.get('k') == 'var':
                if e.get('op') == '=' and 'rhs' in e:
                    d.setdefault(l['name'], []).append(e['rhs'])
                else:
                    bad.add(l['name'])
    G._h09_defs = (d, bad)
    return G._h09_defs


def origins(G, expr, _seen=frozenset()):
    """Expressions a value may have been computed by: locals (caches, substituted parameters,
    helper results) are followed through all their definitions."""
    d, bad = _defs(G)
    x = strip(expr)
    if isinstance(x, dict) and x.get('k') == 'var' and x.get('vk') in ('local', 'param') \
            and x['name'] in d and x['name'] not in bad and x['name'] not in _seen:
        out = []
        for r in d[x['name']]:
            out += origins(G, r, _seen | {x['name']})
        return out
    return [x]


def expand(G, x, _depth=0):
    """access path with pointer locals that have a single origin replaced by it:
    `p = &obj->f; ... p->g`  reads as  `obj->f.g`"""
    if not isinstance(x, dict) or _depth > 6:
        return x
    k = x.get('k')
    if k in ('load', 'cast', 'paren') and 'e' in x:
        return dict(x, e=expand(G, x['e'], _depth))
    if k == 'member':
        b = expand(G, x['base'], _depth)
        sb = strip(b)
        if x.get('arrow') and isinstance(sb, dict) and sb.get('k') == 'var' and sb.get('vk') in ('local', 'param'):
            o = origins(G, sb)
            if len(o) == 1 and o[0] is not sb and not (o[0].get('k') == 'var' and o[0].get('name') == sb.get('name')):
                b = expand(G, o[0], _depth + 1)
                sb = strip(b)
        if x.get('arrow') and isinstance(sb, dict) and sb.get('k') == 'addr':
            return dict(x, arrow=False, base=sb['e'])
        return dict(x, base=b)
    if k == 'addr':
        return dict(x, e=expand(G, x['e'], _depth))
    if k == 'deref':
        # `p = &obj->f; ... *p`  reads as  `obj->f`
        b = expand(G, x['e'], _depth)
        sb = strip(b)
        if isinstance(sb, dict) and sb.get('k') == 'var' and sb.get('vk') in ('local', 'param'):
            o = origins(G, sb)
            if len(o) == 1 and o[0] is not sb and not (o[0].get('k') == 'var' and o[0].get('name') == sb.get('name')):
                sb = strip(expand(G, o[0], _depth + 1))
        if isinstance(sb, dict) and sb.get('k') == 'addr':
            return sb['e']
        return dict(x, e=b)
    return x


def _is_rfd(x):
    lm = last_member(x)
    return bool(lm) and lm[1] == 'fd' and lm[0] in ('iv_fd', 'iv_fd_') and ('iv_event_raw', 'event_rfd') in set(members(x))


def _is_wfd(x):
    return last_member(x) == ('iv_event_raw', 'event_wfd')


def is_read_end(G, expr):
    o = [expand(G, x) for x in origins(G, expr)]
    return bool(o) and all(_is_rfd(x) for x in o)


def is_write_end(G, expr):
    o = [expand(G, x) for x in origins(G, expr)]
    return bool(o) and all(_is_wfd(x) for x in o)


def is_user_handler_call(G, e):
    """indirect call through <iv_event_raw>.handler (possibly cached in a local first)"""
    if e['ev'] != 'call' or 'fnexpr' not in e:
        return False
    o = [expand(G, x) for x in origins(G, e['fnexpr'])]
    return bool(o) and all(last_member(x) == ('iv_event_raw', 'handler') for x in o)


def is_read_end_object(G, expr):
    """&<obj>->event_rfd"""
    o = origins(G, expr)
    def one(x):
        if not (isinstance(x, dict) and x.get('k') == 'addr'):
            return False
        return last_member(x['e']) == ('iv_event_raw', 'event_rfd')
    return bool(o) and all(one(x) for x in o)


# --------------------------------------------------------------------------
# mode flag
# --------------------------------------------------------------------------

def flags_read(prog, unit, G):
    """Mode discriminators of the function: the mutable file-scope objects (defined by the library) whose value it
    reads, as canonical access paths (`flag`, `state.flag`).  Constant data (tables indexed by the mode) and
    variables of the C library (stderr) are not module state."""
    out = set()
    for c, x in global_reads(G).items():
        nm = _path_root_name(x)
        g = prog.global_for(unit, nm) if nm else None
        if not isinstance(g, dict) or (g.get('extern_decl') and g.get('file', '').startswith('/usr')):
            continue
        if constant_data(prog, unit, nm):
            continue
        out.add(c)
    return out


def _steps(c):
    return c.replace('->', '.>').split('.')


def _overlaps(c, flag):
    """a store to the location spelled c may change the object spelled flag"""
    a, b = _steps(c), _steps(flag)
    for x, y in zip(a, b):
        if x.startswith('>') or y.startswith('>'):
            return True
        if x != y:
            if '[' in x or '[' in y:
                return x.split('[')[0] == y.split('[')[0]
            return False
    return True


def _flag_store(e, flag):
    if e['ev'] != 'store':
        return False
    r = lvalue_root(e['lhs'])
    root = _steps(flag)[0].split('[')[0]
    if r is None or r.get('vk') not in ('global', 'staticlocal') or r['name'] != root:
        return False
    return _overlaps(canon(e['lhs']), flag)


def flag_written(G, flag):
    return any(_flag_store(e, flag) for e in G.events())


def _const_values(prog, f, expr, depth=0):
    """set of integer constants the expression can evaluate to in f: a constant, or a (never assigned) parameter of a
    static function whose every call site passes such a value (setter helpers); None when not constant."""
    x = strip(expr)
    if not isinstance(x, dict):
        return None
    if x.get('k') == 'int':
        return {x['v']}
    if x.get('k') == 'cond':
        a, b = _const_values(prog, f, x['a'], depth), _const_values(prog, f, x['b'], depth)
        return None if a is None or b is None else a | b
    if x.get('k') == 'var' and x.get('vk') == 'param' and f.static and depth < 4:
        names = [p_['name'] for p_ in f.params]
        if x['name'] not in names:
            return None
        pi = names.index(x['name'])
        for e in f.events():
            if e['ev'] == 'store' and strip(e['lhs']).get('k') == 'var' and strip(e['lhs'])['name'] == x['name']:
                return None
            if any(y.get('k') == 'addr' and strip(y['e']).get('k') == 'var' and strip(y['e'])['name'] == x['name'] for y in walk(e)):
                return None
            if any(y.get('k') == 'var' and y.get('vk') == 'func' and y['name'] == f.name for y in walk(e)):
                return None
        out = set()
        sites = [(g, e) for (g, e) in prog.callers_of(f.name) if prog.unit_of(g) in (prog.unit_of(f), None) or not f.file.endswith('.c')]
        for g in prog.all_funcs():
            # the function's address is taken: unknown callers
            for e in g.events():
                for y in walk(e):
                    if y.get('k') == 'var' and y.get('vk') == 'func' and y['name'] == f.name and not (e['ev'] == 'call' and e.get('callee') == f.name):
                        return None
        for (g, e) in sites:
            if pi >= len(e.get('args', [])):
                return None
            vs = _const_values(prog, g, e['args'][pi], depth + 1)
            if vs is None:
                return None
            out |= vs
        return out
    return None


def flag_domain(prog, unit, flag):
    """Values the flag can hold: its initialiser and every constant stored into it."""
    vals = {0}
    st = _steps(flag)
    g = prog.global_for(unit, st[0])
    init = g.get('init') if isinstance(g, dict) else None
    for fld in st[1:]:
        if isinstance(init, dict) and init.get('k') == 'init' and 'fields' in init:
            init = init['fields'].get(fld, ZERO)
        else:
            init = None
    init = strip(init) if isinstance(init, dict) else None
    if isinstance(init, dict) and init.get('k') == 'int':
        vals.add(init['v'])
    elif isinstance(g, dict) and 'init' in g:
        raise AnalysisBroken('mode flag %s: initialiser not understood' % flag)
    for (f, e) in prog.global_writers(st[0]):
        if not _flag_store(e, flag):
            continue
        vs = _const_values(prog, f, e.get('rhs')) if e.get('op') == '=' and canon(e['lhs']) == flag and 'rhs' in e else None
        if vs is None:
            raise AnalysisBroken('mode flag %s is written a non-constant at %s' % (flag, relpath(e.get('loc'))))
        vals |= vs
    if not any(v != 0 for v in vals):
        vals.add(1)
    return sorted(vals)


def expand_all(G, e):
    """expand() applied to every access path inside e"""
    def r(n):
        if n.get('k') in ('member', 'deref'):
            x = expand(G, n)
            if x is not n and canon(x) != canon(n):
                return x
        return None
    return subst(e, r)


def _eval(prog, unit, G, e, asg, env):
    return interp.evaluate(fold_data(prog, unit, expand_all(G, e) if G is not None else e, asg, env), asg, env)


def const_envs(g, asg, prog=None, unit=None):
    """{(bid, i): frozenset((local, int))} constants of integer locals before every event of g and at the end of every
    block (i = number of events); must analysis.  Reads of constant file-scope tables are folded."""
    def tr(e, S):
        ev = e['ev']
        if ev == 'store':
            l = strip(e['lhs'])
            if l.get('k') == 'var':
                S = frozenset(x for x in S if x[0] != l['name'])
                if e.get('op') == '=' and 'rhs' in e:
                    try:
                        val = _eval(prog, unit, g, e['rhs'], asg, dict(S))
                        if isinstance(val, int):
                            S = S | {(l['name'], val)}
                    except (interp.Undecided, KeyError, TypeError, ZeroDivisionError):
                        pass
        elif ev == 'decl':
            S = frozenset(x for x in S if x[0] != e['name'])
        elif ev in ('call', 'enter'):
            for a in e.get('args', []):
                a = strip(a)
                if isinstance(a, dict) and a.get('k') == 'addr':
                    w = strip(a['e'])
                    if isinstance(w, dict) and w.get('k') == 'var':
                        S = frozenset(x for x in S if x[0] != w['name'])
        return S
    _, ev_in = forward(g, frozenset(), tr, lambda a, b: a & b)
    return ev_in


def specialise(G, flag, v, prog=None, unit=None):
    """CFG of G under flag == v (G must not write the flag): conditional edges that the value (and the integer locals
    computed from it, and constant tables indexed by them) decides the other way are removed, to a fixpoint.
    Events are shared with G."""
    asg = interp.Assignment(ints={flag: v})
    g = clone_cfg(G)
    for _round in range(6):
        envs = const_envs(g, asg, prog, unit)
        live = g.reachable_blocks()
        changed = False
        for b, blk in g.blocks.items():
            t = blk.term
            if b not in live or not t or t.get('cond') is None or len(blk.succ) < 2:
                continue
            env = envs.get((b, len(blk.events)))
            if env is None:
                continue
            try:
                val = _eval(prog, unit, g, t['cond'], asg, dict(env))
            except (interp.Undecided, KeyError, TypeError, ZeroDivisionError):
                continue
            if t.get('cls') == 'SwitchStmt':
                cases = t.get('cases', [])
                pick = [s for s, cv in zip(blk.succ, cases) if cv == val] or [s for s, cv in zip(blk.succ, cases) if cv == 'default']
                if not pick:
                    continue
                blk.succ = [pick[0]]
            elif len(blk.succ) == 2 and t.get('cls') != 'MethodDispatch':
                blk.succ = [blk.succ[0] if val else blk.succ[1]]
            else:
                continue
            blk.term = dict(t, cls='Forced')
            blk.term.pop('cond', None)
            changed = True
        g._preds = None
        if not changed:
            break
    return g, asg


def value_at(ev_in, asg, e, expr, prog=None, unit=None, G=None):
    S = ev_in.get((e['_b'], e['_i']))
    if S is None:
        return None
    try:
        val = _eval(prog, unit, G, expr, asg, dict(S))
    except (interp.Undecided, KeyError, TypeError, ZeroDivisionError):
        return None
    return val if isinstance(val, int) else None


def reachable_events(g):
    rb = g.reachable_blocks()
    return [e for b in rb for e in g.blocks[b].events]


# --------------------------------------------------------------------------
# result tracker: what is known about the result of the latest call of an
# interruptible system call (sign of the result, errno), and whether the sink
# (the user handler) ran since
# --------------------------------------------------------------------------

ALL = frozenset('-0+')


def sign_classes(op, n):
    """which of negative/zero/positive values satisfy `v op n`; v is the result of a POSIX
    call (read, write): -1 or non-negative"""
    out = set()
    for v in (-1, 0, 1, 10 ** 9, n - 1, n, n + 1):
        if v < -1:
            continue
        ok = {'==': v == n, '!=': v != n, '<': v < n, '<=': v <= n, '>': v > n, '>=': v >= n}.get(op)
        if ok:
            out.add('-' if v < 0 else ('0' if v == 0 else '+'))
    return frozenset(out)


def is_errno(x):
    x = strip(x)
    if isinstance(x, dict) and x.get('k') == 'deref':
        c = strip(x['e'])
        return isinstance(c, dict) and c.get('k') == 'call' and c.get('callee') == '__errno_location'
    return False


class TS:
    """tracker state (immutable tuple wrapper)
       n     : a source call happened on this path
       cur   : (callee, loc) of the latest source call
       V     : locals holding its result
       sign  : subset of {-,0,+} the result may lie in
       E     : locals holding errno as left by it
       elive : errno itself still is the one left by it (no other call since)
       eq/ne : errno is known to equal / differ from these constants
       disp  : the sink ran since the latest source call
       K     : integer locals with a known constant value on this path (classification codes, flags)"""
    __slots__ = ('t',)

    def __init__(self, n=False, cur=None, V=frozenset(), sign=ALL, E=frozenset(), elive=False, eq=None, ne=frozenset(), disp=False,
                 K=frozenset()):
        self.t = (n, cur, V, sign, E, elive, eq, ne, disp, K)

    n = property(lambda s: s.t[0])
    cur = property(lambda s: s.t[1])
    V = property(lambda s: s.t[2])
    sign = property(lambda s: s.t[3])
    E = property(lambda s: s.t[4])
    elive = property(lambda s: s.t[5])
    eq = property(lambda s: s.t[6])
    ne = property(lambda s: s.t[7])
    disp = property(lambda s: s.t[8])
    K = property(lambda s: s.t[9])

    def known(self, name):
        for (k, v) in self.K:
            if k == name:
                return v
        return None

    def __eq__(self, o):
        return isinstance(o, TS) and self.t == o.t

    def __hash__(self):
        return hash(self.t)

    def but(self, **kw):
        d = dict(n=self.n, cur=self.cur, V=self.V, sign=self.sign, E=self.E, elive=self.elive, eq=self.eq, ne=self.ne, disp=self.disp,
                 K=self.K)
        d.update(kw)
        return TS(**d)

    def errno_may_be(self, c):
        if self.eq is not None:
            return self.eq == c
        return c not in self.ne

    def errno_is(self, c):
        return self.eq == c


def _const(r, rc):
    r = strip(r) if isinstance(r, dict) else r
    if isinstance(r, dict) and r.get('k') == 'int':
        return r['v']
    if isinstance(r, dict) and r.get('k') == 'null':
        return 0
    try:
        return int(rc)
    except (TypeError, ValueError):
        return None


_CMPOPS = ('==', '!=', '<', '<=', '>', '>=')


def is_truth_value(x, depth=0):
    """x is an expression whose value is 0 or 1 by construction: a comparison, `!`, `&&`, `||`, or `&` / `|` of two such"""
    x = strip(x) if isinstance(x, dict) else x
    if not isinstance(x, dict) or depth > 6:
        return False
    if x.get('k') == 'un' and x.get('op') == '!':
        return True
    if x.get('k') == 'bin':
        if x.get('op') in _CMPOPS or x.get('op') in ('&&', '||'):
            return True
        if x.get('op') in ('&', '|'):
            return is_truth_value(x['l'], depth + 1) and is_truth_value(x['r'], depth + 1)
    return False


def _connective(c):
    """'&&' / '||' if c is that connective, or the bitwise operator applied to two truth values (the same function), else None"""
    if not (isinstance(c, dict) and c.get('k') == 'bin'):
        return None
    if c.get('op') in ('&&', '||'):
        return c['op']
    if c.get('op') in ('&', '|') and is_truth_value(c):
        return '&&' if c['op'] == '&' else '||'
    return None


def track(G, is_src, is_sink=None):
    """{(bid, i): frozenset(TS)} before every event of G, and at (exit, 0)."""
    def refers_result(st, l):
        x = strip(l)
        if not isinstance(x, dict):
            return False
        if x.get('k') == 'assign' and x.get('op') == '=':
            # value of `(v = E)`: the store event preceded the test
            return refers_result(st, x['l'])
        if x.get('k') == 'var':
            return x['name'] in st.V
        if x.get('k') == 'call' and st.cur is not None:
            return (x.get('callee'), x.get('loc')) == st.cur
        return False

    def refers_errno(st, l):
        x = strip(l)
        if not isinstance(x, dict):
            return False
        if x.get('k') == 'assign' and x.get('op') == '=':
            return refers_errno(st, x['l'])
        if x.get('k') == 'var':
            return x['name'] in st.E
        return st.elive and is_errno(x)

    def assume(st, op, l, n):
        x = strip(l)
        if isinstance(x, dict) and x.get('k') == 'var' and st.K:
            c = st.known(x['name'])
            if c is not None:
                return st if cmp_const(c, op, n) else None
        if isinstance(x, dict) and x.get('k') == 'var' and x.get('vk') in ('local', 'param') and op == '==' \
                and x['name'] not in st.V and x['name'] not in st.E:
            st = st.but(K=frozenset(y for y in st.K if y[0] != x['name']) | {(x['name'], n)})
        if not st.n:
            return st
        if refers_result(st, l):
            s2 = st.sign & sign_classes(op, n)
            if not s2:
                return None
            return st.but(sign=s2)
        if refers_errno(st, l):
            if op == '==':
                if (st.eq is not None and st.eq != n) or n in st.ne:
                    return None
                return st.but(eq=n)
            if op == '!=':
                if st.eq == n:
                    return None
                return st.but(ne=st.ne | {n})
        return st

    SRC = {(e.get('callee'), e.get('loc')) for e in G.events() if e['ev'] == 'call' and is_src(e)}

    def other_source(st, arm):
        """the arm of a `?:` contains a source call that is not the latest one executed: evaluating the arm would have
        made it the latest, so this arm was not the one selected"""
        return any(y.get('k') == 'call' and (y.get('callee'), y.get('loc')) in SRC and (y.get('callee'), y.get('loc')) != st.cur
                   for y in walk(arm))

    def const_val(st, r):
        try:
            v = interp.evaluate(r, interp.Assignment(), dict(st.K))
        except (interp.Undecided, KeyError, TypeError, ZeroDivisionError, ValueError):
            return None
        return v if isinstance(v, int) and not isinstance(v, bool) else None

    def kill(st, names):
        if st.V & names or st.E & names or any(k in names for (k, _) in st.K):
            return st.but(V=st.V - names, E=st.E - names, K=frozenset(y for y in st.K if y[0] not in names))
        return st

    def assign(st, nm, r, depth=0):
        """states after `nm = r`"""
        x = strip(r)
        if isinstance(x, dict) and x.get('k') == 'cond' and depth < 3:
            out = []
            for pol, arm in ((True, x['a']), (False, x['b'])):
                if other_source(st, arm):
                    continue
                for s1 in assume_cond(st, x['c'], pol):
                    out += assign(s1, nm, arm, depth + 1)
            return out
        if depth < 3 and is_truth_value(x) and const_val(st, r) is None:
            # a decision stored in a local (`again = ret < 0 && errno == EINTR`): the local is 1 in the states in which the
            # condition holds and 0 in the others
            out = []
            for tv in (1, 0):
                for s1 in assume_cond(st, x, bool(tv)):
                    s1 = kill(s1, frozenset([nm]))
                    out.append(s1.but(K=s1.K | {(nm, tv)}))
            return out
        res, err = st.n and refers_result(st, x), st.n and refers_errno(st, x)
        c = None if (res or err) else const_val(st, r)
        st = kill(st, frozenset([nm]))
        if res:
            st = st.but(V=st.V | {nm})
        elif err:
            st = st.but(E=st.E | {nm})
        elif c is not None:
            st = st.but(K=st.K | {(nm, c)})
        return [st]

    def tr1(e, st):
        ev = e['ev']
        if ev in ('call', 'enter'):
            if is_src(e):
                return [TS(n=True, cur=(e.get('callee'), e.get('loc')), elive=True, K=st.K)]
            drop = set()
            for a in e.get('args', []):
                a = strip(a)
                if isinstance(a, dict) and a.get('k') == 'addr':
                    w = strip(a['e'])
                    if isinstance(w, dict) and w.get('k') == 'var':
                        drop.add(w['name'])
            if drop:
                st = kill(st, frozenset(drop))
            if ev == 'call' and e.get('callee') != '__errno_location' and st.elive:
                st = st.but(elive=False)
            if is_sink is not None and is_sink(e) and not st.disp:
                st = st.but(disp=True)
            return [st]
        if ev == 'store':
            l = strip(e['lhs'])
            if l.get('k') == 'deref':
                # out-parameter of an inlined helper: `*&x = v`, `*p = v` with p = &x
                l = strip(expand(G, l))
            if l.get('k') == 'var':
                if e.get('op') == '=' and 'rhs' in e:
                    return assign(st, l['name'], e['rhs'])
                return [kill(st, frozenset([l['name']]))]
            return [st]
        if ev == 'decl':
            return [kill(st, frozenset([e['name']]))]
        return [st]

    def tr(e, S):
        return frozenset(s2 for st in S for s2 in tr1(e, st))

    def cmp_const(a, op, b):
        return {'==': a == b, '!=': a != b, '<': a < b, '<=': a <= b, '>': a > b, '>=': a >= b}.get(op, True)

    def assume_all(st, op, l, n, depth=0):
        """states in which `l op n` holds; a conditional expression `c ? a : b` compared with a
        constant is the disjunction (c and a op n) or (not c and b op n)"""
        x = strip(l)
        if isinstance(x, dict) and x.get('k') == 'cond' and depth < 4:
            out = []
            for pol, arm in ((True, x['a']), (False, x['b'])):
                if other_source(st, arm):
                    continue
                for s1 in assume_cond(st, x['c'], pol, depth + 1):
                    out += assume_all(s1, op, arm, n, depth + 1)
            return out
        if isinstance(x, dict) and x.get('k') in ('int', 'null'):
            return [st] if cmp_const(0 if x['k'] == 'null' else x['v'], op, n) else []
        if isinstance(x, dict) and depth < 4 and is_truth_value(x):
            # a truth value (0/1) compared with a constant, e.g. the index of a two-entry table
            out = []
            for tv in (1, 0):
                if cmp_const(tv, op, n):
                    out += assume_cond(st, x, bool(tv), depth + 1)
            return out
        s2 = assume(st, op, l, n)
        return [] if s2 is None else [s2]

    def assume_cond(st, cond, pol, depth=0):
        c = strip(cond)
        if isinstance(c, dict) and depth < 8:
            if c.get('k') == 'un' and c.get('op') == '!':
                return assume_cond(st, c['e'], not pol, depth + 1)
            if _connective(c):
                if (_connective(c) == '&&') == pol:
                    # both operands have the polarity
                    return [s2 for s1 in assume_cond(st, c['l'], pol, depth + 1) for s2 in assume_cond(s1, c['r'], pol, depth + 1)]
                # `A && B` false: !A, or A and !B;  `A || B` true: A, or !A and B
                out = assume_cond(st, c['l'], pol, depth + 1)
                for s1 in assume_cond(st, c['l'], not pol, depth + 1):
                    out = out + assume_cond(s1, c['r'], pol, depth + 1)
                return out
        S = [st]
        for (op, lc, rc, l, r) in _norm_cond1(cond, pol):
            if op == 'const':
                if lc == 'False':
                    return []
                continue
            n = _const(r, rc)
            if n is None or not isinstance(l, dict):
                continue
            S = [s2 for s1 in S for s2 in assume_all(s1, op, l, n, depth)]
        return S

    def edge(blk, si, S):
        t = blk.term
        if not t or t.get('cond') is None or len(blk.succ) < 2 or t.get('cls') == 'MethodDispatch':
            return S
        out = set()
        if t.get('cls') == 'SwitchStmt':
            cases = t.get('cases', [])
            if si >= len(cases):
                return S
            if cases[si] == 'default':
                atoms = [('!=', t['cond'], cv) for cv in cases if isinstance(cv, int)]
            elif isinstance(cases[si], int):
                atoms = [('==', t['cond'], cases[si])]
            else:
                atoms = []
            for st in S:
                cur = [st]
                for (op, l, n) in atoms:
                    cur = [s2 for s1 in cur for s2 in assume_all(s1, op, l, n)]
                out.update(cur)
        elif len(blk.succ) == 2:
            for st in S:
                out.update(assume_cond(st, t['cond'], si == 0))
        else:
            return S
        return frozenset(out) if out else None

    _, ev_in = forward(G, frozenset([TS()]), tr, lambda a, b: a | b, edge=edge)
    return ev_in


# --------------------------------------------------------------------------
# symbolic path execution (loop-free code such as registration)
# --------------------------------------------------------------------------

INF = 10 ** 12


class _Path:
    def __init__(self):
        self.store = {}
        self.facts = {}      # symbol id -> (lo, hi, frozenset(ne))
        self.label = {}      # symbol id -> label
        self.callres = {}
        self.calls = []
        self.conds = []
        self.visits = {}
        self.nsym = [0]
        self.result = None
        self.end = None
        self.bits = {}       # symbol id -> bits known to be set
        self.stores = []     # every store executed: location key, value before / after, facts known at that moment

    def fork(self):
        p = _Path()
        p.store = dict(self.store)
        p.facts = dict(self.facts)
        p.label = self.label          # shared: symbols are never relabelled
        p.callres = dict(self.callres)
        p.calls = list(self.calls)
        p.conds = list(self.conds)
        p.visits = dict(self.visits)
        p.nsym = self.nsym
        p.bits = dict(self.bits)
        p.stores = list(self.stores)
        return p

    def fresh(self, label):
        self.nsym[0] += 1
        i = self.nsym[0]
        self.label[i] = label
        return ('s', i)

    # ---- facts -----------------------------------------------------------
    def bounds(self, i):
        return self.facts.get(i, (-INF, INF, frozenset()))

    def const_of(self, v):
        if v[0] == 'c':
            return v[1]
        if v[0] in ('s', 'neg'):
            lo, hi, ne = self.bounds(v[1])
            if lo == hi:
                return lo if v[0] == 's' else -lo
        return None

    def constrain(self, i, op, n, _rec=False):
        lo, hi, ne = self.bounds(i)
        if op == '==':
            lo, hi = max(lo, n), min(hi, n)
        elif op == '!=':
            ne = ne | {n}
        elif op == '<':
            hi = min(hi, n - 1)
        elif op == '<=':
            hi = min(hi, n)
        elif op == '>':
            lo = max(lo, n + 1)
        elif op == '>=':
            lo = max(lo, n)
        while lo in ne and lo <= hi:
            lo += 1
        while hi in ne and lo <= hi:
            hi -= 1
        if lo > hi:
            return False
        self.facts[i] = (lo, hi, ne)
        lb = self.label.get(i)
        if lb and lb[0] == 'not' and not _rec:
            # !x is non-zero exactly when x is zero
            # (labels refer to older symbols only, so x's own label -- a remembered comparison / connective -- is followed too)
            if lo > 0 or hi < 0 or 0 in ne:
                if not self.constrain(lb[1], '==', 0):
                    return False
            elif lo == hi == 0:
                if not self.constrain(lb[1], '!=', 0):
                    return False
        if lb and lb[0] == 'cmp' and not _rec:
            # the truth value of `a op b` was found non-zero / zero: the comparison holds / does not hold
            from ..core import NEG
            if lo > 0 or hi < 0 or 0 in ne:
                if not self.assume_cmp(lb[2], lb[1], lb[3]):
                    return False
            elif lo == hi == 0:
                if not self.assume_cmp(lb[2], NEG[lb[1]], lb[3]):
                    return False
        if lb and lb[0] in ('lor', 'land') and not _rec:
            # the truth value of `A || B` / `A && B` (A, B truth values 0/1): `||` zero means both are zero, `&&` non-zero means
            # both are non-zero; the other polarity is a disjunction: the alternative the facts leave open is assumed
            nz = lo > 0 or hi < 0 or 0 in ne
            z = lo == hi == 0
            if nz or z:
                both = (lb[0] == 'lor' and z) or (lb[0] == 'land' and nz)
                want = ('!=' if nz else '==')
                ops = [t for t in (lb[1], lb[2]) if t[0] == 's']
                if both:
                    for t in ops:
                        if not self.constrain(t[1], want, 0):
                            return False
                else:
                    # lor non-zero: one of them is non-zero; land zero: one of them is zero
                    open_ = []
                    for t in ops:
                        tlo, thi, tne = self.bounds(t[1])
                        decided_other = (tlo == thi == 0) if nz else (tlo > 0 or thi < 0 or 0 in tne)
                        if not decided_other:
                            open_.append(t)
                    if not open_:
                        return False
                    if len(open_) == 1 and not self.constrain(open_[0][1], want, 0):
                        return False
        if lb and lb[0] == 'and' and (lo > 0 or hi < 0 or 0 in ne) and lb[2] > 0 and lb[2] & (lb[2] - 1) == 0 and lb[1][0] == 's':
            # (x & bit) != 0: the bit is set in x
            self.bits[lb[1][1]] = self.bits.get(lb[1][1], 0) | lb[2]
        return True

    def assume_cmp(self, lv, op, rv):
        """True if feasible (facts recorded)"""
        from ..core import SWAP
        lc, rc = self.const_of(lv), self.const_of(rv)
        if lc is not None and rc is not None:
            return {'==': lc == rc, '!=': lc != rc, '<': lc < rc, '<=': lc <= rc, '>': lc > rc, '>=': lc >= rc}[op]
        if lc is not None and rc is None:
            lv, rv, lc, rc, op = rv, lv, rc, lc, SWAP[op]
        if rc is not None:
            if lv[0] == 's':
                return self.constrain(lv[1], op, rc)
            if lv[0] == 'neg':
                return self.constrain(lv[1], SWAP[op], -rc)
            if lv[0] in ('addr', 'fn'):
                if rc == 0:
                    return {'==': False, '!=': True}.get(op, True)
                return True
            return True
        if lv == rv and lv[0] in ('s', 'neg', 'addr', 'fn'):
            return op in ('==', '<=', '>=')
        return True


class SymExec:
    """Enumerates the paths of G; values are constants, symbols (with interval / disequality
    facts), negated symbols, addresses of access paths and function addresses."""

    def __init__(self, G, max_paths=4000, max_visits=2, prog=None, unit=None):
        self.G = G
        self.prog = prog
        self.unit = unit
        self.max_paths = max_paths
        self.max_visits = max_visits
        self.done = []
        self.cut = []        # paths abandoned at the visit bound (their prefix was executed)

    # ---- expressions -----------------------------------------------------
    @staticmethod
    def _is_array(x):
        return isinstance(x, dict) and x.get('k') == 'var' and '[' in str(x.get('type', ''))

    def vrepr(self, v):
        if v[0] == 's':
            return '$%d' % v[1]
        if v[0] == 'neg':
            return '-$%d' % v[1]
        if v[0] == 'c':
            return str(v[1])
        return str(v[1])

    def const_key(self, key):
        """initialiser denoted by a store key `T[2].f` of constant file-scope data (reached through a pointer that was
        computed on the path), or None"""
        import re
        m = re.match(r'^([A-Za-z_]\w*)((?:\[\d+\]|\.[A-Za-z_]\w*)*)$', key)
        if not m or self.prog is None or not m.group(2):
            return None
        g = self.prog.global_for(self.unit, m.group(1))
        if not isinstance(g, dict) or g.get('extern_decl') or not constant_data(self.prog, self.unit, m.group(1)):
            return None
        d = g.get('init', ZERO)
        for st in re.findall(r'\[\d+\]|\.[A-Za-z_]\w*', m.group(2)):
            if not (isinstance(d, dict) and d.get('k') == 'init'):
                return None
            if st[0] == '[':
                i = int(st[1:-1])
                if 'elems' not in d or not (0 <= i < len(d['elems'])):
                    return None
                d = d['elems'][i]
            else:
                if 'fields' not in d:
                    return None
                d = d['fields'].get(st[1:], ZERO)
        return d if isinstance(d, dict) and d.get('k') != 'init' else None

    def read(self, p, key):
        if key not in p.store:
            d = self.const_key(key)
            if d is not None:
                return self.ev(p, d)
            p.store[key] = p.fresh(('init', key))
        return p.store[key]

    def write(self, p, key, val):
        for k in [k for k in p.store if k != key and k.startswith(key) and k[len(key):len(key) + 1] in ('.', '[', '-')]:
            del p.store[k]
        p.store[key] = val

    def havoc(self, p, key):
        for k in [k for k in p.store if k == key or (k.startswith(key) and k[len(key):len(key) + 1] in ('.', '[', '-'))]:
            del p.store[k]

    def lkey(self, p, e):
        while isinstance(e, dict) and e.get('k') in ('cast', 'stmtexpr', 'paren') and 'e' in e:
            e = e['e']
        if not isinstance(e, dict):
            return '?'
        k = e.get('k')
        if k == 'var':
            return e['name']
        if k == 'load':
            return self.lkey(p, e['e'])
        if k == 'member':
            if e['arrow']:
                pv = self.ev(p, e['base'])
                if pv[0] == 'addr':
                    return '%s.%s' % (pv[1], e['field'])
                return '%s->%s' % (self.vrepr(pv), e['field'])
            return '%s.%s' % (self.lkey(p, e['base']), e['field'])
        if k == 'index':
            pv = self.ev(p, e['base'])
            iv = p.const_of(self.ev(p, e['idx']))
            if pv[0] == 'addr' and pv[1].endswith(']') and iv is not None:
                base, _, k0 = pv[1][:-1].rpartition('[')
                try:
                    return '%s[%d]' % (base, int(k0) + iv)
                except ValueError:
                    pass
            return '%s[%s]' % (self.vrepr(pv), iv if iv is not None else '?')
        if k == 'deref':
            if is_errno(e):
                return 'errno'
            pv = self.ev(p, e['e'])
            if pv[0] == 'addr':
                return pv[1]
            return '*%s' % self.vrepr(pv)
        return '?%s' % canon(e)

    def const_data(self, p, e):
        """initialiser an access path into constant file-scope data denotes (indices evaluated on the path), or None"""
        if self.prog is None:
            return None
        x = strip(e)
        if not isinstance(x, dict):
            return None
        k = x.get('k')
        if k == 'var':
            if _is_gvar(x) and constant_data(self.prog, self.unit, x['name']):
                return self.prog.global_for(self.unit, x['name']).get('init', ZERO)
            return None
        if k == 'member' and not x['arrow']:
            b = self.const_data(p, x['base'])
            if isinstance(b, dict) and b.get('k') == 'init' and 'fields' in b:
                return b['fields'].get(x['field'], ZERO)
            return None
        if k == 'index':
            b = self.const_data(p, x['base'])
            if not (isinstance(b, dict) and b.get('k') == 'init' and 'elems' in b):
                return None
            i = p.const_of(self.ev(p, x['idx']))
            if i is not None and 0 <= i < len(b['elems']):
                return b['elems'][i]
        return None

    def ev(self, p, e):
        if not isinstance(e, dict):
            return p.fresh(('unknown', str(e)))
        k = e.get('k')
        if k in ('load', 'member', 'index') and self.prog is not None:
            x = strip(e)
            if isinstance(x, dict) and x.get('k') in ('member', 'index') and _path_root_name(x) is not None:
                d = self.const_data(p, x)
                if isinstance(d, dict) and d.get('k') != 'init':
                    return self.ev(p, d)
        if k in ('cast', 'stmtexpr', 'paren') and 'e' in e:
            return self.ev(p, e['e'])
        if k == 'load':
            inner = e['e']
            if self._is_array(inner):
                return ('addr', inner['name'] + '[0]')
            if isinstance(inner, dict) and inner.get('k') == 'var' and inner.get('vk') == 'func':
                return ('fn', inner['name'])
            if not (isinstance(inner, dict) and inner.get('k') in ('var', 'member', 'index', 'deref')):
                # a load around a value (argument expression substituted for a parameter read)
                return self.ev(p, inner)
            return self.read(p, self.lkey(p, inner))
        if k == 'int':
            return ('c', e['v'])
        if k == 'null':
            return ('c', 0)
        if k == 'var':
            if e.get('vk') == 'func':
                return ('fn', e['name'])
            if self._is_array(e):
                return ('addr', e['name'] + '[0]')
            return self.read(p, e['name'])
        if k == 'addr':
            inner = strip(e['e']) if isinstance(e['e'], dict) and e['e'].get('k') == 'cast' else e['e']
            if isinstance(inner, dict) and inner.get('k') == 'var' and inner.get('vk') == 'func':
                return ('fn', inner['name'])
            return ('addr', self.lkey(p, e['e']))
        if k in ('member', 'index', 'deref'):
            return self.read(p, self.lkey(p, e))
        if k == 'un':
            v = self.ev(p, e['e'])
            c = p.const_of(v)
            if e['op'] == '-':
                if c is not None:
                    return ('c', -c)
                if v[0] == 's':
                    return ('neg', v[1])
                if v[0] == 'neg':
                    return ('s', v[1])
            if e['op'] == '!' and c is not None:
                return ('c', int(not c))
            if e['op'] == '!' and v[0] in ('addr', 'fn'):
                return ('c', 0)
            if e['op'] == '!' and v[0] in ('s', 'neg'):
                lo, hi, ne = p.bounds(v[1])
                if lo > 0 or hi < 0 or 0 in ne:
                    return ('c', 0)
                n = p.fresh(('not', v[1]))
                p.facts[n[1]] = (0, 1, frozenset())
                return n
            if e['op'] == '~' and c is not None:
                return ('c', ~c)
            return p.fresh(('expr', canon(e)))
        if k == 'bin':
            a, b = self.ev(p, e['l']), self.ev(p, e['r'])
            ca, cb = p.const_of(a), p.const_of(b)
            def _tv(v):
                c = p.const_of(v)
                if c is not None:
                    return c in (0, 1)
                if v[0] != 's':
                    return False
                lo, hi, _ = p.bounds(v[1])
                return lo >= 0 and hi <= 1
            if e['op'] in ('&&', '||') or (e['op'] in ('&', '|') and (ca is None or cb is None) and _tv(a) and _tv(b)):
                # (`|` / `&` of two truth values is the same function as `||` / `&&`)
                # a logical connective used as a value (`*unsupported = (errno == EINVAL || errno == ENOSYS)`): decided by the
                # truth values of its operands as far as the facts of the path decide them, else a 0/1 symbol that remembers them
                ta, tb = self.truth(p, a), self.truth(p, b)
                disj = e['op'] in ('||', '|')
                dom, neu = (1, 0) if disj else (0, 1)
                if ta == ('c', dom) or tb == ('c', dom):
                    return ('c', dom)
                if ta == ('c', neu):
                    return tb
                if tb == ('c', neu):
                    return ta
                n = p.fresh(('lor' if disj else 'land', ta, tb))
                p.facts[n[1]] = (0, 1, frozenset())
                return n
            if e['op'] == '&' and (ca is None) != (cb is None):
                return p.fresh(('and', b if ca is not None else a, ca if ca is not None else cb))
            if e['op'] == '|' and (ca is None) != (cb is None):
                # bits known to be set in an otherwise unknown value
                other = b if ca is not None else a
                bits = ca if ca is not None else cb
                lb = p.label.get(other[1]) if other[0] == 's' else None
                if lb and lb[0] == 'or':
                    bits |= lb[1]
                return p.fresh(('or', bits))
            if e['op'] in ('==', '!=', '<', '<=', '>', '>=') and (ca is None or cb is None):
                # a comparison used as a value (table index): decided by the facts of the path, if at all
                from ..core import NEG
                t = p.fork().assume_cmp(a, e['op'], b)
                f = p.fork().assume_cmp(a, NEG[e['op']], b)
                if t and not f:
                    return ('c', 1)
                if f and not t:
                    return ('c', 0)
                # undecided: a truth value that remembers the comparison (a predicate helper's result tested later)
                n = p.fresh(('cmp', e['op'], a, b))
                p.facts[n[1]] = (0, 1, frozenset())
                return n
            if ca is not None and cb is not None:
                try:
                    return ('c', interp.evaluate({'k': 'bin', 'op': e['op'], 'l': {'k': 'int', 'v': ca}, 'r': {'k': 'int', 'v': cb}},
                                                 interp.Assignment(), {}))
                except Exception:
                    pass
            return p.fresh(('expr', canon(e)))
        if k == 'assign' and e.get('op') == '=':
            # `(v = E)` used as a value: the store event was executed before
            return self.read(p, self.lkey(p, e['l']))
        if k == 'call':
            key = (e.get('callee'), e.get('loc'))
            if key not in p.callres:
                p.callres[key] = p.fresh(('call', e.get('callee'), e.get('loc')))
            return p.callres[key]
        if k == 'cond':
            q = p.fork()
            t = self._assume(q, e['c'], True)
            q = p.fork()
            f = self._assume(q, e['c'], False)
            if t and not f:
                return self.ev(p, e['a'])
            if f and not t:
                return self.ev(p, e['b'])
            return p.fresh(('expr', canon(e)))
        return p.fresh(('expr', canon(e)))

    def truth(self, p, v):
        """the truth value (0/1) of value v: a constant where the facts of the path decide it, v itself if it is a 0/1 symbol,
        else a 0/1 symbol that remembers `v != 0`"""
        c = p.const_of(v)
        if c is not None:
            return ('c', int(c != 0))
        if v[0] in ('addr', 'fn'):
            return ('c', 1)
        if v[0] in ('s', 'neg'):
            lo, hi, ne = p.bounds(v[1])
            if lo > 0 or hi < 0 or 0 in ne:
                return ('c', 1)
            if v[0] == 's' and lo >= 0 and hi <= 1:
                return v
        n = p.fresh(('cmp', '!=', v, ('c', 0)))
        p.facts[n[1]] = (0, 1, frozenset())
        return n

    # ---- conditions --------------------------------------------------------
    def _assume(self, p, cond, pol, depth=0):
        c = strip(cond)
        if isinstance(c, dict) and depth < 8:
            if c.get('k') == 'un' and c.get('op') == '!':
                return self._assume(p, c['e'], not pol, depth + 1)
            if c.get('k') == 'bin' and c.get('op') in ('&&', '||'):
                if (c['op'] == '&&') == pol:
                    return self._assume(p, c['l'], pol, depth + 1) and self._assume(p, c['r'], pol, depth + 1)
                # a disjunction (`A || B` true, `A && B` false):  L, or not-L and R.  A path carries one set of facts, so an
                # alternative is assumed only when the facts of the path rule the other one out (the branches of a lowered
                # `&&` / `||` were decided in earlier blocks of the path)
                alt1 = self._assume(p.fork(), c['l'], pol, depth + 1)
                q = p.fork()
                alt2 = self._assume(q, c['l'], not pol, depth + 1) and self._assume(q, c['r'], pol, depth + 1)
                if not alt1 and not alt2:
                    return False
                if alt1 and not alt2:
                    return self._assume(p, c['l'], pol, depth + 1)
                if alt2 and not alt1:
                    return self._assume(p, c['l'], not pol, depth + 1) and self._assume(p, c['r'], pol, depth + 1)
                return True
        for (op, lc, rc, l, r) in _norm_cond1(cond, pol):
            if op == 'const':
                if lc == 'False':
                    return False
                continue
            if not isinstance(l, dict) or not isinstance(r, dict):
                continue
            if not p.assume_cmp(self.ev(p, l), op, self.ev(p, r)):
                return False
        return True

    # ---- events --------------------------------------------------------------
    def step(self, p, e):
        ev = e['ev']
        if ev == 'store':
            key = self.lkey(p, e['lhs'])
            old = p.store.get(key)
            if old is None and not key.startswith(('?', '*', '$')):
                old = self.read(p, key)
            rec = {'event': e, 'key': key, 'old': old, 'new': None, 'ncalls': len(p.calls), 'nconds': len(p.conds)}
            p.stores.append(rec)
            self._store(p, e, key)
            rec['new'] = p.store.get(key)
            rec['facts'] = dict(p.facts)
        elif ev == 'decl':
            self.havoc(p, e['name'])
        elif ev == 'call':
            self._call(p, e)

    def _store(self, p, e, key):
        if e.get('op') == '=' and 'rhs' in e:
            self.write(p, key, self.ev(p, e['rhs']))
        elif e.get('op') == '|=' and 'rhs' in e and p.const_of(self.ev(p, e['rhs'])) is not None:
            old = p.store.get(key)
            bits = p.const_of(self.ev(p, e['rhs']))
            lb = p.label.get(old[1]) if old is not None and old[0] == 's' else None
            if lb and lb[0] == 'or':
                bits |= lb[1]
            self.write(p, key, p.fresh(('or', bits)))
        else:
            self.write(p, key, p.fresh(('expr', canon(e['lhs']) + e.get('op', ''))))

    def _call(self, p, e):
        args = [self.ev(p, a) for a in e.get('args', [])]
        callee = e.get('callee')
        snap = dict(p.store)
        cid = len(p.calls)
        res = p.fresh(('call', callee, e.get('loc')))
        p.callres[(callee, e.get('loc'))] = res
        rec = {'callee': callee, 'args': args, 'loc': e.get('loc'), 'store': snap, 'id': cid, 'event': e, 'res': res, 'errno': None}
        p.calls.append(rec)
        if callee == '__errno_location':
            return
        for a in args:
            if a[0] == 'addr':
                self.havoc(p, a[1])
                if a[1].endswith('[0]'):
                    self.havoc(p, a[1][:-3])
        if callee in ('pipe', 'pipe2') and args and args[0][0] == 'addr' and args[0][1].endswith('[0]'):
            base = args[0][1][:-3]
            p.store[base + '[0]'] = p.fresh(('pipe', 0, cid))
            p.store[base + '[1]'] = p.fresh(('pipe', 1, cid))
        # errno as left by a call: error numbers are positive
        en = p.fresh(('errno', callee, e.get('loc')))
        p.facts[en[1]] = (1, INF, frozenset())
        p.store['errno'] = en
        rec['errno'] = en      # errno as left by this very call (later calls leave their own)

    def run(self):
        G = self.G
        work = [(G.entry, _Path())]
        while work:
            b, p = work.pop()
            if len(self.done) + len(work) > self.max_paths:
                raise AnalysisBroken('symbolic execution of %s: more than %d paths' % (G.name, self.max_paths))
            p.visits[b] = p.visits.get(b, 0) + 1
            if p.visits[b] > self.max_visits:
                self.cut.append(p)
                continue
            blk = G.blocks[b]
            ended = False
            for e in blk.events:
                if e['ev'] == 'ret' and not e.get('chain'):
                    p.result = self.ev(p, e['value']) if 'value' in e else None
                    p.end = ('ret', e)
                    self.done.append(p)
                    ended = True
                    break
                self.step(p, e)
            if ended:
                continue
            if blk.noreturn:
                continue
            succ = [s for s in blk.succ]
            if b == G.exit or not succ:
                p.end = ('exit', None)
                self.done.append(p)
                continue
            t = blk.term
            if len(succ) == 1 or not t or t.get('cond') is None or t.get('cls') == 'MethodDispatch':
                for s in succ:
                    if s is not None:
                        work.append((s, p.fork() if len(succ) > 1 else p))
                continue
            if t.get('cls') == 'SwitchStmt':
                cases = t.get('cases', [])
                cv = self.ev(p, t['cond'])
                for si, s in enumerate(succ):
                    if s is None or si >= len(cases):
                        continue
                    q = p.fork()
                    ok = True
                    if cases[si] == 'default':
                        for c in cases:
                            if isinstance(c, int) and not q.assume_cmp(cv, '!=', ('c', c)):
                                ok = False
                    elif isinstance(cases[si], int):
                        ok = q.assume_cmp(cv, '==', ('c', cases[si]))
                    if ok:
                        q.conds.append('%s: switch (%s) case %s' % (relpath(t.get('loc', '?')), canon(t['cond']), cases[si]))
                        work.append((s, q))
                continue
            for si, s in enumerate(succ[:2]):
                if s is None:
                    continue
                q = p.fork()
                if self._assume(q, t['cond'], si == 0):
                    q.conds.append('%s: (%s) is %s' % (relpath(t.get('loc', '?')), canon(t['cond']), 'true' if si == 0 else 'false'))
                    work.append((s, q))
        return self.done
