"""Helpers of the C10 rules (iv_signal).

1. `Machine`: a small concrete interpreter of the extracted facts (CFG + event
   lists of the *pristine* functions) over a finite model world: byte-addressed
   objects laid out with the record layouts of the facts, a handful of
   primitives for the library/OS functions the signal code calls, and a trace
   of the externally visible operations together with the lock / signal-mask
   state in which they happened.  No repository code is executed: this is
   evaluation of the facts over a finite domain, the generalisation of
   ivy.interp (which decides branches from an assignment) to code that walks a
   small heap.  Rules then state *what the code does to every model world*, so
   that loop shape, helper boundaries, names of locals and statics, cached
   values, flag variables and the spelling of conditions are all irrelevant.
   Every world must be decided by the model (a branch on a value the model
   does not define is ANALYSIS-BROKEN) and the worlds together must cover the
   effectful blocks of the functions they execute (`uncovered`).

2. Role discovery for the static rules: file-scope objects by type (`slots`),
   definitions of locals (`defs_of`), structural atoms.
"""
from ..core import AnalysisBroken, canon, strip, strip_load, last_member

UNK = ('unk',)


class Stuck(Exception):
    """the model does not decide the execution (=> ANALYSIS-BROKEN)"""


class Fatal(Exception):
    """a noreturn call (iv_fatal/abort) was reached"""


class NonTerm(Exception):
    """step budget exhausted: the interpreted code loops on this world"""


# --------------------------------------------------------------------------
# layout
# --------------------------------------------------------------------------

SCALAR_SIZE = {'char': 1, 'signed char': 1, 'unsigned char': 1, 'uint8_t': 1, 'int8_t': 1, '_Bool': 1,
               'short': 2, 'unsigned short': 2, 'uint16_t': 2, 'int16_t': 2,
               'int': 4, 'unsigned int': 4, 'unsigned': 4, 'uint32_t': 4, 'int32_t': 4, 'pid_t': 4, '__pid_t': 4,
               'pthread_spinlock_t': 4, 'float': 4}


class Layout:
    def __init__(self, prog):
        self.prog = prog

    def record(self, name):
        r = self.prog.records.get(name)
        if r is None or 'fields' not in r:
            raise Stuck('layout of record %s unknown' % name)
        return r

    def field(self, record, field):
        """field description; `field` may be a dotted path (container_of member)"""
        off = 0
        f = None
        for part in field.split('.'):
            r = self.record(record)
            f = [x for x in r['fields'] if x['name'] == part]
            if not f:
                raise Stuck('record %s has no field %s' % (record, part))
            f = f[0]
            off += f['offset']
            record = f.get('record')
        return dict(f, offset=off)

    def offset(self, record, field):
        return self.field(record, field)['offset']

    def has(self, record, field):
        r = self.prog.records.get(record)
        return bool(r and any(x['name'] == field for x in r.get('fields', [])))

    def size_of(self, typ, record=None, ptr=False, bound=None):
        typ = (typ or '').strip()
        if typ.endswith(']') and '[' in typ and '(*' not in typ:
            head, dims = typ.split('[', 1)
            n = 1
            for d in dims.replace(']', ' ').replace('[', ' ').split():
                n *= int(d) if d.isdigit() else 1
            return n * self.size_of(head.strip(), record, ptr)
        if ptr or typ.endswith('*') or '(*' in typ:
            return 8
        if record and record in self.prog.records and 'size' in self.prog.records[record]:
            return self.prog.records[record]['size']
        t = typ
        for q in ('const ', 'volatile ', 'struct ', 'union '):
            t = t.replace(q, '')
        t = t.strip()
        if t in self.prog.records and 'size' in self.prog.records[t]:
            return self.prog.records[t]['size']
        return SCALAR_SIZE.get(t, 8)

    def slots(self, typ, record=None, ptr=False, base=0, depth=0, inside=None):
        """(offset, type string, record or None, is pointer, 'array' or None, enclosing record or None) of every
        slot inside an object of the given type, aggregates included (pre-order)."""
        out = [(base, typ, None if ptr else record, ptr, None, inside)]
        if ptr or depth > 6:
            return out
        if typ.strip().endswith(']'):
            return [(base, typ, None, False, 'array', inside)]
        if record and record in self.prog.records:
            for f in self.prog.records[record].get('fields', []):
                if 'bound' in f:
                    out.append((base + f['offset'], f['type'], None, False, 'array', record))
                else:
                    out += self.slots(f['type'], f.get('record'), f.get('ptr', False), base + f['offset'], depth + 1, record)
        return out


# --------------------------------------------------------------------------
# the machine
# --------------------------------------------------------------------------

def is_ptr(v):
    return isinstance(v, tuple) and len(v) == 3 and v[0] == 'p'


def is_fn(v):
    return isinstance(v, tuple) and len(v) == 2 and v[0] == 'fn'


class Machine:
    def __init__(self, prog, unit, prims=None, max_steps=60000):
        self.prog = prog
        self.unit = unit
        self.lay = Layout(prog)
        self.prims = dict(prims or {})
        self.objs = {}
        self.mem = {}
        self.bycell = {}          # oid -> set(offsets written)
        self.next_base = 0x100000
        self.globs = {}
        self.trace = []
        self.cover = set()
        self.entered = set()
        self.watch = {}           # oid -> None (whole object) | (lo, hi) byte range: reads are logged
        self.frames = []
        self.steps = 0
        self.max_steps = max_steps
        self.cur_loc = None

    # -- state snapshot merged into every trace entry (overridden) ------------
    def snap(self):
        return {}

    def log(self, t, **kw):
        d = dict(t=t, loc=self.cur_loc, seq=len(self.trace))
        d.update(self.snap())
        d.update(kw)
        self.trace.append(d)
        return d

    # -- memory -------------------------------------------------------------
    def alloc(self, size, name, zero=False, base=None, local=False):
        oid = len(self.objs) + 1
        if base is None:
            base = self.next_base
            self.next_base += ((max(size, 1) + 63) // 64 + 1) * 64
        self.objs[oid] = {'size': size, 'base': base, 'name': name, 'zero': zero, 'zr': [], 'local': local}
        self.bycell[oid] = set()
        return oid

    def addr(self, p):
        return self.objs[p[1]]['base'] + p[2]

    def read(self, oid, off):
        if oid in self.watch:
            r = self.watch[oid]
            if r is None or r[0] <= off < r[1]:
                self.log('read', oid=oid, off=off)
        v = self.mem.get((oid, off))
        if v is not None:
            return v
        o = self.objs[oid]
        if o['zero'] or any(a <= off < b for (a, b) in o['zr']):
            return 0
        return UNK

    def read_rec(self, oid, off, size):
        cells = {}
        for o in self.bycell[oid]:
            if off <= o < off + size:
                cells[o - off] = self.mem[(oid, o)]
        ob = self.objs[oid]
        zero = ob['zero'] or any(a <= off and off + size <= b for (a, b) in ob['zr'])
        return ('rec', size, tuple(sorted(cells.items(), key=lambda kv: kv[0])), zero)

    def clear(self, oid, off, size, zero):
        for o in [o for o in self.bycell[oid] if off <= o < off + size]:
            del self.mem[(oid, o)]
            self.bycell[oid].discard(o)
        ob = self.objs[oid]
        if zero:
            ob['zr'].append((off, off + size))
        elif not ob['zero']:
            ob['zr'] = [(a, b) for (a, b) in ob['zr'] if b <= off or a >= off + size]

    def write(self, oid, off, v, quiet=False):
        if isinstance(v, tuple) and v and v[0] == 'rec':
            self.clear(oid, off, v[1], v[3])
            for (o, x) in v[2]:
                self.mem[(oid, off + o)] = x
                self.bycell[oid].add(off + o)
        else:
            self.mem[(oid, off)] = v
            self.bycell[oid].add(off)
        if not quiet and not self.objs[oid]['local']:
            self.log('store', oid=oid, off=off, val=v)

    # -- variables ------------------------------------------------------------
    def unit_of_frame(self):
        f = self.frames[-1]['fn'] if self.frames else None
        u = self.prog.unit_of(f) if f is not None else None
        return u or self.unit

    def global_obj(self, name, node=None):
        unit = self.unit_of_frame()
        key = self.prog.global_key(unit, name)
        if key in self.globs:
            return self.globs[key]
        g = self.prog.global_for(unit, name)
        if g is None:
            size = self.lay.size_of((node or {}).get('type', ''), (node or {}).get('record'), (node or {}).get('ptr', False))
            oid = self.alloc(size, name, zero=False)
            self.globs[key] = oid
            return oid
        size = self.lay.size_of(g.get('type', ''), g.get('record'), g.get('ptr', False))
        defined = not g.get('extern_decl')
        oid = self.alloc(size, name, zero=defined)
        self.globs[key] = oid
        init = g.get('init')
        if isinstance(init, dict):
            self.frames.append({'fn': None, 'vars': {}, 'stash': {}, 'unit': unit})
            try:
                self.apply_init(oid, 0, g.get('record') if not g.get('ptr') else None, init, g.get('type', ''))
            finally:
                self.frames.pop()
        return oid

    def local_obj(self, node_or_name, typ='', record=None, ptr=False):
        fr = self.frames[-1]
        name = node_or_name if isinstance(node_or_name, str) else node_or_name['name']
        if name not in fr['vars']:
            if not isinstance(node_or_name, str):
                typ, record, ptr = node_or_name.get('type', ''), node_or_name.get('record'), node_or_name.get('ptr', False)
            fr['vars'][name] = self.alloc(self.lay.size_of(typ, record, ptr), name, local=True)
        return fr['vars'][name]

    def apply_init(self, oid, off, record, init, typ=''):
        init = strip_init(init)
        k = init.get('k')
        if k == 'init':
            if 'fields' in init:
                rec = init.get('record') or record
                for fname, sub in init['fields'].items():
                    fd = self.lay.field(rec, fname)
                    self.apply_init(oid, off + fd['offset'], fd.get('record') if not fd.get('ptr') else None, sub, fd.get('type', ''))
                return
            elems = init.get('elems', [])
            if record and self.prog.records.get(record, {}).get('union'):
                if elems:
                    f0 = self.lay.record(record)['fields'][0]
                    self.apply_init(oid, off, f0.get('record') if not f0.get('ptr') else None, elems[0], f0.get('type', ''))
                return
            if typ.strip().endswith(']'):
                el = typ[:typ.rindex('[')].strip() if typ.count('[') == 1 else None
                if el is None:
                    if all(strip_init(x).get('implicit') or strip_init(x).get('k') == 'int' and strip_init(x).get('v') == 0 for x in elems):
                        return
                    raise Stuck('initialiser of multi-dimensional array')
                es = self.lay.size_of(el)
                for i, x in enumerate(elems):
                    self.apply_init(oid, off + i * es, None, x, el)
                return
            if len(elems) == 1:
                return self.apply_init(oid, off, record, elems[0], typ)
            if not elems:
                return
            raise Stuck('initialiser list for %s' % typ)
        if k == 'int' and init.get('implicit'):
            return
        self.write(oid, off, self.rval(init), quiet=True)

    # -- lvalues ----------------------------------------------------------------
    def lval(self, e):
        k = e.get('k')
        if k in ('load', 'cast', 'paren'):
            return self.lval(e['e'])
        if k == 'var':
            vk = e.get('vk')
            if vk in ('local', 'param'):
                return (self.local_obj(e), 0)
            if vk in ('global', 'staticlocal'):
                return (self.global_obj(e['name'], e), 0)
            raise Stuck('not an object: %s' % e.get('name'))
        if k == 'member':
            fd = self.lay.field(e.get('record'), e['field'])
            if e['arrow']:
                p = self.rval(e['base'])
                if not is_ptr(p):
                    raise Stuck('dereference of %r in %s' % (p, canon(e)))
                return (p[1], p[2] + fd['offset'])
            o, off = self.lval(e['base'])
            return (o, off + fd['offset'])
        if k == 'index':
            i = self.rval(e['idx'])
            if not isinstance(i, int):
                raise Stuck('index %r in %s' % (i, canon(e)))
            es = self.lay.size_of(e.get('type', ''))
            if 'bound' in e:
                o, off = self.lval(e['base'])
                if not (0 <= i < e['bound']):
                    self.log('oob', index=i, bound=e['bound'], what=canon(e))
                return (o, off + i * es)
            p = self.rval(e['base'])
            if not is_ptr(p):
                raise Stuck('indexing %r in %s' % (p, canon(e)))
            return (p[1], p[2] + i * es)
        if k == 'deref':
            p = self.rval(e['e'])
            if not is_ptr(p):
                raise Stuck('dereference of %r in %s' % (p, canon(e)))
            return (p[1], p[2])
        if k == 'compound':
            init = e.get('e') or {}
            rec = init.get('record')
            oid = self.alloc(self.lay.size_of('', rec) if rec else 64, 'compound', zero=True, local=True)
            self.apply_init(oid, 0, rec, init)
            return (oid, 0)
        if k == 'stmtexpr' and 'e' in e:
            return self.lval(e['e'])
        raise Stuck('not an lvalue: %s' % canon(e))

    def rec_of(self, e):
        """record name when the lvalue expression denotes a whole struct/union object"""
        k = e.get('k')
        if k in ('cast', 'paren'):
            return self.rec_of(e['e'])
        if k == 'var':
            return e.get('record') if e.get('record') and not e.get('ptr') and 'bound' not in e and not str(e.get('type', '')).endswith(']') else None
        if k == 'member':
            return e.get('trecord') if e.get('trecord') and not e.get('tptr') and not str(e.get('type', '')).endswith(']') else None
        if k in ('deref', 'index'):
            t = str(e.get('type', ''))
            for q in ('const ', 'volatile ', 'struct ', 'union '):
                t = t.replace(q, '')
            t = t.strip()
            r = self.prog.records.get(t)
            return t if r is not None and 'size' in r else None
        return None

    # -- rvalues ----------------------------------------------------------------
    def fnval(self, name):
        f = self.prog.resolve(self.unit_of_frame(), name)
        return ('fn', f.q if f is not None else name)

    def rval(self, e):
        if not isinstance(e, dict):
            raise Stuck('expression %r' % (e,))
        k = e.get('k')
        if k == 'int':
            return e['v']
        if k == 'null':
            return 0
        if k == 'load':
            inner = e['e']
            while isinstance(inner, dict) and inner.get('k') in ('paren',):
                inner = inner['e']
            if inner.get('k') in ('call', 'cond', 'assign', 'stmtexpr', 'bin', 'un', 'int', 'null', 'incdec', 'container_of'):
                return self.rval(inner)
            rec = self.rec_of(inner)
            o, off = self.lval(inner)
            if rec:
                return self.read_rec(o, off, self.lay.record(rec)['size'])
            return self.read(o, off)
        if k in ('cast', 'paren'):
            return self.rval(e['e'])
        if k == 'str':
            return ('str', e.get('v'))
        if k == 'var':
            vk = e.get('vk')
            if vk == 'func':
                return self.fnval(e['name'])
            if vk == 'enum':
                return e.get('v')
            # array (or record lvalue used as a value without load): decays to its address
            o, off = self.lval(e)
            return ('p', o, off)
        if k in ('member', 'index', 'deref', 'compound'):
            # no load wrapper: array-to-pointer decay / function designator
            if k == 'deref':
                v = self.rval(e['e'])
                if is_fn(v):
                    return v
            o, off = self.lval(e)
            return ('p', o, off)
        if k == 'addr':
            inner = e['e']
            while isinstance(inner, dict) and inner.get('k') in ('paren', 'cast'):
                inner = inner['e']
            if inner.get('k') == 'var' and inner.get('vk') == 'func':
                return self.fnval(inner['name'])
            o, off = self.lval(inner)
            return ('p', o, off)
        if k == 'container_of':
            p = self.rval(e['e'])
            if p == 0:
                raise Stuck('container_of(NULL)')
            if not is_ptr(p):
                raise Stuck('container_of of %r' % (p,))
            return ('p', p[1], p[2] - self.lay.offset(e['record'], e['member']))
        if k == 'un':
            v = self.rval(e['e'])
            op = e['op']
            if op == '!':
                return UNK if v == UNK else int(not self.truth(v))
            if v == UNK:
                return UNK
            if op == '+':
                return v
            if not isinstance(v, int):
                raise Stuck('%s applied to %r' % (op, v))
            return -v if op == '-' else ~v
        if k == 'bin':
            return self.binop(e)
        if k == 'cond':
            c = self.rval(e['c'])
            if e.get('gnu'):
                return c if self.truth(c) else self.rval(e['b'])
            return self.rval(e['a'] if self.truth(c) else e['b'])
        if k == 'incdec':
            o, off = self.lval(e['e'])
            cur = self.read(o, off)
            if e.get('prefix') or cur == UNK:
                return cur
            if not isinstance(cur, int):
                raise Stuck('value of %s' % canon(e))
            return cur - 1 if e['op'] == '++' else cur + 1      # the store event already happened
        if k == 'assign':
            o, off = self.lval(e['l'])
            rec = self.rec_of(strip_load(e['l']))
            return self.read_rec(o, off, self.lay.record(rec)['size']) if rec else self.read(o, off)
        if k == 'call':
            st = self.frames[-1]['stash']
            key = (e.get('callee'), e.get('loc'))
            if key in st:
                return st[key]
            return self.do_call(e)
        if k == 'stmtexpr':
            if 'e' in e:
                return self.rval(e['e'])
            return UNK
        if k == 'sizeof':
            return UNK
        if k in ('float', 'va_arg', 'other', 'deep', 'init'):
            return UNK
        raise Stuck('cannot evaluate %s' % canon(e))

    def binop(self, e):
        op = e['op']
        if op == '&&':
            l = self.rval(e['l'])
            if not self.truth(l):
                return 0
            return int(self.truth(self.rval(e['r'])))
        if op == '||':
            l = self.rval(e['l'])
            if self.truth(l):
                return 1
            return int(self.truth(self.rval(e['r'])))
        if op == ',':
            return self.rval(e['r'])
        a, b = self.rval(e['l']), self.rval(e['r'])
        if a == UNK or b == UNK:
            return UNK
        if op in ('==', '!='):
            if is_ptr(a) and is_ptr(b):
                a, b = self.addr(a), self.addr(b)
            return int((a == b) == (op == '=='))
        if op in ('<', '>', '<=', '>='):
            if is_ptr(a) and is_ptr(b):
                a, b = self.addr(a), self.addr(b)
            if isinstance(a, int) and isinstance(b, int):
                return int({'<': a < b, '>': a > b, '<=': a <= b, '>=': a >= b}[op])
            raise Stuck('ordering of %r and %r' % (a, b))
        if isinstance(a, int) and isinstance(b, int):
            if op in ('+', '-', '*', '&', '|', '^'):
                return {'+': a + b, '-': a - b, '*': a * b, '&': a & b, '|': a | b, '^': a ^ b}[op]
            if op == '<<':
                return a << b
            if op == '>>':
                return a >> b
            if op in ('/', '%'):
                if b == 0:
                    raise Stuck('division by zero')
                q = abs(a) // abs(b) * (1 if (a >= 0) == (b >= 0) else -1)
                return q if op == '/' else a - q * b
        if op in ('+', '-') and (is_ptr(a) and isinstance(b, int) or (op == '+' and isinstance(a, int) and is_ptr(b))):
            pe, p, n = (e['l'], a, b) if is_ptr(a) else (e['r'], b, a)
            sc = self.ptr_scale(pe)
            return ('p', p[1], p[2] + (n if op == '+' else -n) * sc)
        if is_ptr(a) and is_ptr(b) and op == '-' and a[1] == b[1]:
            sc = self.ptr_scale(e['l'])
            return (a[2] - b[2]) // sc
        raise Stuck('operator %s on %r, %r' % (op, a, b))

    def ptr_scale(self, pe):
        """size of what the pointer-valued expression points to (for pointer arithmetic)"""
        x = pe
        while isinstance(x, dict) and x.get('k') in ('load', 'paren'):
            x = x['e']
        t = None
        if isinstance(x, dict):
            if x.get('k') == 'cast':
                t = x.get('to')
            elif x.get('k') in ('var', 'member', 'call', 'index', 'deref'):
                t = x.get('type')
            elif x.get('k') == 'addr':
                inner = strip_load(x['e'])
                return self.lay.size_of(inner.get('type', ''), self.rec_of(inner))
        if not t or not str(t).strip().endswith('*'):
            raise Stuck('pointer arithmetic on %s' % canon(pe))
        pt = str(t).strip()[:-1].strip()
        if pt in ('void', 'const void'):
            return 1
        return self.lay.size_of(pt)

    def truth(self, v):
        if v == UNK:
            raise Stuck('branch on a value the model does not define (%s)' % self.cur_loc)
        if isinstance(v, int):
            return v != 0
        return True

    # -- calls --------------------------------------------------------------------
    def do_call(self, e):
        args = [self.rval(a) for a in e.get('args', [])]
        if 'callee' in e:
            return self.call_named(e['callee'], args, e)
        fv = self.rval(e['fnexpr'])
        if is_fn(fv):
            if fv[1] in self.prims:
                return self.prims[fv[1]](self, args, e)
            f = self.prog.funcs.get(fv[1])
            if f is not None and f.blocks:
                return self.run(f, args)
            return self.extern(fv[1], args, e)
        if isinstance(fv, tuple) and fv and fv[0] == 'user':
            self.log('user', who=fv[1], args=args, via=last_member(e['fnexpr']))
            return UNK
        raise Stuck('indirect call through %r (%s)' % (fv, canon(e['fnexpr'])))

    def call_named(self, name, args, e=None):
        if name in self.prims:
            return self.prims[name](self, args, e)
        f = self.prog.resolve(self.unit_of_frame(), name)
        if f is not None and f.blocks and (not f.file.endswith('.c') or self.prog.unit_of(f) == self.unit):
            return self.run(f, args)
        return self.extern(name, args, e)

    def extern(self, name, args, e):
        if e is not None and e.get('noreturn'):
            self.log('fatal', name=name)
            raise Fatal(name)
        self.log('extern', name=name, args=args)
        return UNK

    def run(self, f, args):
        g = f.pristine() if hasattr(f, 'pristine') else f
        fr = {'fn': f, 'vars': {}, 'stash': {}}
        self.frames.append(fr)
        if len(self.frames) > 40:
            raise Stuck('call depth')
        self.entered.add(f.q)
        try:
            for p, a in zip(f.params, args):
                o = self.local_obj(p['name'], p.get('type', ''), p.get('record'), p.get('ptr', False))
                self.write(o, 0, a, quiet=True)
            b = g.entry
            while True:
                blk = g.blocks[b]
                self.cover.add((f.q, b))
                for ev in blk.events:
                    self.steps += 1
                    if self.steps > self.max_steps:
                        raise NonTerm('%s does not terminate on this world (%s)' % (f.name, ev.get('loc')))
                    t = ev['ev']
                    if t == 'load':
                        continue
                    self.cur_loc = ev.get('loc')
                    if t == 'decl':
                        fr['vars'].pop(ev['name'], None)
                        o = self.local_obj(ev['name'], ev.get('type', ''), ev.get('record'), ev.get('ptr', False))
                        if ev.get('static'):
                            self.objs[o]['zero'] = True
                        if 'init' in ev:
                            self.objs[o]['zero'] = True
                            self.apply_init(o, 0, ev.get('record') if not ev.get('ptr') else None, ev['init'], ev.get('type', ''))
                    elif t == 'store':
                        self.do_store(ev)
                    elif t == 'call':
                        v = self.do_call(ev)
                        fr['stash'][(ev.get('callee'), ev.get('loc'))] = v
                    elif t == 'ret':
                        return self.rval(ev['value']) if 'value' in ev else None
                if blk.noreturn:
                    raise Fatal('noreturn block')
                if not blk.succ:
                    return None
                if len(blk.succ) == 1:
                    nb = blk.succ[0]
                elif blk.term and blk.term.get('cls') == 'SwitchStmt':
                    v = self.rval(blk.term['cond'])
                    if not isinstance(v, int):
                        raise Stuck('switch on %r' % (v,))
                    cases = blk.term.get('cases', [])
                    nb = None
                    for i, cv in enumerate(cases):
                        if cv == v:
                            nb = blk.succ[i]
                    if nb is None:
                        for i, cv in enumerate(cases):
                            if cv == 'default':
                                nb = blk.succ[i]
                else:
                    c = blk.term.get('cond') if blk.term else None
                    if c is None:
                        if blk.term and blk.term.get('cls') in ('ForStmt', 'WhileStmt', 'DoStmt') and blk.succ[0] is not None:
                            nb = blk.succ[0]          # `for (;;)`: no condition, the loop is left by break/return only
                        else:
                            raise Stuck('branch without condition in %s' % f.name)
                    else:
                        self.cur_loc = blk.term.get('loc') or self.cur_loc
                        nb = blk.succ[0] if self.truth(self.rval(c)) else blk.succ[1]
                if nb is None:
                    raise Stuck('edge to an unreachable block in %s' % f.name)
                self.steps += 1
                if self.steps > self.max_steps:
                    raise NonTerm('%s does not terminate on this world' % f.name)
                b = nb
        finally:
            self.frames.pop()

    def do_store(self, ev):
        lhs = ev['lhs']
        o, off = self.lval(lhs)
        op = ev['op']
        if op == '=':
            v = self.rval(ev['rhs'])
            rec = self.rec_of(strip_load(lhs))
            if rec and not (isinstance(v, tuple) and v and v[0] == 'rec'):
                if v == UNK:
                    v = ('rec', self.lay.record(rec)['size'], (), False)
                else:
                    raise Stuck('record store of %r' % (v,))
            self.write(o, off, v)
            return
        cur = self.read(o, off)
        if op in ('++', '--'):
            if cur == UNK:
                v = UNK
            elif isinstance(cur, int):
                v = cur + (1 if op == '++' else -1)
            else:
                raise Stuck('%s on %r' % (op, cur))
        else:
            r = self.rval(ev['rhs'])
            if cur == UNK or r == UNK:
                v = UNK
            else:
                v = self.binop({'op': op[:-1], 'l': {'k': 'int', 'v': cur} if isinstance(cur, int) else None,
                                'r': {'k': 'int', 'v': r} if isinstance(r, int) else None}) \
                    if isinstance(cur, int) and isinstance(r, int) else None
                if v is None:
                    raise Stuck('%s on %r, %r' % (op, cur, r))
        self.write(o, off, v)


def strip_init(e):
    while isinstance(e, dict) and e.get('k') in ('cast', 'paren') and 'e' in e:
        e = e['e']
    return e


# calls that only look something up: not actions of their own
LOOKUPS = ('getpid', 'iv_tls_user_ptr', '__iv_tls_user_ptr', 'pthr_self', 'iv_get_thread_id', '__errno_location', 'strerror')


def uncovered(prog, machines_cover, entered):
    """Blocks with an effect (a call, a store to anything but a local) of the functions some world entered, that no
    world executed and from which the function can still return (paths into iv_fatal are exempt)."""
    out = []
    for q in sorted(entered):
        f = prog.funcs.get(q)
        if f is None:
            continue
        g = f.pristine()
        can_ret = set()
        preds = g.preds()
        st = [g.exit]
        while st:
            x = st.pop()
            if x in can_ret:
                continue
            can_ret.add(x)
            st.extend(preds.get(x, ()))
        for b in g.reachable_blocks():
            if b not in can_ret or (q, b) in machines_cover:
                continue
            blk = g.blocks[b]
            eff = [e for e in blk.events if (e['ev'] == 'call' and e.get('callee') not in LOOKUPS) or
                   (e['ev'] == 'store' and not (isinstance(strip(e['lhs']), dict) and strip(e['lhs']).get('k') == 'var'
                                                and strip(e['lhs']).get('vk') in ('local', 'param')))]
            if eff and not blk.noreturn:
                out.append((f, eff[0]))
    return out


# --------------------------------------------------------------------------
# the signal world
# --------------------------------------------------------------------------

ORDER = {'NONE': 0, 'SOME': 1, 'ALL': 2}


class SigMachine(Machine):
    """Machine + the OS / library primitives the signal code uses."""

    def __init__(self, prog, unit, pid=4242, blocked='NONE'):
        Machine.__init__(self, prog, unit, prims=None)
        self.pid = pid
        self.blocked = blocked
        self.held = set()
        self.tinfo = 0
        self.disposition = {}
        self.sigaction_ret = 0
        P = self.prims
        P['getpid'] = lambda m, a, e: m.pid
        P['getppid'] = lambda m, a, e: m.pid - 1
        for n in ('iv_tls_user_ptr', '__iv_tls_user_ptr'):
            P[n] = lambda m, a, e: m.tinfo
        P['spin_lock'] = P['fallback_spin_lock'] = lambda m, a, e: m.p_lock(a[0])
        P['spin_unlock'] = P['fallback_spin_unlock'] = lambda m, a, e: m.p_unlock(a[0])
        P['spin_init'] = P['fallback_spin_init'] = lambda m, a, e: m.p_lock_init(a[0])
        P['spin_lock_sigmask'] = lambda m, a, e: m.p_lock_sigmask(a[0], a[1])
        P['spin_unlock_sigmask'] = lambda m, a, e: m.p_unlock_sigmask(a[0], a[1])
        for n in ('pthr_sigmask', 'pthread_sigmask', 'sigprocmask'):
            P[n] = lambda m, a, e: m.p_sigmask(a[0], a[1], a[2])
        P['sigfillset'] = lambda m, a, e: m.p_sigset(a[0], 'ALL')
        P['sigemptyset'] = lambda m, a, e: m.p_sigset(a[0], 'NONE')
        P['sigaddset'] = P['sigdelset'] = lambda m, a, e: m.p_sigset(a[0], 'SOME')
        P['sigaction'] = lambda m, a, e: m.p_sigaction(a[0], a[1], a[2])
        P['iv_avl_tree_insert'] = lambda m, a, e: m.p_tree_insert(a[0], a[1])
        P['iv_avl_tree_delete'] = lambda m, a, e: m.p_tree_delete(a[0], a[1])
        P['iv_avl_tree_next'] = lambda m, a, e: m.p_tree_step(a[0], +1)
        P['iv_avl_tree_prev'] = lambda m, a, e: m.p_tree_step(a[0], -1)
        P['iv_avl_tree_min'] = lambda m, a, e: m.p_tree_end(a[0], 0)
        P['iv_avl_tree_max'] = lambda m, a, e: m.p_tree_end(a[0], -1)
        P['iv_event_raw_post'] = lambda m, a, e: m.p_ev('post', a[0])
        P['iv_event_raw_register'] = lambda m, a, e: m.p_ev('ev-register', a[0]) and 0
        P['iv_event_raw_unregister'] = lambda m, a, e: m.p_ev('ev-unregister', a[0]) and None
        P['pthr_atfork'] = lambda m, a, e: (m.log('atfork', args=a), 0)[1]
        P['iv_tls_user_register'] = lambda m, a, e: (m.log('tls-register', args=a), None)[1]
        P['memset'] = lambda m, a, e: m.p_memset(a[0], a[1], a[2])
        for n in ('iv_fatal', 'abort', 'exit', '_exit', '__assert_fail'):
            P[n] = lambda m, a, e, n=n: m.p_fatal(n)
        for n in ('strerror', '__errno_location', 'fprintf', 'printf', 'syslog', 'perror'):
            P[n] = lambda m, a, e: UNK
        L = self.lay
        self.o_signum = L.offset('iv_signal', 'signum')
        self.o_flags = L.offset('iv_signal', 'flags')
        self.o_active = L.offset('iv_signal', 'active')
        self.o_cookie = L.offset('iv_signal', 'cookie')
        self.o_handler = L.offset('iv_signal', 'handler')
        self.o_an = L.offset('iv_signal', 'an')
        self.o_ev = L.offset('iv_signal', 'ev')
        self.o_evh = self.o_ev + L.offset('iv_event_raw', 'handler')
        self.o_evc = self.o_ev + L.offset('iv_event_raw', 'cookie')
        self.n_left, self.n_right, self.n_parent = (L.offset('iv_avl_node', x) for x in ('left', 'right', 'parent'))
        self.t_root = L.offset('iv_avl_tree', 'root')
        self.t_cmp = L.offset('iv_avl_tree', 'compare')

    def snap(self):
        return {'held': frozenset(self.held), 'blocked': self.blocked}

    # -- primitives -------------------------------------------------------------
    def need_ptr(self, p, what):
        if not is_ptr(p):
            raise Stuck('%s called with %r' % (what, p))
        return (p[1], p[2])

    def p_fatal(self, n):
        self.log('fatal', name=n)
        raise Fatal(n)

    def p_lock(self, p):
        a = self.need_ptr(p, 'spin_lock')
        self.log('lock', lock=a, again=a in self.held)
        self.held.add(a)

    def p_unlock(self, p):
        a = self.need_ptr(p, 'spin_unlock')
        self.log('unlock', lock=a, unheld=a not in self.held)
        self.held.discard(a)

    def p_lock_init(self, p):
        a = self.need_ptr(p, 'spin_init')
        self.log('lock-init', lock=a)
        self.held.discard(a)

    def p_sigset(self, p, v):
        o, off = self.need_ptr(p, 'sigset operation')
        self.clear(o, off, self.lay.size_of('', '__sigset_t') if '__sigset_t' in self.prog.records else 128, False)
        self.write(o, off, ('sigset', v), quiet=True)
        return 0

    def sigset_at(self, p, what):
        o, off = self.need_ptr(p, what)
        v = self.read(o, off)
        if not (isinstance(v, tuple) and v and v[0] == 'sigset'):
            raise Stuck('%s: signal set is %r' % (what, v))
        return v[1]

    def p_sigmask(self, how, sset, old):
        before = self.blocked
        if old != 0:
            o, off = self.need_ptr(old, 'sigmask')
            self.write(o, off, ('sigset', before), quiet=True)
        if sset != 0:
            v = self.sigset_at(sset, 'sigmask')
            if how == 0:
                self.blocked = v if ORDER[v] >= ORDER[before] else before
            elif how == 2:
                self.blocked = v
            elif how == 1:
                self.blocked = 'NONE' if v == 'ALL' else before
            else:
                raise Stuck('sigmask how=%r' % (how,))
        self.log('sigmask', how=how, before=before, after=self.blocked)
        return 0

    def p_lock_sigmask(self, lk, mask):
        o, off = self.need_ptr(mask, 'spin_lock_sigmask')
        self.write(o, off, ('sigset', self.blocked), quiet=True)
        self.blocked = 'ALL'
        self.p_lock(lk)

    def p_unlock_sigmask(self, lk, mask):
        self.p_unlock(lk)
        self.blocked = self.sigset_at(mask, 'spin_unlock_sigmask')
        self.log('sigmask', how=2, before='ALL', after=self.blocked)

    def p_sigaction(self, sig, act, old):
        h = m = fl = None
        if act != 0:
            o, off = self.need_ptr(act, 'sigaction')
            h = self.read(o, off + self.lay.offset('sigaction', '__sigaction_handler' if self.lay.has('sigaction', '__sigaction_handler') else 'sa_handler'))
            m = self.read(o, off + self.lay.offset('sigaction', 'sa_mask'))
            fl = self.read(o, off + self.lay.offset('sigaction', 'sa_flags'))
            m = m[1] if isinstance(m, tuple) and m and m[0] == 'sigset' else m
            self.disposition[sig] = h
        self.log('sigaction', sig=sig, handler=h, mask=m, flags=fl)
        return self.sigaction_ret

    def p_memset(self, p, c, n):
        o, off = self.need_ptr(p, 'memset')
        if c != 0 or not isinstance(n, int):
            raise Stuck('memset(%r, %r)' % (c, n))
        self.clear(o, off, n, True)
        if not self.objs[o]['local']:
            self.log('store', oid=o, off=off, val=0)
        return p

    def p_ev(self, what, p):
        o, off = self.need_ptr(p, what)
        d = {'obj': o, 'misaligned': off != self.o_ev}
        if not d['misaligned']:
            d.update(active=self.read(o, self.o_active), signum=self.read(o, self.o_signum), flags=self.read(o, self.o_flags),
                     evh=self.read(o, self.o_evh), evc=self.read(o, self.o_evc))
        self.log(what, **d)
        return True

    # -- model trees ---------------------------------------------------------------
    def interest(self, signum, flags, active=0, base=None, name=None):
        o = self.alloc(self.lay.record('iv_signal')['size'], name or 'interest', base=base)
        for off, v in ((self.o_signum, signum), (self.o_flags, flags), (self.o_active, active),
                       (self.o_cookie, ('cookie', o)), (self.o_handler, ('user', o))):
            self.write(o, off, v, quiet=True)
        return o

    def link(self, tree, order, shape=None):
        """make the tree object at address `tree` a BST (of the given shape, default balanced) holding `order`"""

        def build(lo, hi, sh, parent):
            if lo >= hi:
                return 0
            if sh is None:
                mid = (lo + hi) // 2
                ls = rs = None
            else:
                ls, rs = sh
                mid = lo + size(ls)
            o = order[mid]
            me = ('p', o, self.o_an)
            self.write(o, self.o_an + self.n_parent, parent, quiet=True)
            self.write(o, self.o_an + self.n_left, build(lo, mid, ls, me), quiet=True)
            self.write(o, self.o_an + self.n_right, build(mid + 1, hi, rs, me), quiet=True)
            return me
        root = build(0, len(order), shape, 0)
        self.write(tree[0], tree[1] + self.t_root, root, quiet=True)

    def node_of(self, p, what):
        o, off = self.need_ptr(p, what)
        if off != self.o_an:
            raise Stuck('%s: %r is not the tree node of an interest' % (what, p))
        return o

    def inorder(self, tree):
        """interest objects of the tree object at `tree`, by its links in the model memory"""
        out = []

        def rec(p, depth):
            if p == 0 or p is None:
                return
            if not is_ptr(p) or p[2] != self.o_an or depth > 64 or p[1] in out:
                raise Stuck('interest tree is corrupt in the model (%r)' % (p,))
            rec(self.mem.get((p[1], self.o_an + self.n_left), 0), depth + 1)
            out.append(p[1])
            rec(self.mem.get((p[1], self.o_an + self.n_right), 0), depth + 1)
        r = self.mem.get((tree[0], tree[1] + self.t_root))
        if r is None:
            r = 0 if self.objs[tree[0]]['zero'] else UNK
        if r == UNK:
            raise Stuck('root of an interest tree is not initialised in the model')
        rec(r, 0)
        return out

    def p_tree_insert(self, t, an):
        tree = self.need_ptr(t, 'iv_avl_tree_insert')
        o = self.node_of(an, 'iv_avl_tree_insert')
        cur = self.inorder(tree)
        self.log('insert', tree=tree, obj=o, again=o in cur)
        if o not in cur:
            cur.append(o)
            cur.sort(key=self.refkey)
        self.link(tree, cur)
        return 0

    def p_tree_delete(self, t, an):
        tree = self.need_ptr(t, 'iv_avl_tree_delete')
        o = self.node_of(an, 'iv_avl_tree_delete')
        cur = self.inorder(tree)
        self.log('delete', tree=tree, obj=o, absent=o not in cur)
        if o in cur:
            cur.remove(o)
        self.link(tree, cur)

    def p_tree_step(self, an, d):
        if an == 0:
            raise Stuck('iv_avl_tree_next(NULL)')
        o = self.node_of(an, 'iv_avl_tree_next')
        down, up = (self.n_right, self.n_left) if d > 0 else (self.n_left, self.n_right)
        get = lambda x, f: self.mem.get((x, self.o_an + f), 0)
        c = get(o, down)
        if is_ptr(c):
            n = 0
            while is_ptr(get(c[1], up)):
                c = get(c[1], up)
                n += 1
                if n > 64:
                    raise Stuck('interest tree is corrupt in the model')
            return c
        n = 0
        while True:
            p = get(o, self.n_parent)
            if not is_ptr(p):
                return 0
            if get(p[1], down) != ('p', o, self.o_an):
                return p
            o = p[1]
            n += 1
            if n > 64:
                raise Stuck('interest tree is corrupt in the model')

    def p_tree_end(self, t, i):
        tree = self.need_ptr(t, 'iv_avl_tree_min')
        cur = self.inorder(tree)
        return ('p', cur[i], self.o_an) if cur else 0

    def refkey(self, o):
        """the documented order: signal number, exclusive first, address"""
        return (self.mem[(o, self.o_signum)], 0 if self.mem[(o, self.o_flags)] & 1 else 1, self.objs[o]['base'])

    def tree_root_is_null(self, tree):
        return self.read(tree[0], tree[1] + self.t_root) == 0


def size(shape):
    return 0 if shape is None or shape == () else 1 + size(shape[0]) + size(shape[1])


def shapes(n):
    """all binary tree shapes with n nodes: () | (left, right)"""
    if n == 0:
        return [()]
    out = []
    for k in range(n):
        for l in shapes(k):
            for r in shapes(n - 1 - k):
                out.append((l, r))
    return out


def dispatch_spec(order, key, signum):
    """Reference fan-out: interests (in tree order) that a delivery of `signum` wakes:
    all of that signal from the first one on, up to and including the first exclusive one."""
    out = []
    for o in order:
        s, fl = key(o)
        if s != signum:
            if out:
                break
            continue
        out.append(o)
        if fl & 1:
            break
    return out


# --------------------------------------------------------------------------
# static helpers
# --------------------------------------------------------------------------

def unit_globals(prog, unit):
    return [g for k, g in sorted(prog.globals.items()) if g.get('unit') == unit and not g.get('extern_decl')]


def typed_slot(prog, unit, pred, what):
    """(global description, offset, slot) of the unique file-scope slot of `unit` satisfying pred(slot)"""
    lay = Layout(prog)
    hits = []
    for g in unit_globals(prog, unit):
        if 'bound' in g and not g.get('record'):
            sl = [(0, g.get('type', ''), None, False, 'array', None)]
        else:
            sl = lay.slots(g.get('type', ''), g.get('record'), g.get('ptr', False))
        for s in sl:
            if pred(s):
                hits.append((g, s[0], s))
    if len(hits) != 1:
        raise AnalysisBroken('%s: %d candidates among the file-scope objects of %s (%s)'
                             % (what, len(hits), unit, ', '.join(h[0]['name'] for h in hits)))
    return hits[0]


def plain_type(t):
    t = t or ''
    for q in ('const ', 'volatile ', 'static '):
        t = t.replace(q, '')
    return t.strip()


def defs_of(fn, name):
    """right-hand sides of all stores to the local `name` in fn"""
    out = []
    for e in fn.events():
        if e['ev'] == 'store':
            l = strip(e['lhs'])
            if isinstance(l, dict) and l.get('k') == 'var' and l['name'] == name:
                out.append(e.get('rhs') if e.get('op') == '=' else None)
        elif e['ev'] == 'decl' and e.get('name') == name and 'init' in e:
            out.append(e['init'])
    return out


def is_call_to(x, names):
    x = strip(x)
    return isinstance(x, dict) and x.get('k') == 'call' and x.get('callee') in names


def value_is_call(fn, x, names, depth=0):
    """x is a call of one of `names`, or a local all of whose definitions are"""
    x = strip(x)
    if is_call_to(x, names):
        return True
    if isinstance(x, dict) and x.get('k') == 'assign' and x.get('op') == '=':
        return value_is_call(fn, x['r'], names, depth)
    if isinstance(x, dict) and x.get('k') == 'var' and x.get('vk') in ('local', 'param') and depth < 3:
        ds = defs_of(fn, x['name'])
        return bool(ds) and all(d is not None and value_is_call(fn, d, names, depth + 1) for d in ds)
    return False


def global_root(x):
    """name of the file-scope variable an lvalue/value expression is (part of), or None"""
    x = strip(x)
    while isinstance(x, dict):
        k = x.get('k')
        if k == 'var':
            return x['name'] if x.get('vk') in ('global', 'staticlocal') else None
        if k == 'member' and not x['arrow']:
            x = strip(x['base'])
        elif k == 'index' and 'bound' in x:
            x = strip_load(x['base'])
        else:
            return None
    return None


def store_root(fn, lhs, depth=0):
    """file-scope variable a store goes to, also through a local pointer all of whose definitions are addresses of
    (parts of) one file-scope variable (`int *cnt = &counts[sig]; (*cnt)++`)"""
    r = global_root(lhs)
    if r is not None or depth > 2:
        return r
    x = strip(lhs)
    while isinstance(x, dict) and x.get('k') in ('member', 'index') and not x.get('arrow'):
        x = strip(x['base'])
    p = None
    if isinstance(x, dict) and x.get('k') == 'deref':
        p = strip(x['e'])
    elif isinstance(x, dict) and x.get('k') == 'member' and x.get('arrow'):
        p = strip(x['base'])
    elif isinstance(x, dict) and x.get('k') == 'index':
        p = strip(x['base'])
    if isinstance(p, dict) and p.get('k') == 'var' and p.get('vk') in ('local', 'param'):
        roots = set()
        for d in defs_of(fn, p['name']):
            d = strip(d) if d is not None else None
            if isinstance(d, dict) and d.get('k') == 'addr':
                roots.add(store_root(fn, d['e'], depth + 1))
            elif isinstance(d, dict) and d.get('k') in ('var', 'member', 'index'):
                roots.add(store_root(fn, d, depth + 1))       # array decays to a pointer
            else:
                roots.add(None)
        if len(roots) == 1:
            return list(roots)[0]
    return None


def target_member(fn, lhs):
    """(record, field) a store writes: the last member step of the lvalue, also through a local pointer all of whose
    definitions are the address of one member (`uint8_t *flag = &this->active; *flag = 0`)"""
    lm = last_member(lhs)
    if lm is not None:
        return lm
    x = strip(lhs)
    if isinstance(x, dict) and x.get('k') == 'deref':
        p = strip(x['e'])
        if isinstance(p, dict) and p.get('k') == 'var' and p.get('vk') in ('local', 'param'):
            ms = set()
            for d in defs_of(fn, p['name']):
                d = strip(d) if d is not None else None
                ms.add(last_member(d['e']) if isinstance(d, dict) and d.get('k') == 'addr' else None)
            if len(ms) == 1:
                return list(ms)[0]
    return None
