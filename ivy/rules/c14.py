"""C14 — cross-thread entry points have no unsynchronised conflicting accesses.

Static lockset + confinement analysis: schedule-independent by construction.

Every rule is evaluated in calling contexts (entry points with their helpers inlined) and speaks about
*state* (records/fields, file-scope variables), *exported functions* and *roles* (installed signal handler,
atfork handlers, thread bodies, handler installed into a particular object, tls init hooks, constructors,
poll-method slots, the child side of a fork()).  No rule names a static function: see h14.py.
"""
from ..core import (AnalysisBroken, Inliner, canon, strip, strip_load, last_member, forward, lvalue_steps, lvalue_root,
                    is_null)
from ..analyses import (held, SIGBLOCK, callback_kind, describe)
from . import h14 as h

EVL = 'iv_state.event_list_mutex'
POOL = 'work_pool_priv.lock'
SIG = 'sig_lock'
WAIT = 'iv_wait_lock'
AFD = 'iv_fd_epoll_active_fd_mutex'

# location -> lock that must be held at every access
SHARED = {
    ('iv_state', 'events_pending'): EVL,
    ('iv_event', 'list'): EVL,
    ('work_pool_priv', 'shutting_down'): POOL, ('work_pool_priv', 'started_threads'): POOL,
    ('work_pool_priv', 'idle_threads'): POOL, ('work_pool_priv', 'seq_head'): POOL, ('work_pool_priv', 'seq_tail'): POOL,
    ('work_pool_priv', 'work_items'): POOL, ('work_pool_priv', 'work_done'): POOL,
    ('work_pool_thread', 'list'): POOL, ('work_pool_thread', 'kicked'): POOL,
    ('global', 'process_sigs'): SIG, ('global', 'total_num_interests'): SIG, ('global', 'sig_owner_pid'): SIG,
    ('iv_signal', 'an'): SIGBLOCK, ('iv_signal', 'active'): SIGBLOCK,
    ('iv_signal_thr_info', 'thr_sigs'): SIGBLOCK,
    ('global', 'iv_wait_interests'): WAIT,
    ('iv_wait_interest', 'avl_node'): WAIT, ('iv_wait_interest', 'events_pending'): WAIT, ('iv_wait_interest', 'flags'): WAIT,
    ('global', 'iv_active_fd_refcount'): AFD,
}
# immutable after creation / thread-confined fields of the shared record types: classified so that a
# new field of these records is reported until someone classifies it
CLASSIFIED_UNSHARED = {
    'work_pool_priv': {'lock': 'the lock itself', 'ev': 'iv_event: own synchronisation', 'thread_needed': 'iv_event: own synchronisation',
                       'max_threads': 'written once before publication', 'cookie': 'written once before publication',
                       'thread_start': 'written once before publication', 'thread_stop': 'written once before publication',
                       'tid': 'written once before publication'},
    'work_pool_thread': {'pool': 'written once before the thread starts', 'kick': 'iv_event: own synchronisation',
                         'idle_timer': 'touched only by the worker thread itself'},
}

# file-scope one-way flags: name -> (value kind, why).  What makes a flag one-way is checked, not who writes it.
ONE_WAY = {
    'epoll_support': ('int', 'feature detection: demoted on ENOSYS'),
    'epoll_pwait2_support': ('int', 'feature detection'),
    'eventfd_in_use': ('int', 'feature detection'),
    'pipe2_support': ('int', 'feature detection'),
    'splice_available': ('int', 'feature probe'),
    'clock_source': ('int', 'feature detection'),
    'iv_event_use_event_raw': ('int', 'transport selection, one-way 0 -> 1'),
    'method': ('table', 'selected during the first iv_init; later only compatible fallbacks (C15)'),
    'inited': ('int', 'one-way 0 -> 1'),
    'iv_state_key_allocated': ('int', 'first iv_init is documented to complete before other threads call it'),
}
GLOBAL_OTHER = {   # globals that are neither lock-protected nor one-way flags, with the reason they are safe / out of scope
    'fatal_msg_handler': 'set-up call, documented as not thread-safe configuration',
    'iv_thread_debug': 'debug switch (configuration call)',
    'last_offset': 'written only by constructors before iv_init (iv_tls_user_register is fatal afterwards)',
    'sig_mask_fork': 'written in the atfork prepare handler, which holds sig_lock until parent/child',
    'iv_active_fd': 'written under the active-fd mutex on the 0->1 edge; read while a reference is held',
    'iv_tls_users': 'constructors only',
    'iv_state_key': 'key object, written by pthread_key_create in first iv_init',
    'iv_thread_key': 'key object, written under pthread_once',
    'iv_thread_key_allocated': 'pthread_once control',
    'iv_wait_lock': 'the lock itself', 'sig_lock': 'the lock itself', 'iv_fd_epoll_active_fd_mutex': 'the lock itself',
}

SIGNAL_SAFE_EXTERNAL = {'getpid', 'write', 'read', 'pthread_getspecific', 'pthread_spin_lock', 'pthread_spin_unlock',
                        'pthread_spin_trylock', '__errno_location', 'pthread_sigmask', 'sigprocmask'}
FOREIGN_ALLOWED = {'event_list_mutex': 'the owner\'s list lock', 'events_pending': 'accessed under that lock',
                   'events_kick': 'read of the kick descriptor', 'u': 'read of the epoll descriptor'}

# calls that only read / only (re)initialise the object whose address they are given
READ_CALLS = {'iv_list_empty', 'iv_avl_tree_empty', 'iv_avl_tree_min', 'iv_avl_tree_max', 'iv_avl_tree_next', 'iv_avl_tree_prev'}
INIT_CALLS = {'INIT_IV_LIST_HEAD'}
ANY = frozenset(['read', 'overwrite', 'rmw'])


def roots_of(prog):
    called = set()
    for f in prog.all_funcs():
        u = prog.unit_of(f)
        for e in f.events():
            if e['ev'] == 'call' and 'callee' in e:
                g = prog.resolve(u, e['callee']) if u else prog.funcs.get(e['callee'])
                if g:
                    called.add(g.q)
    return [f for f in sorted(prog.all_funcs(), key=lambda f: f.q) if f.q not in called and f.file.endswith('.c')]


def shared_accesses(e):
    """[(location key)] shared locations touched by the event itself.  A node that copy propagation put in the
    place of a read of a caching local (`_was`) is a read of that local, not of memory: the memory was read
    where the local was assigned, and that load is an event of its own."""
    exprs = []
    if e['ev'] == 'load':
        exprs.append(e['e'])
    elif e['ev'] == 'store':
        exprs.append(e['lhs'])
    elif e['ev'] == 'call':
        for a in e.get('args', []):
            a2 = strip(a)
            if isinstance(a2, dict) and a2.get('k') == 'addr':
                exprs.append(a2['e'])
    out = set()
    for x in exprs:
        y = x
        # walk the access path itself
        while isinstance(y, dict):
            if y.get('_was'):
                break
            k = y.get('k')
            if k == 'member':
                key = (y.get('record'), y['field'])
                if key in SHARED:
                    out.add(key)
                if y['arrow']:
                    break
                y = y['base']
            elif k == 'index':
                y = strip_load(y['base'])
            elif k == 'var':
                if y.get('vk') in ('global', 'staticlocal') and ('global', y['name']) in SHARED:
                    out.add(('global', y['name']))
                break
            elif k in ('cast', 'addr', 'load'):
                y = y['e']
            else:
                break
    return out


def access_kind(e):
    """read / overwrite (the old value is not used) / rmw (everything else, incl. list and tree mutation)."""
    if e['ev'] == 'load':
        return 'read'
    if e['ev'] == 'store':
        return 'overwrite' if e.get('op') == '=' else 'rmw'
    if e.get('callee') in READ_CALLS:
        return 'read'
    if e.get('callee') in INIT_CALLS:
        return 'overwrite'
    return 'rmw'


def _addr_member_arg(e, key, callees=None, argi=None):
    """call event passing the address of a `key` member (record, field)"""
    if e['ev'] != 'call' or (callees is not None and e.get('callee') not in callees):
        return False
    args = e.get('args', [])
    for i, a in enumerate(args):
        if argi is not None and i != argi:
            continue
        a2 = strip(a)
        if isinstance(a2, dict) and a2.get('k') == 'addr' and last_member(a2['e']) == key:
            return True
    return False


def _publishes_pool(e):
    return e['ev'] == 'store' and last_member(e['lhs']) == ('iv_work_pool', 'priv') and 'rhs' in e and not is_null(e['rhs'])


def _publishes_interest(e):
    return _addr_member_arg(e, ('iv_wait_interest', 'avl_node'), ('iv_avl_tree_insert',))


def _links_thread(e):
    return _addr_member_arg(e, ('work_pool_thread', 'list'), ('iv_list_add', 'iv_list_add_tail'), 0)


def exemptions(prog):
    """Unlocked accesses that are nevertheless race-free, each with the role of the code that may make them
    (`within`: the innermost stable frame of the access; `root`: the entry point), the kind of access, an optional
    condition on the path (`unless_after`: must not follow that event; `after_release`: every path released that lock before)
    and the reason.  Roles are resolved against the program: API names, or what the function is used for."""
    def A(*names):
        return {f.q for f in h.api(prog, *names)}

    def R(fs, what):
        fs = [f for f in fs if f is not None]
        if not fs:
            raise AnalysisBroken('no function in the role "%s"' % what)
        return {f.q for f in fs}
    return [
        dict(within=A('iv_event_register'), loc=('iv_event', 'list'), kinds={'overwrite'},
             why='initialisation before the event is published (no poster can hold it yet)'),
        dict(within=A('iv_event_unregister'), loc=('iv_event', 'list'), kinds={'read'},
             why='emptiness read: posters must be quiescent when an event is unregistered (documented); owner-side mutation happens in this thread'),
        dict(within=A('iv_event_init'), loc=('iv_state', 'events_pending'), kinds={'overwrite'}, why='state block not yet published'),
        dict(within=A('iv_work_pool_create'), loc='work_pool_priv.*', kinds={'overwrite'}, unless_after=('pool published', _publishes_pool),
             why='pool not yet published (this->priv is stored last)'),
        dict(within=R(h.thread_bodies(prog), 'thread body'), loc='work_pool_thread.*', kinds={'overwrite'},
             unless_after=('thread record linked', _links_thread),
             why='thread record reachable by others only through the idle list, linked later under the lock'),
        dict(within=R(h.installed_at(prog, [('iv_event', 'handler'), ('work_pool_priv', 'ev')]), 'handler of the pool\'s completion event'),
             loc=('work_pool_priv', 'shutting_down'), kinds={'read'}, owner_only=A('iv_work_pool_create', 'iv_work_pool_put'),
             why='written only by the owner thread; this is the owner thread reading it'),
        dict(within=A('iv_wait_interest_register', 'iv_wait_interest_register_spawn'), loc='iv_wait_interest.*', kinds={'overwrite'},
             unless_after=('interest inserted into the tree', _publishes_interest),
             why='initialisation before the tree insertion publishes the interest'),
        dict(within=A('iv_wait_interest_unregister', 'iv_wait_interest_register_spawn'), loc=('iv_wait_interest', 'events_pending'), kinds=ANY,
             after_release=WAIT,
             why='after removal from the tree under the lock the reaper cannot reach the interest'),
        dict(within=R([x[0] for x in h.signal_installs(prog)], 'process signal handler'), loc=('global', 'sig_owner_pid'), kinds={'read'},
             why='stored before the first handler can be installed; later stores only after fork in the child'),
        dict(root=R(h.constructors(prog), 'constructor'), loc='*', kinds=ANY, why='constructor: runs before any thread exists'),
        dict(within=R(h.initialiser_hooks(prog, 'iv_tls_user', 'init_thread'), 'tls init_thread hook'),
             loc=('iv_signal_thr_info', 'thr_sigs'), kinds={'overwrite'},
             why='per-thread area initialised before the thread can register interests'),
        dict(fork_child=True, loc='*', kinds=ANY, why='post-fork child is single-threaded'),
    ]


def _loc_matches(loc, key):
    return loc == '*' or loc == key or (isinstance(loc, str) and loc.endswith('.*') and key[0] == loc[:-2])


class Context:
    """One entry point with everything it calls inlined, its locksets and lazily computed path predicates."""

    def __init__(self, prog, root):
        self.root = root
        self.g = Inliner(prog, expand_methods=True).inline(root)
        self.entry = frozenset()
        self.eff = h.lock_effect_in(self.g)      # lock_effect with lock pointers held in locals resolved
        self._ls = None
        self._memo = {}
        self._child = None

    @property
    def ls(self):
        if self._ls is None:
            self._ls = h.locksets_in(self.g, entry=self.entry, eff=self.eff)
        return self._ls

    def child(self, b, i):
        if self._child is None:
            self._child = h.fork_child(self.g) if h.has_fork(self.g) else {}
        return bool(self._child.get((b, i)))

    def may_follow(self, name, pred, b, i):
        k = ('may', name)
        if k not in self._memo:
            self._memo[k] = h.may_follow(self.g, pred)
        return bool(self._memo[k].get((b, i)))

    def must_follow(self, name, pred, b, i):
        k = ('must', name)
        if k not in self._memo:
            self._memo[k] = h.must_follow(self.g, pred)
        return bool(self._memo[k].get((b, i)))

    def points(self):
        for b, blk in self.g.blocks.items():
            for i, e in enumerate(blk.events):
                S = self.ls.get((b, i))
                if S is not None:
                    yield b, i, e, held(S)


def signal_mask_full(prog, graphs, store):
    """The sigaction object that `store` puts a handler into has its sa_mask filled (all signals blocked while the
    handler runs) on every path to the sigaction() call that installs it, in every entry point that contains the store."""
    res = [_mask_full_in(g, store) for g in graphs]
    res = [r for r in res if r is not None]
    return bool(res) and all(res)


def _mask_full_in(g, store):
    ok_all = True
    found = False
    for e in g.events():
        if not (e['ev'] == 'store' and e.get('loc') == store.get('loc') and last_member(e['lhs']) == last_member(store['lhs'])):
            continue
        rt = lvalue_root(e['lhs'])
        found = True
        if rt is None:
            return False
        name = rt['name']

        def fills(x, name=name):
            if x['ev'] != 'call' or x.get('callee') != 'sigfillset' or not x.get('args'):
                return False
            a = strip(x['args'][0])
            if not (isinstance(a, dict) and a.get('k') == 'addr'):
                return False
            r2 = lvalue_root(a['e'])
            lm = last_member(a['e'])
            return r2 is not None and r2['name'] == name and lm is not None and lm[1] == 'sa_mask'
        if not any(fills(x) for x in g.events()):
            return False
        mf = h.must_follow(g, fills)
        for x in g.events():
            if x['ev'] == 'call' and x.get('callee') == 'sigaction' and len(x.get('args', [])) >= 2:
                a = strip(x['args'][1])
                if isinstance(a, dict) and a.get('k') == 'addr':
                    r2 = lvalue_root(a['e'])
                    if r2 is not None and r2['name'] == name and not mf.get((x['_b'], x['_i'])):
                        ok_all = False
    return (found and ok_all) if found else None


def entry_locksets(prog, graphs):
    """What an entry point may assume to hold when it is entered, derived from how it is installed:
       * a process signal handler installed with a full sa_mask runs with all signals blocked;
       * the atfork parent/child handlers run with what the prepare handler leaves held."""
    entry = {}
    masks = {}
    for (hf, inst, e) in h.signal_installs(prog):
        ok = signal_mask_full(prog, graphs, e)
        masks[hf.q] = masks.get(hf.q, True) and ok
    for q, ok in masks.items():
        entry[q] = frozenset([SIGBLOCK]) if ok else frozenset()
    for (prep, parent, child) in h.atfork_triples(prog):
        if prep is None:
            continue
        H = h.exit_lockset(Inliner(prog, expand_methods=True).inline(prep))
        for x in (parent, child):
            if x is not None:
                entry[x.q] = frozenset(entry.get(x.q, frozenset()) | H)
    return entry, masks


def contexts(prog):
    c = getattr(prog, '_c14_contexts', None)
    if c is None:
        c = [Context(prog, r) for r in h.entry_points(prog, roots_of(prog))]
        # roles (who is the signal handler, the atfork handlers, ...) are looked up in the inlined entry points too
        h.set_graphs(prog, [cx.g for cx in c])
        entry, masks = entry_locksets(prog, [cx.g for cx in c])
        for cx in c:
            cx.entry = entry.get(cx.root.q, frozenset())
        prog._c14_contexts = c
        prog._c14_masks = masks
    return c


def run(ctx):
    ctx.rule('R-C14a', 'lockset must-hold: every access to a shared location (table) is made with its lock in the '
                       'must-held lockset, in every calling context from every entry point (public API, handlers, thread bodies, '
                       'constructors); exemptions name a role, an access kind, a path condition and one reason', floor=65)
    ctx.rule('R-C14a.tbl', 'every field of the cross-thread record types is classified (lock-protected / immutable after '
                           'publication / own synchronisation); an unclassified new field is a report', floor=20)
    ctx.rule('R-C14b', 'foreign-state confinement: through an event\'s owner pointer a poster touches only the owner\'s list lock, '
                       'the pending list (locked) and the read-only kick descriptors', floor=3)
    ctx.rule('R-C14c', 'file-scope variables written outside lock regions are one-way flags: every store writes a constant and the '
                       'value transitions allowed by the guards form no cycle (method: addresses of method tables, first selection or '
                       'fallback by the running method); every other global is classified', floor=12)
    ctx.rule('R-C14d', 'signal context: everything the process signal handler can reach is async-signal-safe (no mutex, no allocation); '
                       'it is installed with all signals blocked', floor=5)
    ctx.rule('R-C14e', 'lock order: the held->acquired graph over all entry points is acyclic; no user callback under a lock '
                       'except the tabled thread_stop hook', floor=3)
    ctx.section(lockset_rule)
    ctx.section(classification)
    ctx.section(confinement)
    ctx.section(one_way)
    ctx.section(signal_context)
    ctx.section(active_fd)


def find_exemption(exs, cx, anchor, key, kind, b, i):
    """(exemption, None) or (None, why the nearest candidate does not apply)"""
    miss = None
    for x in exs:
        if not _loc_matches(x['loc'], key):
            continue
        if x.get('fork_child'):
            if not cx.child(b, i):
                continue
        elif 'root' in x:
            if cx.root.q not in x['root']:
                continue
        elif anchor not in x['within']:
            continue
        if kind not in x['kinds']:
            miss = 'a %s access is not covered by the exemption "%s"' % (kind, x['why'])
            continue
        if x.get('unless_after') and cx.may_follow(x['unless_after'][0], x['unless_after'][1], b, i):
            miss = 'the access may follow the point "%s": exemption "%s" does not apply' % (x['unless_after'][0], x['why'])
            continue
        if x.get('after_release'):
            lk = x['after_release']
            if not cx.must_follow('release of ' + lk, lambda e, lk=lk, cx=cx: ('unlock', lk) in cx.eff(e), b, i):
                miss = 'not every path to the access released %s before: exemption "%s" does not apply' % (lk, x['why'])
                continue
        return x, None
    return None, miss


def lockset_rule(ctx):
    prog = ctx.prog
    cxs = contexts(prog)
    exs = exemptions(prog)
    results = {}   # (anchor frame, key) -> list of (ok, event, root, exemption, miss)
    order_edges = {}
    user_under_lock = []
    writers = {}   # key -> set of anchor frames that write it (for owner-only exemptions)
    for cx in cxs:
        r = cx.root
        for b, i, e, H in cx.points():
            for (op, lid) in cx.eff(e):
                if op == 'lock' and lid != SIGBLOCK:
                    for hl in H:
                        if hl != SIGBLOCK and hl != lid:
                            order_edges.setdefault((hl, lid), (e, r))
            if e['ev'] == 'call' and 'fnexpr' in e:
                ck = callback_kind(e)
                if ck and ck[0] in ('callback', 'hook', 'param') and (H - {SIGBLOCK}):
                    user_under_lock.append((e, r, H - {SIGBLOCK}, ck, cx.child(b, i)))
            keys = shared_accesses(e)
            if not keys:
                continue
            anchor = h.anchor_frame(prog, e, r)
            kind = access_kind(e)
            for key in keys:
                ok = SHARED[key] in H
                ex, miss = (None, None) if ok else find_exemption(exs, cx, anchor, key, kind, b, i)
                results.setdefault((anchor, key), []).append((ok, e, r, ex, miss))
                if kind != 'read':
                    writers.setdefault(key, {})[anchor] = e
    for (anchor, key), lst in sorted(results.items(), key=lambda kv: (kv[0][0], str(kv[0][1]))):
        bad = [(e, r, miss) for (ok, e, r, ex, miss) in lst if not ok and ex is None]
        used = [ex for (ok, e, r, ex, miss) in lst if not ok and ex is not None]
        e0, r0, miss0 = bad[0] if bad else (lst[0][1], lst[0][2], None)
        inst = '%s:%s.%s' % (h.short(anchor), key[0], key[1])
        for ex in used[:1]:
            ctx.exempt('R-C14a', inst, ex['why'])
        nsites = len({e.get('loc') for (_, e, _, _, _) in lst})
        ctx.ob('R-C14a', inst, not bad, loc=e0['loc'],
               detail=('%s accessed without %s when entered from %s: %s%s' % ('%s.%s' % key, SHARED[key], r0.name, describe(e0),
                                                                            ('; ' + miss0) if miss0 else '')) if bad else
                      ('%d access sites in %d contexts, %s held%s' % (nsites, len({r.q for _, _, r, _, _ in lst}), SHARED[key],
                                                                     (' (exempt: %s)' % used[0]['why']) if used else '')),
               fn=anchor)
    # an exemption that rests on "only the owner thread writes this" obliges the writers
    for x in exs:
        if x.get('owner_only'):
            key = x['loc']
            ws = writers.get(key, {})
            bad = sorted(a for a in ws if a not in x['owner_only'])
            e0 = ws[bad[0]] if bad else (sorted(ws.items())[0][1] if ws else None)
            ctx.ob('R-C14a', 'owner-thread-writes:%s.%s' % key, bool(ws) and not bad, loc=e0['loc'] if e0 else None,
                   detail='%s.%s is read without the lock by its owner thread, so only the owner-thread API may write it; written within: %s'
                          % (key[0], key[1], sorted(h.short(a) for a in ws)))
    # ---- lock order -------------------------------------------------------------
    cyc = h.find_cycle(set(order_edges))
    for (a, b), (e, r) in sorted(order_edges.items()):
        ctx.ob('R-C14e', 'order:%s->%s' % (a, b), not (cyc and a in cyc and b in cyc), loc=e['loc'],
               detail='%s acquired while %s is held (entry %s)%s' % (b, a, r.name, ('; part of cycle ' + ' -> '.join(cyc)) if cyc and a in cyc and b in cyc else ''))
    if not order_edges:
        raise AnalysisBroken('no nested lock acquisition found (wait lock -> event list mutex expected)')
    groups = {}
    for (e, r, H, ck, child) in user_under_lock:
        lm = last_member(e['fnexpr']) if 'fnexpr' in e else None
        inst = 'user-call-under-lock:%s' % ('%s.%s' % lm if lm else canon(e.get('fnexpr')))
        groups.setdefault(inst, []).append((e, r, H, lm, child))
    for inst, lst in sorted(groups.items()):
        e, r, H, lm, _ = lst[0]
        if all(child for (_, _, _, _, child) in lst):
            why = ('the caller-supplied function runs in the forked child only (single-threaded copy of the '
                   'process); the parent never runs user code under the lock')
            ctx.exempt('R-C14e', inst, why)
            ctx.ob('R-C14e', inst, True, loc=e['loc'], detail='exempt: ' + why)
        elif lm in (('work_pool_priv', 'thread_stop'),):
            why = ('thread_stop hook runs with the pool lock held (man page: hooks are "not explicitly serialised"); '
                   'no listed property forbids it; recorded as exemption N2')
            ctx.exempt('R-C14e', inst, why)
            ctx.ob('R-C14e', inst, True, loc=e['loc'], detail='exempt: ' + why)
        else:
            e, r, H = [(e, r, H) for (e, r, H, _, child) in lst if not child][0]
            ctx.ob('R-C14e', inst, False, loc=e['loc'], detail='user code entered with %s held (entry %s)' % (sorted(H), r.name))


def classification(ctx):
    prog = ctx.prog
    for rec, cls in sorted(CLASSIFIED_UNSHARED.items()):
        r = prog.records.get(rec)
        if not r or 'fields' not in r:
            raise AnalysisBroken('record %s not found' % rec)
        for f in r['fields']:
            ok = (rec, f['name']) in SHARED or f['name'] in cls
            ctx.ob('R-C14a.tbl', '%s.%s' % (rec, f['name']), ok, loc=r['loc'],
                   detail=('protected by %s' % SHARED[(rec, f['name'])]) if (rec, f['name']) in SHARED else cls.get(f['name'], 'UNCLASSIFIED field of a cross-thread record'))
    # immutable-after-publication fields: every store, in every calling context, is made before the object can be
    # seen by another thread -- the pool before iv_work_pool_create publishes it (this->priv), the thread record
    # before the thread that receives it is created
    create = {f.q for f in h.api(prog, 'iv_work_pool_create')}
    once = {}
    for rec, cls in CLASSIFIED_UNSHARED.items():
        for fld, why in cls.items():
            if 'written once' in why:
                once[(rec, fld)] = []

    def creates_thread(e):
        return e['ev'] in ('call', 'enter') and e.get('callee') in h.THREAD_CREATE

    def allocates(e):
        if e['ev'] != 'store' or 'rhs' not in e:
            return False
        v = strip(e['rhs'])
        return isinstance(v, dict) and v.get('k') == 'call' and v.get('callee') in ('malloc', 'calloc')
    for cx in contexts(prog):
        for b, i, e, H in cx.points():
            if e['ev'] != 'store':
                continue
            for st in lvalue_steps(e['lhs']):
                if st not in once:
                    continue
                if st[0] == 'work_pool_priv':
                    inside = h.anchor_frame(prog, e, cx.root) in create
                    late = cx.may_follow('pool published', _publishes_pool, b, i)
                    once[st].append((inside and not late, e, cx.root,
                                     'outside iv_work_pool_create' if not inside else 'after the pool was published' if late else ''))
                else:
                    obj = strip(e['lhs'])
                    while isinstance(obj, dict) and obj.get('k') == 'member' and not obj['arrow']:
                        obj = strip(obj['base'])
                    base = strip(obj['base']) if isinstance(obj, dict) and obj.get('k') == 'member' else None
                    bname = base['name'] if isinstance(base, dict) and base.get('k') == 'var' else None
                    k = ('fresh', bname)
                    if k not in cx._memo:
                        # status of the record `bname` points to -- 0: not allocated on the path, 1: allocated here and not
                        # yet handed to a new thread, 2: a thread was created since
                        def tr(x, s_, bname=bname):
                            if allocates(x) and strip(x['lhs']).get('k') == 'var' and strip(x['lhs'])['name'] == bname:
                                return frozenset([1])
                            if creates_thread(x):
                                return frozenset(2 if v == 1 else v for v in s_)
                            return s_
                        _, cx._memo[k] = forward(cx.g, frozenset([0]), tr, lambda a, b2: a | b2)
                    st_ = cx._memo[k].get((b, i)) or frozenset([0])
                    why = '' if st_ == frozenset([1]) else ('after the thread that receives the record was created' if 2 in st_ else
                                                            'not on a record allocated in this context (the running thread or another one can see it)')
                    once[st].append((not why, e, cx.root, why))
    for (rec, fld), lst in sorted(once.items()):
        bad = [(e, r, why) for (ok, e, r, why) in lst if not ok]
        ctx.ob('R-C14a.tbl', '%s.%s:written-once' % (rec, fld), bool(lst) and not bad,
               loc=(bad[0][0]['loc'] if bad else lst[0][1]['loc'] if lst else prog.records[rec]['loc']),
               detail=('store %s (entry %s): %s' % (describe(bad[0][0]), bad[0][1].name, bad[0][2])) if bad else
                      ('%d store sites, all before publication' % len({e.get('loc') for (_, e, _, _) in lst})) if lst else 'never written')


def confinement(ctx):
    prog = ctx.prog
    f = h.api(prog, 'iv_event_post')[0]
    g = Inliner(prog, expand_methods=True).inline(f)
    # variables holding the owner pointer
    owners = set()
    for e in g.events():
        if e['ev'] in ('store', 'decl'):
            rhs = e.get('rhs') if e['ev'] == 'store' else e.get('init')
            if rhs is not None and last_member(rhs) == ('iv_event', 'owner'):
                owners.add(canon(e['lhs']) if e['ev'] == 'store' else e['name'])
    if not owners and not any(e['ev'] == 'load' and last_member(e['e']) == ('iv_event', 'owner') for e in g.events()):
        raise AnalysisBroken('iv_event_post: owner pointer not found')
    # propagate copies (parameter temporaries)
    changed = True
    while changed:
        changed = False
        for e in g.events():
            if e['ev'] == 'store' and strip(e['lhs']).get('k') == 'var' and 'rhs' in e:
                r = strip(e['rhs'])
                if isinstance(r, dict) and r.get('k') == 'var' and r['name'] in owners and strip(e['lhs'])['name'] not in owners:
                    owners.add(strip(e['lhs'])['name'])
                    changed = True
    ls = h.locksets_in(g)
    fields = {}
    for b, blk in g.blocks.items():
        for i, e in enumerate(blk.events):
            exprs = []
            if e['ev'] == 'load':
                exprs.append(('r', e['e']))
            elif e['ev'] == 'store':
                exprs.append(('w', e['lhs']))
            elif e['ev'] == 'call':
                for a in e.get('args', []):
                    a2 = strip(a)
                    if isinstance(a2, dict) and a2.get('k') == 'addr':
                        exprs.append(('a', a2['e']))
            for (kind, x) in exprs:
                y = x
                chain = []
                while isinstance(y, dict) and y.get('k') in ('member', 'index', 'cast', 'load'):
                    if y.get('k') == 'member':
                        chain.append(y)
                        if y['arrow']:
                            break
                        y = y['base']
                    elif y.get('k') == 'index':
                        y = y['base']
                    else:
                        y = y['e']
                if not chain or not chain[-1]['arrow']:
                    continue
                top = chain[-1]
                b0 = strip(top['base'])
                if top.get('record') == 'iv_state' and isinstance(b0, dict) and (
                        (b0.get('k') == 'var' and b0['name'] in owners) or last_member(b0) == ('iv_event', 'owner')):
                    fields.setdefault(top['field'], []).append((kind, e, held(ls.get((b, i)))))
    if not fields:
        raise AnalysisBroken('iv_event_post: no access through the owner pointer found')
    for fld, lst in sorted(fields.items()):
        ok = fld in FOREIGN_ALLOWED
        if ok and fld == 'events_pending':
            ok = all(EVL in H for (_, _, H) in lst)
        if ok and fld in ('events_kick', 'u'):
            ok = all(k in ('r', 'a') and (k == 'r' or fld == 'events_kick') for (k, _, _) in lst)
        e0 = lst[0][1]
        ctx.ob('R-C14b', 'iv_event_post:owner->%s' % fld, ok, loc=e0['loc'],
               detail=FOREIGN_ALLOWED.get(fld, 'thread-confined field of another thread\'s loop state accessed by a poster: %s' % describe(e0)),
               fn=f.q)
    # who follows an event's owner pointer: only code that runs as part of iv_event_post (any thread) or
    # iv_event_unregister (owner thread only, documented), whatever helpers they are cut into
    allowed = {x.q for x in h.api(prog, 'iv_event_post', 'iv_event_unregister')}
    readers = {}
    for fn in prog.all_funcs():
        for e in fn.events():
            if e['ev'] == 'load' and last_member(e['e']) == ('iv_event', 'owner'):
                readers.setdefault(fn.q, fn)
    stray = sorted(q for q, fn in readers.items() if not h.only_within(prog, fn, allowed))
    ctx.ob('R-C14b', 'iv_event.owner:readers', bool(readers) and not stray, loc=f.loc,
           detail='functions that follow an event\'s owner pointer: %s; reachable other than through iv_event_post / iv_event_unregister: %s '
                  '(post: any thread; unregister: owner thread only, documented)' % (sorted(h.short(q) for q in readers), stray or 'none'))


def _table_value(v):
    """the stored value is (the address of) a poll-method table: judged by type, not by how it is spelled"""
    v = strip(v)
    if not isinstance(v, dict) or v.get('k') in ('null', 'int'):
        return False
    if v.get('k') == 'addr':
        return strip(v['e']).get('record') == 'iv_fd_poll_method'
    if v.get('k') == 'cond':
        return _table_value(v.get('a')) and _table_value(v.get('b'))
    return (v.get('record') == 'iv_fd_poll_method' and v.get('k') == 'var') or \
        ('iv_fd_poll_method' in (v.get('type') or '') and '*' in (v.get('type') or ''))


def one_way(ctx):
    prog = ctx.prog
    slot_fns = set()
    for t, slots in prog.method_tables().items():
        for s_, v in slots.items():
            if v and v[0] != 'str':
                fn = prog.resolve(v[0], v[1])
                if fn is not None:
                    slot_fns.add(fn.q)
    # lock context and guards of every global store, over all entry points
    ctxs = {}
    for cx in contexts(prog):
        r = cx.root
        if r.constructor:
            continue      # runs before main(), single-threaded
        guards = None
        for b, i, e, H in cx.points():
            if e['ev'] != 'store':
                continue
            rt = lvalue_root(e['lhs'])
            if rt is None or rt.get('vk') not in ('global', 'staticlocal'):
                continue
            G = frozenset()
            if rt['name'] in ONE_WAY:
                if guards is None:
                    guards = h.flag_guards(cx.g, set(ONE_WAY))
                G = frozenset(a for a in (guards.get((b, i)) or ()) if a[1] == rt['name'])
            ctxs.setdefault(rt['name'], []).append((e, H - {SIGBLOCK}, r, G, h.frames(e, r), h.anchor_frame(prog, e, r)))
    seen = set()
    for name, lst in sorted(ctxs.items()):
        if ('global', name) in SHARED:
            continue    # R-C14a
        if name in ONE_WAY:
            kind, why = ONE_WAY[name]
            by_site = {}
            for t in lst:
                by_site.setdefault((t[5], t[0].get('loc')), []).append(t)
            edges = {}
            domain = set()
            inits = [g.get('init') for k, g in prog.globals.items() if g.get('name') == name and not g.get('extern_decl')]
            for iv in inits or [None]:
                v = h._intval(iv) if iv is not None else 0
                domain.add(0 if v is None else v)
            for (anchor, loc), group in sorted(by_site.items(), key=str):
                e = group[0][0]
                inst = '%s:%s' % (name, h.short(anchor))
                if kind == 'int':
                    vals = [h._intval(t[0].get('rhs')) if t[0].get('op') == '=' and 'rhs' in t[0] and h._gvar(t[0]['lhs']) else None for t in group]
                    vok = all(v is not None for v in vals)
                    det = 'stores the constant %s' % vals[0] if vok else 'stored value is not a compile-time constant: %s' % describe(e)
                    for t, v in zip(group, vals):
                        if v is not None:
                            domain.add(v)
                            edges.setdefault(v, []).append(t[3])
                else:
                    first = all(('==', name, 0) in t[3] for t in group)
                    fallback = all(any(q in slot_fns for q in t[4]) for t in group)
                    vok = all(t[0].get('op') == '=' and 'rhs' in t[0] and _table_value(t[0]['rhs']) for t in group) and (first or fallback)
                    det = ('first selection (method == NULL holds)' if first else 'fallback made by the running poll method itself' if fallback
                           else 'neither guarded by method == NULL nor made by a poll-method slot function') + '; stored value %s' % (
                               canon(e.get('rhs')) if 'rhs' in e else e['op'])
                ctx.ob('R-C14c', inst, vok, loc=e['loc'], detail='%s; %s' % (why, det), fn=anchor)
            if kind == 'int':
                # value transitions: a store of c guarded by atoms G moves every value of the domain that satisfies G to c
                trans = set()
                for c, glist in edges.items():
                    for G in glist:
                        for d in domain:
                            if d != c and h.satisfies(d, G):
                                trans.add((d, c))
                cyc = h.find_cycle(trans)
                ctx.ob('R-C14c', '%s:one-way' % name, not cyc, loc=lst[0][0]['loc'],
                       detail=('transitions %s' % sorted(trans)) + ((': value can come back: ' + ' -> '.join(str(x) for x in cyc)) if cyc else ': no value is ever restored'))
        elif name in GLOBAL_OTHER:
            inst = '%s:classified' % name
            if inst not in seen:
                seen.add(inst)
                ctx.exempt('R-C14c', inst, GLOBAL_OTHER[name])
                ctx.ob('R-C14c', inst, True, loc=lst[0][0]['loc'], detail=GLOBAL_OTHER[name])
        else:
            unlocked = [(t[0], t[2]) for t in lst if not t[1]]
            inst = '%s:unclassified' % name
            if inst not in seen:
                seen.add(inst)
                e0 = (unlocked or [(lst[0][0], lst[0][2])])[0][0]
                ctx.ob('R-C14c', inst, not unlocked, loc=e0['loc'],
                       detail='file-scope variable written %s; not in the one-way flag table nor classified'
                              % ('without any lock held' if unlocked else 'only under locks'))
    for name in ONE_WAY:
        if name not in ctxs:
            raise AnalysisBroken('one-way flag %s is never stored' % name)


def signal_context(ctx):
    prog = ctx.prog
    installs = h.signal_installs(prog)
    if not installs:
        raise AnalysisBroken('no function is installed as a process signal handler (sa_handler)')
    contexts(prog)
    masks = prog._c14_masks
    handlers = {}
    for (hf, inst, e) in installs:
        handlers.setdefault(hf.q, (hf, e))
    ext = {}
    seen = {}
    for q, (hf, ie) in sorted(handlers.items()):
        ctx.ob('R-C14d', 'signal-handler:all-signals-blocked', masks.get(q, False), loc=ie['loc'],
               detail='the handler takes a spinlock and walks trees that only blocking signals protects: it must be installed with a '
                      'full sa_mask (sigfillset on the same sigaction object on every path to sigaction())')
        work = [(hf, [hf.name])]
        while work:
            f, path = work.pop()
            if f.q in seen:
                continue
            seen[f.q] = path
            u = prog.unit_of(f)
            for e in f.events():
                if e['ev'] != 'call':
                    continue
                if f.blocks[e['_b']].noreturn:
                    continue          # argument evaluation of / the fatal call itself: the process aborts
                if 'callee' in e:
                    g = prog.resolve(u, e['callee']) if u else prog.funcs.get(e['callee'])
                    if g is not None and g.blocks:
                        if g.noreturn or e.get('noreturn'):
                            continue      # fatal handler: aborts the process
                        work.append((g, path + [g.name]))
                    else:
                        if e.get('noreturn'):
                            continue
                        ext.setdefault(e['callee'], (e, path))
                else:
                    ext.setdefault('<indirect %s>' % canon(e['fnexpr']), (e, path))
    for name, (e, path) in sorted(ext.items()):
        ok = name in SIGNAL_SAFE_EXTERNAL
        ctx.ob('R-C14d', 'signal-handler-reaches:%s' % name, ok, loc=e['loc'],
               detail='via %s' % ' > '.join(path))
    bad = [q for q in seen if q.split(':')[-1].startswith('___mutex_') or q.split(':')[-1] in ('iv_event_post', 'malloc', 'free')]
    h0 = sorted(handlers.items())[0][1][0]
    ctx.ob('R-C14d', 'signal-handler:no-mutex', not bad, loc=h0.loc,
           detail='repo functions reachable: %d; mutex/allocating ones: %s' % (len(seen), bad or 'none'))


def _is_active_fd(v):
    return isinstance(v, dict) and v.get('k') == 'var' and v.get('name') == 'iv_active_fd' and v.get('vk') in ('global', 'staticlocal')


def active_fd(ctx):
    """iv_active_fd is written under the mutex and may be read without it only
    while the reader holds a reference: never after its own reference was dropped.
    Evaluated per entry point that touches the descriptor (the event_rx_on/off/send slot functions), helpers inlined."""
    prog = ctx.prog

    def touches(e):
        if e['ev'] == 'load':
            x = strip(e['e'])
            return _is_active_fd(x) and not e['e'].get('_was') and not x.get('_was')
        if e['ev'] == 'store':
            rt = lvalue_root(e['lhs'])
            return rt is not None and _is_active_fd(rt)
        return False

    def drops(e):
        if e['ev'] != 'store':
            return False
        rt = lvalue_root(e['lhs'])
        return rt is not None and rt.get('name') == 'iv_active_fd_refcount' and rt.get('vk') in ('global', 'staticlocal') \
            and e['op'] not in ('++', '+=')
    # candidate functions: reach an access through direct calls
    direct = {f.q for f in prog.all_funcs() if any(touches(e) for e in f.events())}
    if not direct:
        raise AnalysisBroken('accesses to iv_active_fd: none found')
    reach = {}
    for q in direct:
        for c in _callers_closure(prog, prog.funcs[q]):
            reach[c.q] = c
    eps = [r for r in h.entry_points(prog, roots_of(prog)) if r.q in reach]
    sites = {}
    for r in eps:
        g = Inliner(prog).inline(r)
        acc = [e for e in g.events() if touches(e)]
        if not acc:
            continue
        ls = h.locksets_in(g)
        after = h.may_follow(g, drops)
        for e in acc:
            H = held(ls.get((e['_b'], e['_i'])))
            if e['ev'] == 'store':
                ok = AFD in H
                det = 'written with the active-fd mutex held' if ok else 'written without the active-fd mutex'
            else:
                dropped = bool(after.get((e['_b'], e['_i'])))
                ok = (AFD in H) or not dropped
                det = ('read under the mutex' if AFD in H else 'read while this thread still holds its reference') if ok else \
                    'read without the mutex after this thread dropped its reference: another thread may be re-creating the descriptor'
            sites.setdefault((r.q, 'write' if e['ev'] == 'store' else 'read', e.get('loc')), []).append((ok, det, e))
    for (rq, kind, loc), lst in sorted(sites.items(), key=str):
        bad = [x for x in lst if not x[0]]
        ok, det, e = bad[0] if bad else lst[0]
        ctx.ob('R-C14a', '%s:iv_active_fd:%s' % (h.short(rq), kind), ok, loc=e['loc'], detail=det, fn=rq)
    if len({k[2] for k in sites}) < 4:
        raise AnalysisBroken('accesses to iv_active_fd: %d found' % len({k[2] for k in sites}))


def _callers_closure(prog, f):
    from ..roles import callers_closure
    return callers_closure(prog, f)
