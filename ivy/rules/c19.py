"""C19 — iv_popen: child wired to the descriptor, always terminated and reaped.

All rules of this module are *behavioural*: the public entry points
(iv_popen_request_submit / iv_popen_request_close) and whatever functions they
install as spawn function, exit notification and kill timer (found through the
values that reach iv_wait_interest_register_spawn / iv_timer_register, never by
name) are evaluated by the symbolic machine of h19.py on every life cycle of a
request (type r / w / invalid; malloc, pipe, spawn, open fail or succeed; close
before or after the child ended; the kill helper reports delivered or gone at
every step of the escalation; terminating and non-terminating wait statuses).
The obligations are statements about what happened in those runs (descriptor
table at exec, what is registered with the loop, what was freed, which signals
were sent), so they do not depend on statement order, helper functions, names of
locals, fields or static functions, branch shapes or index arithmetic.
"""
from ..core import AnalysisBroken
from . import h19
from .h19 import I, is_i, show, show_loc

SIGTERM, SIGKILL = 15, 9
TERMINATING = [('exited(0)', 0x0000), ('exited(3)', 0x0300), ('killed(SIGTERM)', 15), ('killed(SIGKILL)+core', 9 | 0x80)]
NON_TERMINATING = [('stopped(SIGSTOP)', (19 << 8) | 0x7f), ('continued', 0xffff)]
ALL_OK = {'malloc': 'ok', 'pipe': 'ok', 'spawn': 'ok', 'open': 'ok'}
MAX_FIRINGS = 48

REQ_OBJ = (('X', 'request'),)          # the caller's request object
REQUEST = ('addr', REQ_OBJ)
FILE_V, ARGV_V = ('sym', 'request-file'), ('sym', 'request-argv')


def run(ctx):
    ctx.rule('R-C19a', 'wiring table, evaluated: for type r the spawned child execs the request\'s program with the data pipe\'s write end on '
                       'stdout and the null device (read-write) on the other two streams (type w: read end on stdin), every inherited '
                       'descriptor closed; the parent returns the opposite end, closes the child\'s end, and the child\'s behaviour is '
                       'decided by what the parent stored', floor=12)
    ctx.rule('R-C19b', 'escalation, evaluated firing by firing from the state close leaves: exactly one signal per firing, through the kill '
                       'helper on the record\'s own interest; SIGTERM first, SIGKILL eventually and from then on; helper says delivered: '
                       'timer re-armed, nothing released; helper says gone: interest unregistered, record freed, nothing re-armed, no '
                       'further signal; the sequence does not depend on uninitialised memory', floor=5)
    ctx.rule('R-C19c', 'CONTAINER-FREE for the running-child record (never freed while a loop object inside it is registered, freed exactly '
                       'once in every life cycle) and release of everything (record, both pipe ends, registration) on every submit '
                       'failure outcome', floor=11)
    ctx.rule('R-C19d', 'close with a running child leaves the record detached from the request and the kill timer armed on it; close after '
                       'the child ended does nothing; the exit notification acts only on terminating statuses, clears the request\'s '
                       'child pointer while attached, cancels the timer when detached and never touches a closed request; every life '
                       'cycle ends with nothing registered', floor=25)
    ctx.rule('R-C19e', 'no signal after the child ended: the wait module recognises exited and signalled children as terminated (shared with C11)', floor=6)
    ctx.rule('R-C19f', 'no signal after the child ended, the gate, evaluated: the function of the wait module the popen kill timer signals through '
                       'is run on an interest whose flag word is clear or holds a value the reaper stores, the reaper being free to mark it '
                       'whenever the function acquires a lock while not holding the lock of the pid set: kill() is executed only with that '
                       'lock held and the flag in memory clear, with the interest\'s pid and the caller\'s signal (same demand as C11 R-C11c), '
                       'and a live child is signalled; and reaping a terminating status stores that flag for the interest the status is routed '
                       'to, so the gate is closed from the moment the pid is reaped, before the exit notification reaches the popen module', floor=8)
    ctx.rule('R-C19g', 'no signal after the child ended needs the end to be noticed: the function of the wait module the popen module spawns '
                       'through is run with fork() returning in the parent, in the child, or failing, the child being free to end and the reaper '
                       '(any thread, under the lock of the pid set) free to run whenever that lock is not held: from the moment fork() returns in '
                       'the parent until the interest is in the pid set under the pid fork() returned, the set\'s lock is held without '
                       'interruption (else the child is reaped with nobody to tell: its record stays "running" and close signals a pid that is '
                       'gone; same demand as C11 R-C11b); the parent registers the interest exactly once under that pid and returns success '
                       'with the lock released; the child runs the spawn function and never returns into the caller; a failed fork is '
                       'reported negative with nothing in the set and the lock released (a lock left held blocks the kill helper for good)', floor=5)
    ctx.rule('R-C19h', 'a running child is signalled until it ends needs a freshly spawned child to count as running: the function of the wait '
                       'module the popen module spawns through is run on the interest as the popen module hands it over (what submit wrote into it; '
                       'the rest of the malloc\'ed record is never-written memory), and the function the kill timer signals through is run on what '
                       'every successful parent path leaves: at the first moment the reaper can find the interest (in the pid set, set\'s lock not '
                       'held) the flag word the kill gate reads has been written, the spawn function does not write it after that moment (from '
                       'then on it belongs to the reaper), and asked for SIGTERM and for SIGKILL the kill function executes exactly one kill() '
                       'with the pid fork() returned and that signal, no decision on the way depending on never-written memory of the interest '
                       '(else a recycled record starts out "ended": the first firing reports gone, everything is released and the child runs on)',
             floor=2)
    ctx.section(lambda c: __import__('ivy.rules.c11', fromlist=['x']).status_table(c, 'R-C19e'))
    ctx.section(kill_gate)
    ctx.section(spawn_gate)
    ctx.section(spawn_alive)
    ctx.section(dead_mark)
    ctx.section(wiring)
    ctx.section(escalation)
    ctx.section(container)
    ctx.section(detach)


# ----------------------------------------------------------------------------
# life-cycle runs
# ----------------------------------------------------------------------------

class Path:
    def __init__(self):
        self.trail = []
        self.m = None
        self.steps = []       # per script step: dict(step, fired, ret, reg, heap, log0, log1, viol0, viol1)
        self.end = 'done'

    def step(self, name, k=0):
        c = [s for s in self.steps if s['step'] == name]
        return c[k] if len(c) > k else None

    def log(self, s):
        return self.m.log[s['log0']:s['log1']]

    def viol(self, s=None):
        if s is None:
            return self.m.viol
        return self.m.viol[s['viol0']:s['viol1']]

    def text(self):
        return h19.trail_text(self.trail)


def roots(ctx):
    prog = ctx.prog
    st = getattr(ctx, '_c19', None)
    if st is None:
        sub = prog.fn('iv_popen_request_submit')
        clo = prog.fn('iv_popen_request_close')
        if sub.static or clo.static or not sub.blocks or not clo.blocks:
            raise AnalysisBroken('iv_popen_request_submit / iv_popen_request_close are not the exported entry points any more')
        st = ctx._c19 = {'submit': sub, 'close': clo, 'home': (sub.file, clo.file), 'cache': {}}
    return st


def lifecycle(ctx, typ, script, fixed=None):
    """All paths of: submit a request of type `typ`, then the script steps
    'close' | ('exit', status) | ('timers', n)."""
    st = roots(ctx)
    key = (typ, tuple(script), tuple(sorted((fixed or {}).items())))
    if key in st['cache']:
        return st['cache'][key]
    prog = ctx.prog

    def scenario(orc):
        p = Path()
        m = p.m = h19.Machine(prog, orc, st['home'])
        m.mem[REQ_OBJ + (('f', 'type'),)] = ('str', typ)
        m.mem[REQ_OBJ + (('f', 'file'),)] = FILE_V
        m.mem[REQ_OBJ + (('f', 'argv'),)] = ARGV_V

        def do(name, fn):
            s = {'step': name, 'log0': len(m.log), 'viol0': len(m.viol), 'fired': None, 'ret': None}
            m.phase = name
            try:
                s['ret'] = fn()
            finally:
                s.update(log1=len(m.log), viol1=len(m.viol), reg=dict(m.reg), heap=dict(m.heap), fds=dict(m.fds), mem=dict(m.mem))
                p.steps.append(s)
            return s
        try:
            do('submit', lambda: m.call(st['submit'], [REQUEST]))
            for sp in script:
                if sp == 'close':
                    do('close', lambda: m.call(st['close'], [REQUEST]))
                    m.released.append((REQ_OBJ[0], 'after iv_popen_request_close returned (the caller may have released the request)'))
                elif sp[0] == 'exit':
                    s = do('exit', lambda: h19.fire_wait(m, sp[1]))
                    s['fired'] = s['ret']
                elif sp[0] == 'timers':
                    for _ in range(sp[1]):
                        s = do('timer', lambda: h19.fire_timer(m))
                        s['fired'] = s['ret']
                        if s['ret'] is None:
                            break
                        # the escalation is over once the helper said gone; what is still armed then is judged by
                        # the rules, not fired (bounds the enumeration: at most one `gone` per path)
                        if any(e['kind'] == 'signal' and e['outcome'] == 'gone' for e in p.log(s)) or len(m.undecided) > 5:
                            break
        except h19.PathEnd as pe:
            p.end = pe.why
        return p

    res = []
    for trail, p in h19.explore(scenario, fixed):
        p.trail = trail
        res.append(p)
    st['cache'][key] = res
    return res


def records_of(p):
    """heap objects allocated on this path (the running-child record)"""
    return sorted(p.m.heap)


def points_into(v, base):
    return h19.mentions(v, lambda x: x[0] == 'addr' and x[1][:1] == (base,))


def request_refs_freed(p, mem=None):
    """locations of the request that hold a pointer into a freed object"""
    m = p.m
    mem = m.mem if mem is None else mem
    out = []
    for loc, v in mem.items():
        if loc[0] == REQ_OBJ[0]:
            for hid, stt in m.heap.items():
                if stt == 'freed' and points_into(v, ('H', hid)):
                    out.append(show_loc(loc))
    return out


def outcome_of(p, what):
    for (key, c, n, label) in p.trail:
        if isinstance(key, tuple) and key[0] == what:
            return label
    return None


def vtext(vs):
    return '; '.join('%s (%s)' % (v['what'], (v['loc'] or '?').split('/')[-1]) for v in vs[:4])


# ----------------------------------------------------------------------------
# R-C19a
# ----------------------------------------------------------------------------

def _stream_ok(entry, want):
    """entry: open file description on a standard stream; want: ('pipe', 'r'|'w') or 'null-in' / 'null-out'"""
    if entry is None:
        return False
    if isinstance(want, tuple):
        return entry[0] == 'pipe' and entry[1] == want[1] and entry[2] == 0
    if entry[0] != 'file' or entry[1] != '/dev/null' or entry[2] is None:
        return False
    acc = entry[2] & 3
    return acc in ((0, 2) if want == 'null-in' else (1, 2))


def _table_text(t):
    def d(x):
        if x[0] == 'pipe':
            return 'pipe %s end' % ('read' if x[1] == 'r' else 'write')
        if x[0] == 'file':
            return '%s (flags %s)' % (x[1], x[2])
        return 'inherited std %s' % x[1]
    return '{' + ', '.join('%s: %s' % (show(k), d(v)) for k, v in sorted(t.items(), key=lambda kv: str(kv[0]))) + '}'


def wiring(ctx):
    st = roots(ctx)
    sub = st['submit']
    for mode in ('r', 'w'):
        rd = (mode == 'r')
        paths = lifecycle(ctx, mode, [], dict(ALL_OK, open=None))
        good = [p for p in paths if outcome_of(p, 'open') != 'fails']
        nulf = [p for p in paths if outcome_of(p, 'open') == 'fails']
        want = {0: 'null-in', 1: ('pipe', 'w'), 2: 'null-out'} if rd else {0: ('pipe', 'r'), 1: 'null-out', 2: 'null-out'}
        wtxt = 'stdin: null device, stdout: pipe write end, stderr: null device' if rd else 'stdin: pipe read end, stdout and stderr: null device'
        kids = [(p, c) for p in good for c in p.m.children]
        execs = [(p, c, e) for (p, c) in kids for e in c.log if e['kind'] == 'exec']
        cloc = sub.loc
        cfn = sub.q
        for (p, c) in kids:
            f = c.spawn_fn
            if f[0] == 'fn' and ctx.prog.funcs.get(f[1]) is not None:
                cloc, cfn = ctx.prog.funcs[f[1]].loc, f[1]
        # -- the child's descriptor table at exec
        ok = bool(good) and all(p.m.children for p in good) and bool(execs) and all(any(e['kind'] == 'exec' for e in c.log) for (p, c) in kids)
        det = ''
        for (p, c, e) in execs:
            t = e['table']
            if not all(_stream_ok(t.get(I(n)), want[n]) for n in (0, 1, 2)):
                ok = False
                det = 'at %s the table is %s' % (e['name'], _table_text(t))
        bad_v = [v for (p, c) in kids for v in c.viol]
        ctx.ob('R-C19a', 'child:type-%s' % mode, ok and not bad_v, loc=(execs[0][2]['loc'] if execs else cloc),
               detail='a request of type "%s" must exec its program with %s; %s %s' % (mode, wtxt, det or ('no exec reached' if not ok else ''), vtext(bad_v)),
               fn=cfn, path=(execs[0][0].text() if execs else None))
        okc = bool(execs) and all(set(e['table']) <= {I(0), I(1), I(2)} for (p, c, e) in execs)
        extra = [show(k) for (p, c, e) in execs for k in e['table'] if k not in (I(0), I(1), I(2))]
        ctx.ob('R-C19a', 'child:type-%s:inherited-ends-closed' % mode, okc, loc=(execs[0][2]['loc'] if execs else cloc),
               detail='descriptors still open at exec besides 0/1/2: %s (both pipe ends and the null device descriptor must be closed)' % (extra or 'none'), fn=cfn)
        okx = bool(execs) and all(len(e['args']) >= 2 and e['args'][0] == FILE_V and e['args'][1] == ARGV_V for (p, c, e) in execs)
        ctx.ob('R-C19a', 'child:type-%s:exec-after-wiring' % mode, okx, loc=(execs[0][2]['loc'] if execs else cloc),
               detail='the child execs the request\'s file with the request\'s argv once the descriptors are wired (got %s)'
                      % [[show(a) for a in e['args']] for (p, c, e) in execs][:2], fn=cfn)
        nk = [(p, c) for p in nulf for c in p.m.children]
        okn = bool(nk) and not any(e['kind'] == 'exec' for (p, c) in nk for e in c.log)
        ctx.ob('R-C19a', 'child:type-%s:no-exec-without-null-device' % mode, okn, loc=cloc,
               detail='when the null device cannot be opened the child does not exec the program with unwired standard streams', fn=cfn)
        # -- the parent
        okp = bool(good)
        dets = []
        for p in good:
            s = p.step('submit')
            m = p.m
            r = s['ret']
            mine = ('fd', 'pipe-read-end') if rd else ('fd', 'pipe-write-end')
            other = ('fd', 'pipe-write-end') if rd else ('fd', 'pipe-read-end')
            if p.end != 'done' or r != mine:
                okp = False
                dets.append('returns %s instead of the pipe\'s %s end' % (show(r) if r is not None else p.end, 'read' if rd else 'write'))
            if mine not in s['fds']:
                okp = False
                dets.append('closes the descriptor it returns')
            if other in s['fds']:
                okp = False
                dets.append('keeps the child\'s end %s open (the reader never sees end-of-file / the child never sees the writer go away)' % show(other))
            left = [k for k in s['fds'] if k not in (I(0), I(1), I(2), mine, other)]
            if left:
                okp = False
                dets.append('leaks %s' % [show(k) for k in left])
            if p.viol(s):
                okp = False
                dets.append(vtext(p.viol(s)))
        ctx.ob('R-C19a', 'parent:type-%s' % mode, okp, loc=sub.loc,
               detail='submit of type "%s" returns the %s end of the data pipe and closes the other one; %s' % (mode, 'read' if rd else 'write', '; '.join(dets[:3])),
               fn=sub.q, path=(good[0].text() if good else None))
        und = [u for p in paths for u in p.m.undecided] + [u for p in paths for c in p.m.children for u in c.undecided]
        ctx.ob('R-C19a', 'parent:type-%s:direction-flag' % mode, bool(kids) and not und, loc=(und[0]['loc'] if und else sub.loc),
               detail='with the type string and the outcomes of malloc/pipe/spawn/open fixed, nothing in submit or in the child may depend on '
                      'anything else; undecided: %s' % [show(u['term']) for u in und[:3]], fn=sub.q)


# ----------------------------------------------------------------------------
# R-C19b
# ----------------------------------------------------------------------------

def _expiry_refreshed(ev, reg):
    """before this registration, the same firing wrote the timer's expiry (a store into it, or a call that is handed its address)"""
    exp = reg['obj'] + (('f', 'expires'),)
    n = len(exp)
    for e in ev[:ev.index(reg)]:
        if e['kind'] == 'store' and (e['target'][:n] == exp or exp[:len(e['target'])] == e['target']):
            return True
        if e['kind'] == 'call' and any(isinstance(a, tuple) and a[0] == 'addr' and a[1][:n] == exp for a in e['args']):
            return True
    return False


def _is_handler(ctx, v):
    """v is the address of a function with a body"""
    f = ctx.prog.funcs.get(v[1]) if isinstance(v, tuple) and v[0] == 'fn' else None
    return f is not None and bool(f.blocks)


def escalation(ctx):
    st = roots(ctx)
    clo = st['close']
    paths = lifecycle(ctx, 'r', ['close', ('timers', MAX_FIRINGS)], dict(ALL_OK))
    armed = [p for p in paths if p.step('close') and any(r['kind'] == 'timer' for r in p.step('close')['reg'].values())]
    if not armed:
        raise AnalysisBroken('kill timer: no timer is registered after closing a request with a running child')
    hq = None
    for p in armed:
        for s in p.steps:
            if s['step'] == 'timer' and s['fired']:
                hq = s['fired']
    hf = ctx.prog.funcs.get(hq) if hq else None
    hloc = hf.loc if hf is not None else clo.loc
    hname = hq or clo.q
    # the path on which the helper always says "delivered": the signal sequence
    seq_ok, through_ok, alive_ok, gone_ok = True, True, True, True
    seq_det, thr_det, alive_det, gone_det = '', '', '', ''
    sloc = None
    n_gone = 0
    n_alive = 0
    und = []
    for p in armed:
        m = p.m
        rec = records_of(p)
        und += [u for u in m.undecided if u['phase'] == 'timer' and h19.garbage(u['term'], m)]
        sigs = []
        for k, s in enumerate([s for s in p.steps if s['step'] == 'timer' and s['fired']]):
            ev = p.log(s)
            sg = [e for e in ev if e['kind'] == 'signal']
            raw = [e for e in ev if e['kind'] == 'rawsignal']
            if sg and sloc is None:
                sloc = sg[0]['loc']
            if raw:
                through_ok = False
                thr_det = 'direct %s() at %s' % (raw[0]['name'], (raw[0]['loc'] or '').split('/')[-1])
            if len(sg) != 1:
                through_ok = False
                thr_det = thr_det or 'firing %d sends %d signals' % (k + 1, len(sg))
            for e in sg:
                w = e['obj']
                if not (w[0][0] == 'H'):
                    through_ok = False
                    thr_det = thr_det or 'signal through %s, which is not the record\'s interest' % show_loc(w)
                sigs.append(e['sig'])
            vs = p.viol(s)
            last = sg[-1]['outcome'] if sg else None
            if last == 'gone':
                n_gone += 1
                after = ev[ev.index(sg[-1]) + 1:]
                if s['reg'] or any(x == 'live' for x in s['heap'].values()) or vs or any(e['kind'] in ('signal', 'rawsignal', 'timer-register') for e in after):
                    gone_ok = False
                    gone_det = gone_det or ('firing %d: still registered: %s; record %s; %s' % (
                        k + 1, [r['kind'] for r in s['reg'].values()], 'not freed' if any(x == 'live' for x in s['heap'].values()) else 'freed', vtext(vs)))
            elif last == 'delivered':
                n_alive += 1
                tm = [(loc, r) for loc, r in s['reg'].items() if r['kind'] == 'timer']
                wi = [(loc, r) for loc, r in s['reg'].items() if r['kind'] == 'wait interest']
                # which handler and which cookie the timer is re-armed with is not prescribed (the handler may hand over to a
                # second stage, the cookie may be the embedded timer): the next firing is evaluated through whatever was
                # installed and must again send one signal through the registered interest without touching anything released
                good = (len(tm) == 1 and len(wi) == 1 and _is_handler(ctx, tm[0][1]['handler']) and rec
                        and tm[0][0][0][0] == 'H' and sg[-1]['obj'] == wi[0][0]
                        and all(x == 'live' for x in s['heap'].values()) and not vs
                        and all(e['expires_set'] and _expiry_refreshed(ev, e) for e in ev if e['kind'] == 'timer-register'))
                if not good:
                    alive_ok = False
                    alive_det = alive_det or ('firing %d: registered afterwards: %s; expiry rewritten before re-arming: %s; %s' % (
                        k + 1, [(r['kind'], show(r['handler'])) for r in s['reg'].values()],
                        [_expiry_refreshed(ev, e) for e in ev if e['kind'] == 'timer-register'], vtext(vs)))
        if all((outcome == 'delivered') for outcome in [t[3] for t in p.trail if isinstance(t[0], tuple) and t[0][0] == 'kill']):
            # all-delivered path: TERM ... TERM KILL KILL ...
            vals = [x[1] if is_i(x) else None for x in sigs]
            if len(vals) < 3 or vals[0] != SIGTERM or any(v not in (SIGTERM, SIGKILL) for v in vals):
                seq_ok = False
            elif SIGKILL not in vals:
                seq_ok = False
            else:
                i = vals.index(SIGKILL)
                if any(v != SIGKILL for v in vals[i:]) or len(vals) - i < 2:
                    seq_ok = False
            seq_det = 'signals sent while the child keeps running: %s' % [show(x) for x in sigs][:MAX_FIRINGS]
    ctx.ob('R-C19b', 'timer:gone-stops-signalling', gone_ok and n_gone > 0, loc=hloc,
           detail='whenever the kill helper reports the child gone, the interest is unregistered, the record freed, and neither a signal nor a '
                  'timer registration follows; %s' % (gone_det or ('evaluated at %d firings' % n_gone)), fn=hname)
    ctx.ob('R-C19b', 'timer:alive-rearms', alive_ok and n_alive > 0, loc=hloc,
           detail='while the helper delivers the signal (through the registered interest) exactly one timer, inside an allocated object, is registered again '
                  '(handler function, expiry written anew), the interest stays and nothing is released; %s'
                  % (alive_det or ('evaluated at %d firings' % n_alive)), fn=hname)
    ctx.ob('R-C19b', 'timer:term-then-kill', seq_ok and bool(seq_det), loc=sloc or hloc,
           detail='SIGTERM first, SIGKILL eventually and from then on; %s' % seq_det, fn=hname)
    ctx.ob('R-C19b', 'timer:signals-through-helper', through_ok and sloc is not None, loc=sloc or hloc,
           detail='exactly one signal per firing, only through iv_wait_interest_kill on the record\'s own interest (which refuses reaped pids: R-C19f); %s' % thr_det, fn=hname)
    ctx.ob('R-C19b', 'close:attempt-counter-reset', not und, loc=(und[0]['loc'] if und else clo.loc),
           detail='the escalation state is initialised when the timer is armed: no decision of the kill timer depends on never-written memory; %s'
                  % [show(u['term']) for u in und[:2]], fn=clo.q)


# ----------------------------------------------------------------------------
# R-C19c
# ----------------------------------------------------------------------------

def _all_lifecycles(ctx):
    """(name, paths) of the life cycles used for the release obligations"""
    out = []
    for mode in ('r', 'w'):
        out.append(('submit(%s)' % mode, lifecycle(ctx, mode, [], None)))
    out.append(('exit-then-close', lifecycle(ctx, 'r', [('exit', 0), 'close'], dict(ALL_OK))))
    for name, stt in TERMINATING:
        out.append(('close-then-%s' % name, lifecycle(ctx, 'r', ['close', ('exit', stt)], dict(ALL_OK))))
        out.append(('%s-while-attached' % name, lifecycle(ctx, 'w', [('exit', stt)], dict(ALL_OK))))
    out.append(('close-escalate', lifecycle(ctx, 'r', ['close', ('timers', MAX_FIRINGS)], dict(ALL_OK))))
    for k in (1, 3, 7):
        out.append(('close-%d-signals-then-exit' % k, lifecycle(ctx, 'r', ['close', ('timers', k), ('exit', 15)], dict(ALL_OK, kill='delivered'))))
    return out


def container(ctx):
    st = roots(ctx)
    sub = st['submit']
    # -- failure outcomes of submit
    for what in ('malloc', 'pipe', 'spawn'):
        ok, dets, n = True, [], 0
        ploc = sub.loc
        for mode in ('r', 'w'):
            for p in lifecycle(ctx, mode, [], None):
                firsts = [t for t in p.trail if isinstance(t[0], tuple) and t[0][0] in ('malloc', 'pipe', 'spawn') and t[3] == 'fails']
                if not firsts or firsts[0][0][0] != what:
                    continue
                n += 1
                ploc = firsts[0][0][1] or ploc
                s = p.step('submit')
                r = s['ret']
                if not (p.end == 'done' and r is not None and ((is_i(r) and r[1] < 0) or r[0] == 'neg')):
                    ok = False
                    dets.append('returns %s' % (show(r) if r is not None else p.end))
                leak = [show(k) for k in s['fds'] if k not in (I(0), I(1), I(2))]
                if leak:
                    ok = False
                    dets.append('descriptors left open: %s' % leak)
                if any(x == 'live' for x in s['heap'].values()):
                    ok = False
                    dets.append('the record is not freed')
                if s['reg']:
                    ok = False
                    dets.append('still registered: %s' % [r_['kind'] for r_ in s['reg'].values()])
                if request_refs_freed(p, s['mem']):
                    ok = False
                    dets.append('the request still points to the freed record (%s)' % request_refs_freed(p, s['mem']))
                if p.viol(s):
                    ok = False
                    dets.append(vtext(p.viol(s)))
                if any(c.log for c in p.m.children) and what != 'spawn':
                    ok = False
        ctx.ob('R-C19c', 'submit:%s-fails:releases-everything' % what, ok and n > 0, loc=ploc,
               detail='when %s fails submit returns a negative value with the record freed, both pipe ends closed, nothing registered and no '
                      'pointer to the record left in the request; %s' % (what, '; '.join(dets[:3]) or ('%d paths' % n)), fn=sub.q)
    ok, dets, n = True, [], 0
    for typ in ('x', '', 'rw', 'wr'):
        for p in lifecycle(ctx, typ, [], None):
            n += 1
            s = p.step('submit')
            r = s['ret']
            if not (p.end == 'done' and r is not None and ((is_i(r) and r[1] < 0) or r[0] == 'neg')):
                ok = False
                dets.append('type "%s": returns %s' % (typ, show(r) if r is not None else p.end))
            if [k for k in s['fds'] if k not in (I(0), I(1), I(2))] or any(x == 'live' for x in s['heap'].values()) or s['reg'] or p.m.children or p.viol(s):
                ok = False
                dets.append('type "%s": something is left behind (descriptors %s, record %s, registered %s, child spawned: %s) %s' % (
                    typ, [show(k) for k in s['fds'] if k not in (I(0), I(1), I(2))], list(s['heap'].values()), len(s['reg']), bool(p.m.children), vtext(p.viol(s))))
    ctx.ob('R-C19c', 'submit:invalid-type:rejected-and-released', ok and n > 0, loc=sub.loc,
           detail='a type other than "r"/"w" is refused with a negative value, nothing spawned, nothing left allocated, open or registered; %s' % '; '.join(dets[:2]), fn=sub.q)
    # -- free sites, grouped by source location and by role (the step of the life cycle that runs them)
    sites = {}          # (role, loc) -> [violations at this free]
    frees_by_role = {}
    uaf = []
    for name, paths in _all_lifecycles(ctx):
        for p in paths:
            for s in p.steps:
                role = {'submit': 'submit-failure', 'exit': 'exit-notification', 'timer': 'kill-timer', 'close': 'close'}[s['step']]
                for e in p.log(s):
                    if e['kind'] == 'call' and e['name'] == 'free' and e.get('obj') is not None:
                        sites.setdefault((role, e['loc']), [])
                        frees_by_role.setdefault(role, set()).add(e['loc'])
                for v in p.viol(s):
                    if v['kind'] == 'free':
                        sites.setdefault((role, v['loc']), []).append((name, v, p))
                    elif v['kind'] == 'use-after-free':
                        uaf.append((name, v, p))
    for (role, loc), vs in sorted(sites.items(), key=lambda kv: (kv[0][0], str(kv[0][1]))):
        ctx.ob('R-C19c', 'free:%s:nothing-registered-inside' % role, not vs, loc=loc,
               detail='in every life cycle that reaches this free, the record\'s wait interest and kill timer are not (or no longer) registered and the '
                      'record has not been freed before; %s' % ('; '.join('%s: %s' % (n_, v['what']) for (n_, v, _) in vs[:2])),
               path=(vs[0][2].text() if vs else None))
    for role in ('submit-failure', 'exit-notification', 'kill-timer'):
        ctx.ob('R-C19c', 'record-freed:%s' % role, bool(frees_by_role.get(role)), loc=sub.loc,
               detail='the running-child record is released by the %s path (free sites: %d)' % (role, len(frees_by_role.get(role, ()))), fn=sub.q)
    ctx.ob('R-C19c', 'record:not-used-after-free', not uaf, loc=(uaf[0][1]['loc'] if uaf else sub.loc),
           detail='no life cycle reads or writes the record after it was freed; %s' % '; '.join('%s: %s' % (n_, v['what']) for (n_, v, _) in uaf[:3]),
           path=(uaf[0][2].text() if uaf else None))


# ----------------------------------------------------------------------------
# R-C19d
# ----------------------------------------------------------------------------

def _ended(p):
    """everything released at the end of a life cycle in which the child ended"""
    m = p.m
    last = p.steps[-1]
    probs = []
    if p.end != 'done':
        probs.append('path ends in %s' % p.end)
    if last['reg']:
        probs.append('still registered with the loop: %s' % ['%s %s' % (r['kind'], show_loc(l)) for l, r in last['reg'].items()])
    if any(x == 'live' for x in last['heap'].values()):
        probs.append('the running-child record is never freed')
    if m.viol:
        probs.append(vtext(m.viol))
    return probs


def detach(ctx):
    st = roots(ctx)
    clo, sub = st['close'], st['submit']
    # -- close with a running child
    for mode in ('r', 'w'):
        paths = lifecycle(ctx, mode, ['close'], dict(ALL_OK))
        ok, dets = bool(paths), []
        aloc = clo.loc
        for p in paths:
            s = p.step('close')
            if s is None:
                ok = False
                dets.append('submit did not complete (%s)' % p.end)
                continue
            rec = records_of(p)
            tm = [(loc, r) for loc, r in s['reg'].items() if r['kind'] == 'timer']
            if tm:
                aloc = tm[0][1]['loc'] or aloc
            if len(tm) != 1 or not rec or tm[0][0][0][0] != 'H' or s['heap'].get(tm[0][0][0][1]) != 'live':
                ok = False
                dets.append('no kill timer inside a live allocated object is registered after close (registered: %s)' % [r['kind'] for r in s['reg'].values()])
            else:
                r = tm[0][1]
                if not _is_handler(ctx, r['handler']):
                    ok = False
                    dets.append('the armed timer has handler %s (expected a function)' % show(r['handler']))
                if any(e['kind'] == 'timer-register' and not e['expires_set'] for e in p.log(s)):
                    ok = False
                    dets.append('the timer is registered with an expiry time that was never written')
            if not any(r['kind'] == 'wait interest' for r in s['reg'].values()):
                ok = False
                dets.append('the wait interest is gone although the child is still running')
            if p.viol(s) or any(x != 'live' for x in s['heap'].values()):
                ok = False
                dets.append('%s %s' % (vtext(p.viol(s)), 'record freed in close' if any(x != 'live' for x in s['heap'].values()) else ''))
        # detached is a statement about behaviour, not about which pointers the record still holds: whatever can run after
        # close (the armed timer with both helper outcomes, the exit notification with every kind of status) is run, and
        # none of it may read or write the request (the caller may have released it) or anything freed; the timer firing
        # must reach the kill helper on the registered interest (so handler and cookie, whatever they are, lead to the record)
        after = [('timer', lifecycle(ctx, mode, ['close', ('timers', 2)], dict(ALL_OK)))]
        for name, stt in TERMINATING + NON_TERMINATING:
            after.append((name, lifecycle(ctx, mode, ['close', ('exit', stt)], dict(ALL_OK))))
        for what, ps in after:
            for p in ps:
                cs = p.step('close')
                if cs is None:
                    continue
                later = p.steps[p.steps.index(cs) + 1:]
                if not later or any(x['fired'] is None for x in later):
                    ok = False
                    dets.append('after close nothing can be run for %s (%s)' % (what, p.end))
                bad = [v for x in later for v in p.viol(x)]
                if bad:
                    ok = False
                    dets.append('after close, %s: %s' % (what, vtext(bad)))
                if what == 'timer':
                    for x in later:
                        sg = [e for e in p.log(x) if e['kind'] == 'signal']
                        if x['fired'] and not (sg and all(e['obj'] in cs['reg'] and cs['reg'][e['obj']]['kind'] == 'wait interest' for e in sg)):
                            ok = False
                            dets.append('the armed timer does not signal through the wait interest of the running child')
        ctx.ob('R-C19d', 'close:type-%s:running-child-detached-and-armed' % mode, ok, loc=aloc,
               detail='after close with the child still running: one kill timer (handler function, written expiry) inside the allocated record is '
                      'registered, the wait interest stays, and nothing that can run afterwards (timer firing, exit notification) touches the '
                      'request or released memory; %s' % '; '.join(sorted(set(dets))[:3]), fn=clo.q)
    # -- close after the child ended: nothing happens
    paths = lifecycle(ctx, 'r', [('exit', 0), 'close'], dict(ALL_OK))
    ok, dets = bool(paths), []
    for p in paths:
        s = p.step('close')
        if s is None:
            ok = False
            continue
        acts = [e for e in p.log(s) if e['kind'] in ('signal', 'rawsignal', 'timer-register', 'spawn') or (e['kind'] == 'call' and e['name'] in ('free', 'iv_timer_unregister', 'iv_wait_interest_unregister'))]
        if acts or s['reg'] or p.viol(s):
            ok = False
            dets.append('%s %s %s' % ([e['name'] for e in acts], [r['kind'] for r in s['reg'].values()], vtext(p.viol(s))))
    ctx.ob('R-C19d', 'close:child-already-ended:does-nothing', ok, loc=clo.loc,
           detail='close of a request whose child has ended registers nothing, signals nobody and touches no released memory; %s' % '; '.join(dets[:2]), fn=clo.q)
    # -- the exit notification
    wq = None
    for name, stt in TERMINATING:
        pa = lifecycle(ctx, 'w', [('exit', stt)], dict(ALL_OK))
        ok, dets = bool(pa), []
        for p in pa:
            s = p.step('exit')
            if s is None or not s['fired']:
                ok = False
                dets.append('no exit notification handler is installed')
                continue
            wq = s['fired']
            pr = _ended(p)
            refs = request_refs_freed(p, s['mem'])
            if pr or refs:
                ok = False
                dets += pr + (['the request still points to the freed record through %s: a later close would use it' % refs] if refs else [])
        wf = ctx.prog.funcs.get(wq) if wq else None
        ctx.ob('R-C19d', 'exit:%s:attached:clears-request' % name, ok, loc=(wf.loc if wf else sub.loc),
               detail='child ends while the request is open: interest unregistered, record freed, the request\'s child pointer cleared, no timer touched; %s' % '; '.join(dets[:3]),
               fn=wq or sub.q, path=(pa[0].text() if pa else None))
        pb = lifecycle(ctx, 'r', ['close', ('exit', stt)], dict(ALL_OK))
        ok, dets = bool(pb), []
        for p in pb:
            s = p.step('exit')
            if s is None or not s['fired']:
                ok = False
                dets.append('no exit notification can be delivered after close')
                continue
            pr = _ended(p)
            if pr:
                ok = False
                dets += pr
        ctx.ob('R-C19d', 'exit:%s:detached:cancels-timer' % name, ok, loc=(wf.loc if wf else sub.loc),
               detail='child ends after close: interest unregistered, kill timer cancelled, record freed, closed request not touched; %s' % '; '.join(dets[:3]),
               fn=wq or sub.q, path=(pb[0].text() if pb else None))
    wf = ctx.prog.funcs.get(wq) if wq else None
    for name, stt in NON_TERMINATING:
        ok, dets = True, []
        for script in ([('exit', stt)], ['close', ('exit', stt)]):
            for p in lifecycle(ctx, 'r', script, dict(ALL_OK)):
                s = p.step('exit')
                if s is None or not s['fired']:
                    ok = False
                    continue
                if any(x != 'live' for x in s['heap'].values()) or not any(r['kind'] == 'wait interest' for r in s['reg'].values()) or p.viol(s) \
                        or len(s['reg']) != len(p.steps[-2]['reg']):
                    ok = False
                    dets.append('after %s: record %s, registered %s %s' % ('+'.join(str(x if isinstance(x, str) else x[0]) for x in script), list(s['heap'].values()),
                                                                     [r['kind'] for r in s['reg'].values()], vtext(p.viol(s))))
        ctx.ob('R-C19d', 'exit:%s:not-a-termination' % name, ok, loc=(wf.loc if wf else sub.loc),
               detail='a %s child is still there: nothing is released or unregistered (it must still be signalled and reaped); %s' % (name, '; '.join(dets[:2])), fn=wq or sub.q)
    # -- whole life cycles end with nothing registered
    for name, paths in _all_lifecycles(ctx):
        if name.startswith('submit('):
            continue
        ok, dets, n = True, [], 0
        for p in paths:
            last = p.steps[-1]
            # the child ended on this path iff an exit notification with a terminating status was delivered or the helper said gone
            ended = any(s['step'] == 'exit' and s['fired'] for s in p.steps) or any(e['kind'] == 'signal' and e['outcome'] == 'gone' for e in p.m.log)
            if not ended:
                continue
            n += 1
            pr = _ended(p)
            if pr:
                ok = False
                dets += pr
        ctx.ob('R-C19d', 'lifecycle:%s:loop-can-exit' % name, ok and n > 0, loc=clo.loc,
               detail='once the child has ended nothing of the request stays registered with the loop and the record is freed exactly once; %s' % '; '.join(dets[:3]), fn=clo.q)


# ----------------------------------------------------------------------------
# R-C19f
# ----------------------------------------------------------------------------

def _kill_helpers(ctx):
    """the functions of the wait module (exported, with a body) the kill timer was seen to signal through in the life-cycle
    runs; every name signalled through; raw kill() calls of the popen module itself"""
    prog = ctx.prog
    st = roots(ctx)
    if 'killers' not in st:
        used, raw = {}, {}
        for p in lifecycle(ctx, 'r', ['close', ('timers', MAX_FIRINGS)], dict(ALL_OK)):
            for e in p.m.log:
                if e['kind'] == 'signal':
                    used.setdefault(e['name'], e['loc'])
                elif e['kind'] == 'rawsignal':
                    raw.setdefault(e['name'], e['loc'])
        helpers = {}
        for nm in sorted(used):
            f = prog.funcs.get(nm)
            if f is not None and f.blocks and not f.static and f.file.endswith('.c') and not f.file.endswith(st['home']):
                helpers[nm] = f
        st['killers'] = (helpers, used, raw)
    return st['killers']


def _spawn_helpers(ctx):
    """the functions of the wait module (exported, with a body) submit was seen to spawn through; every name spawned through;
    what submit has written into the interest at those calls on every path: location -> value (integers as they are,
    anything else as an opaque caller value), the whole interest zero when it always lies in zero-filled memory"""
    prog = ctx.prog
    st = roots(ctx)
    if 'spawners' not in st:
        used, pres = {}, []
        for mode in ('r', 'w'):
            for p in lifecycle(ctx, mode, [], None):
                for e in p.m.log:
                    if e['kind'] == 'spawn':
                        used.setdefault(e['name'], e['loc'])
                        pres.append((e.get('pre') or {}, bool(e.get('pre_zero'))))
        helpers = {}
        for nm in sorted(used):
            f = prog.funcs.get(nm)
            if f is not None and f.blocks and not f.static and f.file.endswith('.c') and not f.file.endswith(st['home']):
                helpers[nm] = f
        init = {}
        if pres:
            if all(z for (_, z) in pres):
                init[h19.WAIT_OBJ] = I(0)
            for sfx in sorted(set.intersection(*[set(pr) for (pr, _) in pres]), key=repr):
                vals = set(pr[sfx] for (pr, _) in pres)
                v = vals.pop() if len(vals) == 1 else None
                init[h19.WAIT_OBJ + sfx] = v if (v is not None and is_i(v)) else ('sym', 'written-by-submit')
        st['spawners'] = (helpers, used, init)
    return st['spawners']


def _spawn_runs(ctx, nm, f):
    st = roots(ctx)
    key = ('spawnruns', nm)
    if key not in st:
        helpers, used, init = _spawn_helpers(ctx)
        lid, setlocks = h19.set_lock_values(ctx.prog)
        st[key] = (lid, h19.spawn_runs(ctx.prog, f, setlocks, h19.set_tree_values(ctx.prog), init))
    return st[key]


def kill_gate(ctx):
    """The clause `if the child has already ended, or ends at any point during that sequence, no further signal is sent to
    its process id`, seen from the popen module: between the moment the wait module reaps the child (the pid becomes
    reusable) and the moment the exit notification cancels the kill timer, the timer may fire (timers run before the
    queued notification).  The popen module cannot know; what makes the firing harmless is the contract of the helper it
    signals through: no kill() once the interest is marked dead, decided under the lock the reaper marks it under.

    The contract is evaluated, not matched: the function the kill timer was seen to signal through (in the life-cycle runs
    of the machine) is executed by the same machine on an interest whose flag word is clear or holds a value the reaper
    stores, with the reaper allowed to mark it whenever the function takes a lock while it does not hold the lock of the pid
    set (h19.helper_runs).  Same demand as C11's R-C11c, but by value: helper cuts, snapshots, out-parameters, operations
    passed as function pointers, lock wrappers evaluate to the same kill() events."""
    from . import h11
    prog = ctx.prog
    st = roots(ctx)
    helpers, used, raw = _kill_helpers(ctx)
    stray = sorted(nm for nm in used if nm not in helpers) + sorted(raw)
    first = (raw or used)
    ctx.ob('R-C19f', 'timer:signals-through-gated-helper', bool(helpers) and not stray,
           loc=((raw.get(stray[0]) or used.get(stray[0])) if stray else (sorted(first.values(), key=str)[0] if first else st['close'].loc)),
           detail='every signal of the kill timer goes through an exported function of the wait module, whose gate is evaluated below '
                  '(through: %s; not through such a function: %s)' % (sorted(helpers) or 'nothing', stray or 'nothing'), fn=st['close'].q)
    if not helpers:
        raise AnalysisBroken('kill gate: the kill timer signals through no function of the wait module that has a body')
    lid, setlocks = h19.set_lock_values(prog)
    dead = h11.dead_values(prog)
    SIG = ('sym', 'signal')
    for nm, f in sorted(helpers.items()):
        kills = []        # (run, event) of every raw kill over all entry states and interleavings
        for fl0 in [0] + list(dead):
            for r in h19.helper_runs(prog, f, fl0, dead, SIG, setlocks):
                kills += [(r, e) for e in r.m.log if e['kind'] == 'rawsignal']
        if not kills:
            raise AnalysisBroken('kill gate: %s never reaches kill()' % nm)
        kloc = kills[0][1]['loc']
        unl = [(r, e) for (r, e) in kills if not e['locked']]
        ctx.ob('R-C19f', '%s:kill-under-lock' % nm, not unl, loc=(unl[0][1]['loc'] if unl else kloc),
               detail='kill() is executed only while the lock of the pid set (%s) is held: the reaper marks a reaped pid dead under that lock, so '
                      'nothing the helper knows about the flag holds outside it; %s' % (
                          lid or 'the unit takes no lock', ('held at the kill: %s' % ([show(l) for l in unl[0][1]['held']] or 'nothing')) if unl else ''),
               fn=f.q, path=(unl[0][0].trail and h19.trail_text(unl[0][0].trail) or None) if unl else None)
        deadk = [(r, e) for (r, e) in kills if not is_i(e['flags'], 0)]
        wrong = [(r, e) for (r, e) in kills if len(e['args']) < 2 or e['args'][0] != h19.CHILD_PID or e['args'][1] != SIG]
        bad = deadk or wrong
        ctx.ob('R-C19f', '%s:kill-gated' % nm, not bad, loc=(bad[0][1]['loc'] if bad else kloc),
               detail='no kill() while the dead flag of the signalled interest is set, the flag being the one in memory at the kill (the reaper may '
                      'set it whenever the set\'s lock is not held); the pid is that interest\'s pid, the signal the caller\'s: the popen kill timer '
                      'can fire after the child was reaped and before the exit notification cancels it, the helper must refuse by itself; %s' % (
                          ('kill(%s) executed with flag word %s' % (', '.join(show(a) for a in deadk[0][1]['args']), show(deadk[0][1]['flags']))) if deadk else
                          ('kill(%s)' % ', '.join(show(a) for a in wrong[0][1]['args'])) if wrong else 'evaluated at %d kill events' % len(kills)),
               fn=f.q, path=(h19.trail_text(bad[0][0].trail) or None) if bad else None)
        # a live child is signalled: with the flag clear throughout, the helper sends exactly the caller's signal to the interest's pid
        ok, det, n = True, '', 0
        for sg in (SIGTERM, SIGKILL):
            for r in h19.helper_runs(prog, f, 0, dead, I(sg), setlocks):
                if r.flipped:
                    continue
                n += 1
                ks = [e for e in r.m.log if e['kind'] == 'rawsignal']
                if r.end != 'done' or len(ks) != 1 or ks[0]['args'][:2] != [h19.CHILD_PID, I(sg)]:
                    ok = False
                    det = det or 'asked for signal %d: %s' % (sg, ['kill(%s)' % ', '.join(show(a) for a in e['args']) for e in ks] or 'no kill()')
        ctx.ob('R-C19f', '%s:live-child-signalled' % nm, ok and n > 0, loc=kloc,
               detail='while the interest is not marked dead the helper sends exactly the requested signal to its pid (the escalation reaches the '
                      'child); %s' % det, fn=f.q)


def dead_mark(ctx):
    """The other half of the gate: the flag the kill helper tests is stored when (and in the pass in which) a terminating
    status is reaped, for the interest the status is routed to.  The reaper is executed abstractly from its waitpid/wait4
    call with each terminating status value (h11.reaper_scenario, the paths R-C19e classifies): on every path that queues
    the status to an interest, that interest's flag word is stored (not cleared).  R-C19e alone accepts a pass that only
    deletes the pid from the set: then the set forgets the child but the helper still signals its pid."""
    from . import c11, h11
    prog = ctx.prog
    c11.reaper_contexts(prog)
    dead = h11.dead_values(prog)
    for name, val, want in h11.STATUS_CASES:
        if not want:
            continue
        for v, r, paths in c11._reaper_paths(prog, val):
            routed = [fa for (_, fa) in paths if c11._grp(fa, 'Q')]
            bad = [fa for fa in routed if not (c11._grp(fa, 'Q') <= c11._grp(fa, 'F')) or c11._grp(fa, 'F0')]
            ctx.ob('R-C19f', 'reaper:%s:marks-routed-interest-dead' % name, bool(routed) and not bad, loc=r['loc'],
                   detail='on every path of the reaper pass that routes a %s status to an interest, the dead flag of that interest is stored '
                          '(values the unit stores: %s); %s' % (name, dead if dead != [-1] else 'none',
                          'never routed' if not routed else ('%d of %d routed paths leave the flag untouched or clear it: the kill helper '
                          'would signal the reaped pid' % (len(bad), len(routed))) if bad else 'all %d routed paths' % len(routed)), fn=v.root.q)


# ----------------------------------------------------------------------------
# R-C19g
# ----------------------------------------------------------------------------

def spawn_gate(ctx):
    """The clause `if the child has already ended ... no further signal is sent to its process id` presupposes that the end of
    the child reaches the popen module (the exit notification releases the record; after close it cancels the kill timer).
    R-C19a-d run iv_popen.c against a *model* of the spawn helper in which the interest is registered for the child from the
    start.  Whether the real helper provides that is decided here, by running it: the child exists (and may end) from the
    moment fork() returns in the parent; the reaper of any thread reaps it under the lock of the pid set and tells the
    interest it finds under that pid, nobody otherwise.  So until the interest is in the set under the child's pid the lock
    must not be available to the reaper.  Evaluated by value (lock and tree identities through wrappers, accessors, cached
    addresses; the pid through locals, helpers, out-parameters), nothing about the shape of the helper is demanded."""
    prog = ctx.prog
    st = roots(ctx)
    helpers, used, _ = _spawn_helpers(ctx)
    stray = sorted(nm for nm in used if nm not in helpers)
    ctx.ob('R-C19g', 'submit:spawns-through-wait-module', bool(helpers) and not stray,
           loc=(used[stray[0]] if stray else (sorted(used.values(), key=str)[0] if used else st['submit'].loc)),
           detail='the child of a request is created by an exported function of the wait module, which is evaluated below (through: %s; not such a '
                  'function: %s)' % (sorted(helpers) or 'nothing', stray or 'nothing'), fn=st['submit'].q)
    if not helpers:
        raise AnalysisBroken('spawn gate: submit spawns through no function of the wait module that has a body')
    for nm, f in sorted(helpers.items()):
        lid, runs = _spawn_runs(ctx, nm, f)
        forked = [r for r in runs if r.fork is not None]
        if not forked:
            raise AnalysisBroken('spawn gate: %s never reaches fork()' % nm)
        floc = forked[0].fork['loc']
        parent = [r for r in forked if r.outcome == 'parent']
        child = [r for r in forked if r.outcome == 'child']
        fails = [r for r in forked if r.outcome == 'fails']
        # -- atomicity of fork .. findable
        gaps = [(r, g) for r in parent for g in r.gaps]
        ctx.ob('R-C19g', '%s:child-findable-before-reapable' % nm, bool(parent) and not gaps, loc=(gaps[0][1]['loc'] if gaps else floc),
               detail='from fork() returning in the parent until the interest is in the pid set under the child\'s pid, the lock of the pid set (%s) is '
                      'held without interruption: the child may end at once and the reaper of another thread, which works under that lock, tells only '
                      'an interest it finds; %s' % (lid or 'the unit takes no lock',
                                                   ('%s (held: %s)' % (gaps[0][1]['what'], [show(l) for l in gaps[0][1]['held']] or 'nothing')) if gaps
                                                   else '%d parent paths' % len(parent)),
               fn=f.q, path=(h19.trail_text(gaps[0][0].trail) or None) if gaps else None)
        # -- the parent registers the interest under the child's pid, once, and reports success
        ok, dets = bool(parent), []
        bad_r = None
        for r in parent:
            mine = [d for d in r.inserts if d['mine']]
            good = [d for d in mine if d['set'] and d['pid'] == h19.NEW_PID and d['locked']]
            pr = []
            if r.end != 'done':
                pr.append('the parent path ends in %s' % r.end)
            if len(good) != 1 or len(mine) != 1:
                pr.append('insertions of the interest: %s' % ([('pid field %s, %s, tree %s' % (show(d['pid']) if d['pid'] is not None else 'never written',
                                                              'lock held' if d['locked'] else 'lock not held', show(d['tree']))) for d in mine] or 'none'))
            if r.end == 'done' and not (r.ret is not None and r.ret[0] != 'neg' and not (is_i(r.ret) and r.ret[1] < 0)):
                pr.append('returns %s although the child was created' % (show(r.ret) if r.ret is not None else 'nothing'))
            if r.locked_at_end:
                pr.append('returns with the lock of the pid set held')
            if pr and bad_r is None:
                bad_r = r
            if pr:
                ok = False
                dets += pr
        iloc = ([d['loc'] for r in parent for d in r.inserts if d['mine']] or [floc])[0]
        ctx.ob('R-C19g', '%s:child-registered-under-its-pid' % nm, ok, loc=iloc,
               detail='in the parent the interest is inserted into the pid set exactly once, holding the pid fork() returned at that moment (the set is '
                      'ordered by it) and with the set\'s lock held; success is returned and the lock released; %s' % ('; '.join(dets[:3]) or '%d parent paths' % len(parent)),
               fn=f.q, path=(h19.trail_text(bad_r.trail) or None) if bad_r is not None else None)
        # -- the child
        ok, dets = bool(child), []
        want = '(*%s)' % show(h19.SPAWN_FN)
        for r in child:
            calls = [e for e in r.m.log if e['kind'] == 'call' and e['name'] == want]
            if len(calls) != 1 or calls[0]['args'] != [h19.SPAWN_COOKIE]:
                ok = False
                dets.append('the spawn function is called %d times%s' % (len(calls), (' with %s' % [show(a) for a in calls[0]['args']]) if calls else ''))
            if r.end == 'done':
                ok = False
                dets.append('the child returns into the caller of the helper (two processes go on running the parent\'s loop)')
            if any(d['mine'] for d in r.inserts):
                ok = False
                dets.append('the child inserts the interest into its copy of the set')
        ctx.ob('R-C19g', '%s:child-runs-spawn-function' % nm, ok, loc=floc,
               detail='in the child the spawn function is called once with the caller\'s cookie and the path never returns to the caller; %s' % '; '.join(dets[:2]), fn=f.q)
        # -- fork failed
        ok, dets = bool(fails), []
        for r in fails:
            if r.end != 'done' or r.ret is None or not (r.ret[0] == 'neg' or (is_i(r.ret) and r.ret[1] < 0)):
                ok = False
                dets.append('returns %s' % (show(r.ret) if r.ret is not None else r.end))
            if any(d['mine'] for d in r.inserts):
                ok = False
                dets.append('the interest is inserted into the pid set although there is no child')
            if r.locked_at_end:
                ok = False
                dets.append('returns with the lock of the pid set held: the kill helper and the reaper block for good')
        ctx.ob('R-C19g', '%s:fork-fails:reported-and-unlocked' % nm, ok, loc=floc,
               detail='when fork() fails a negative value is returned, nothing is in the pid set and the set\'s lock is released; %s' % '; '.join(sorted(set(dets))[:2]), fn=f.q)



# ----------------------------------------------------------------------------
# R-C19h
# ----------------------------------------------------------------------------

def spawn_alive(ctx):
    """The clause `a child that is still running is signalled repeatedly ... until it ends`, seen from the wait module: the
    kill timer of the popen module signals through a function that refuses once the interest is marked ended (R-C19f).  That
    refusal is only right if the mark is false for a child that has just been created.  R-C19a-d run iv_popen.c against a
    *model* of the spawn and kill helpers in which a registered interest is alive until the exit notification; R-C19f starts
    the kill helper from a flag word that is clear or holds what the reaper stores; R-C19g looks at the pid and the set.
    Nobody asked who makes the flag word clear.  Here the two real functions are composed: the spawn helper is run on the
    interest as submit hands it over (only what submit wrote is known: the record comes from malloc, the rest is
    never-written memory), then the kill helper is run on what each successful parent path leaves.  Nothing about the shape
    is demanded (which function clears the word, where, by store, memset or struct assignment, by the caller through
    calloc): only that it has been written when the reaper can first find the interest, is left alone afterwards, and that
    the kill helper then signals the new child without deciding anything on memory nobody wrote."""
    prog = ctx.prog
    st = roots(ctx)
    helpers, used, init = _spawn_helpers(ctx)
    if not helpers:
        raise AnalysisBroken('spawn alive: submit spawns through no function of the wait module that has a body')
    killers, _, _ = _kill_helpers(ctx)
    if not killers:
        raise AnalysisBroken('spawn alive: the kill timer signals through no function of the wait module that has a body')
    known = sorted(show_loc(k) for k in init) or ['nothing']
    for nm, f in sorted(helpers.items()):
        lid, runs = _spawn_runs(ctx, nm, f)
        parent = [r for r in runs if r.fork is not None and r.outcome == 'parent' and r.end == 'done'
                  and not (r.ret is not None and (r.ret[0] == 'neg' or (is_i(r.ret) and r.ret[1] < 0)))]
        if not parent:
            raise AnalysisBroken('spawn alive: %s has no successful parent path' % nm)
        floc = parent[0].fork['loc']
        # -- the flag word is settled when the reaper can first find the interest
        bad = []
        for r in parent:
            x = r.exposed
            if x is None:
                bad.append((r, floc, 'the interest is never put into the pid set'))
            elif not x['written'] or h19.unwritten_interest(x['flags']):
                bad.append((r, x['loc'], 'when %s the flag word has not been written (it holds %s; written before the call by submit: %s)' % (
                    x['how'], show(x['flags']), ', '.join(known))))
            elif r.late:
                bad.append((r, r.late[0]['loc'], 'after the moment %s the helper %s: a mark the reaper has set meanwhile is lost or a stale one installed' % (
                    x['how'], r.late[0]['what'])))
        ctx.ob('R-C19h', '%s:flag-word-settled-when-findable' % nm, not bad, loc=(bad[0][1] if bad else floc),
               detail='at the first moment the reaper can find the new interest (in the pid set, lock %s not held) the word the kill gate reads has '
                      'been written, by the spawn helper or by submit before the call, and the spawn helper does not write it afterwards; %s' % (
                          lid or 'of the set', bad[0][2] if bad else '%d parent paths' % len(parent)),
               fn=f.q, path=(h19.trail_text(bad[0][0].trail) or None) if bad else None)
        # -- a freshly spawned child is signalled
        bad, n = [], 0
        for r in parent:
            for knm, kf in sorted(killers.items()):
                for a in h19.alive_runs(prog, kf, r.m.mem, (SIGTERM, SIGKILL)):
                    n += 1
                    why = None
                    und = [u for u in a.undecided if h19.unwritten_interest(u['term'])]
                    if und:
                        why = ('%s decides on %s, which nobody wrote' % (knm, show(und[0]['term'])), und[0]['loc'])
                    for res in a.results:
                        ks = res['kills']
                        if why is None and (res['end'] != 'done' or len(ks) != 1 or ks[0]['args'][:2] != [h19.NEW_PID, I(res['sig'])]):
                            why = ('%s asked for signal %d right after the spawn: %s' % (
                                knm, res['sig'], ['kill(%s)' % ', '.join(show(v) for v in e['args']) for e in ks] or 'no kill()'),
                                ks[0]['loc'] if ks else kf.loc)
                    if why:
                        bad.append((r, a, why))
        ctx.ob('R-C19h', '%s:new-child-is-signalled' % nm, n > 0 and not bad, loc=(bad[0][2][1] if bad else floc),
               detail='run on what a successful parent path of the spawn helper leaves, the function the kill timer signals through (%s) executes '
                      'exactly one kill(pid fork() returned, signal) for SIGTERM and for SIGKILL, and no branch on the way depends on never-written '
                      'memory of the interest; %s' % (', '.join(sorted(killers)), bad[0][2][0] if bad else '%d runs' % n),
               fn=f.q, path=((h19.trail_text(bad[0][0].trail) + h19.trail_text(bad[0][1].trail)) or None) if bad else None)
