"""C04 — timers fire exactly once, never early; the loop never oversleeps.

Clock values and the repeated-deadline state machine are runtime quantities:
not decided.  Claimed: structural clauses + the comparator tables.
"""
from ..core import (names_of, same_value, AnalysisBroken, Inliner, canon, strip, last_member, must_pass, relpath, norm_cond, walk, forward)
from ..analyses import (is_call, holding, path_to, describe, exits_of, callback_kind, loops, innermost_loop,
                        delta_analysis, is_fail, must_pass_from_block)
from .. import interp
from . import c01


def cmp_tables(ctx, rid):
    prog = ctx.prog
    f = prog.fn('timespec_gt')
    a, b = f.params[0]['name'], f.params[1]['name']
    pairs = [('%s->tv_sec' % a, '%s->tv_sec' % b), ('%s->tv_nsec' % a, '%s->tv_nsec' % b)]
    for so in '<=>':
        for no in '<=>':
            asg = interp.Assignment(orders={pairs[0]: so, pairs[1]: no})
            r = interp.run(f, asg)['ret']
            want = int(so == '>' or (so == '=' and no == '>'))
            ctx.ob(rid, 'timespec_gt:sec%s,nsec%s' % (so, no), r == want, loc=f.loc,
                   detail='returns %s, strictly-later order requires %d' % (r, want), fn=f.q)
    f = prog.fn('timespec_cmp')
    a, b = f.params[0]['name'], f.params[1]['name']
    pairs = [('%s->tv_sec' % a, '%s->tv_sec' % b), ('%s->tv_nsec' % a, '%s->tv_nsec' % b)]
    for so in '<=>':
        for no in '<=>':
            asg = interp.Assignment(orders={pairs[0]: so, pairs[1]: no}, bools={a: True})
            r = interp.run(f, asg)['ret']
            want = {'<': -1, '>': 1}.get(so) or {'<': -1, '>': 1, '=': 0}[no]
            ok = isinstance(r, int) and ((r < 0) == (want < 0)) and ((r > 0) == (want > 0))
            ctx.ob(rid, 'timespec_cmp:sec%s,nsec%s' % (so, no), ok, loc=f.loc,
                   detail='returns %s, lexicographic three-way order requires sign %d' % (r, want), fn=f.q)
    asg = interp.Assignment(bools={a: False})
    r = interp.run(f, asg)['ret']
    ctx.ob(rid, 'timespec_cmp:no-deadline', isinstance(r, int) and r > 0, loc=f.loc,
           detail='a NULL deadline compares later than any stored deadline (returns %s)' % r, fn=f.q)


def run(ctx):
    ctx.rule('R-C04a', 'a timer is moved to the expired batch only on the not-later-than-now edge of the strict comparison of its '
                       'expiry with the loop clock, and the loop clock is valid there', floor=3)
    ctx.rule('R-C04a.cmp', 'comparator tables: timespec_gt is exactly "strictly later" over all 9 orderings of (sec, nsec); '
                           'timespec_cmp is the three-way lexicographic order with NULL = +infinity', floor=19)
    ctx.rule('R-C04b', 'the cached time dies with every wait: in every poll slot every path from the wait primitive to a return '
                       'invalidates the time cache', floor=4)
    ctx.rule('R-C04c', 'timers are re-evaluated after every wake of a timeout-bounded wait: poll slots of methods without a kernel '
                       'timer return non-zero on every path; the timer-descriptor method returns non-zero whenever it was given a '
                       'deadline; iv_main runs the timers at loop head whenever the previous poll said so', floor=6)
    ctx.rule('R-C04d', 'exactly-once structure: an expiring timer leaves the heap through iv_timer_unregister, is stamped 0 then -1 '
                       'and unlinked before its handler; registration refuses a timer whose index is not -1', floor=4)
    ctx.rule('R-C04e', 'the wait deadline is the heap root or zero: its only definitions are the zeroed local and '
                       'iv_get_soonest_timeout, which reads heap slot 1 under num_timers != 0', floor=3)
    ctx.rule('R-C04f', 'repeated-deadline optimisation: the armed kernel timer is kept (wait without a deadline) only on the edge where the '
                       'requested deadline is not earlier than the armed one; the result of arming is what the caller acts on', floor=3)
    ctx.rule('R-C04g', 'millisecond conversion rounds up: for boundary values the converted timeout never under-reports the remaining time '
                       '(no early wake-up spin, no truncation to 0 while time remains)', floor=6)
    ctx.section(keep_armed)
    ctx.section(rounding)
    ctx.section(expiry)
    ctx.section(lambda c: cmp_tables(c, 'R-C04a.cmp'))
    ctx.section(invalidate)
    ctx.section(rerun)
    ctx.section(once)
    ctx.section(deadline)


def keep_armed(ctx, rid='R-C04f'):
    prog = ctx.prog
    f = prog.fn('iv_fd_timeout_check')
    hd = holding(f)
    cmpdef = [e for e in f.events() if e['ev'] == 'store' and strip(e.get('rhs', {})).get('k') == 'call' and strip(e['rhs']).get('callee') == 'timespec_cmp']
    if not cmpdef:
        raise AnalysisBroken('iv_fd_timeout_check: comparison with the armed deadline not found')
    cv = canon(cmpdef[0]['lhs'])
    args = [canon(a) for a in strip(cmpdef[0]['rhs'])['args']]
    ctx.ob(rid, 'timeout_check:compares-request-with-armed', args[0] == f.params[1]['name'] and args[1].endswith('last_abs'), loc=cmpdef[0]['loc'],
           detail='cmp = timespec_cmp(requested deadline, armed deadline): %s' % args, fn=f.q)
    keeps = []
    for (pb, pi, e) in exits_of(f):
        v = strip(e.get('value', {}))
        if v.get('k') == 'int' and v['v'] != 0:
            keeps.append(e)
    ok = bool(keeps)
    for e in keeps:
        A = hd.get((e['_b'], e['_i']), frozenset())
        ok = ok and any(a[1] == cv and ((a[0] == '>=' and a[2] == '0') or (a[0] == '>' and a[2] == '-1')) for a in A)
    ctx.ob(rid, 'timeout_check:keep-armed-only-if-not-earlier', ok, loc=keeps[0]['loc'] if keeps else f.loc,
           detail='returning "armed, wait without deadline" without re-arming is on the edge cmp >= 0 (requested deadline not earlier than the armed one)', fn=f.q)
    arms = [e for e in f.events() if e['ev'] == 'call' and callback_kind(e) == ('method', 'set_poll_timeout')]
    okr = bool(arms)
    for a in arms:
        # its result is returned
        rets = [e for (pb, pi, e) in exits_of(f) if e['_b'] == a['_b'] and strip(e.get('value', {})).get('k') == 'call'
                and last_member(strip(e['value']).get('fnexpr')) == ('iv_fd_poll_method', 'set_poll_timeout')]
        viavar = [s_ for s_ in f.events() if s_['ev'] == 'store' and strip(s_.get('rhs', {})).get('k') == 'call'
                  and last_member(strip(s_['rhs']).get('fnexpr')) == ('iv_fd_poll_method', 'set_poll_timeout')]
        okr = okr and (bool(rets) or any(any(canon(e.get('value', {})) == canon(s_['lhs']) for (pb, pi, e) in exits_of(f)) for s_ in viavar))
    ctx.ob(rid, 'timeout_check:arming-result-propagated', okr, loc=arms[0]['loc'] if arms else f.loc,
           detail='the result of method->set_poll_timeout (0 = not armed, e.g. after falling back to a method without a kernel timer) is what '
                  'iv_fd_timeout_check returns, so the caller waits with the deadline itself', fn=f.q)
    g = prog.fn('iv_fd_poll_and_run')
    hdg = holding(g, user_call_kills=False)
    polls = [e for e in g.events() if e['ev'] == 'call' and callback_kind(e) == ('method', 'poll')]
    okp = len(polls) >= 2
    for p_ in polls:
        A = hdg.get((p_['_b'], p_['_i']), frozenset())
        armed = any(a[0] == '!=' and a[2] == '0' and a[1].startswith('iv_fd_timeout_check(') for a in A)
        dl = canon(p_['args'][2])
        if dl in ('NULL', '0'):
            okp = okp and armed
        else:
            okp = okp and dl == g.params[1]['name']
    ctx.ob(rid, 'poll_and_run:no-deadline-only-when-armed', okp, loc=g.loc,
           detail='method->poll is given no deadline only on the edge iv_fd_timeout_check(...) != 0; otherwise it gets the caller\'s deadline', fn=g.q)


def rounding(ctx, rid='R-C04g'):
    prog = ctx.prog
    f = prog.fn('to_msec')
    rets = [e for (pb, pi, e) in exits_of(f) if 'value' in e and any(x.get('k') == 'member' and x['field'] == 'tv_nsec' for x in walk(e['value']))]
    if not rets:
        raise AnalysisBroken('to_msec: conversion expression not found')
    expr = rets[0]['value']
    names = sorted({canon(x) for x in walk(expr) if x.get('k') == 'member' and x['field'] in ('tv_sec', 'tv_nsec')})
    sec = [n_ for n_ in names if n_.endswith('tv_sec')][0]
    nsec = [n_ for n_ in names if n_.endswith('tv_nsec')][0]
    for s_, n_ in ((0, 0), (0, 1), (0, 999999), (0, 1000000), (0, 1000001), (3, 500000), (7, 999999999)):
        try:
            v = interp.evaluate(expr, interp.Assignment(ints={sec: s_, nsec: n_}), {})
        except interp.Undecided as u:
            raise AnalysisBroken('to_msec: conversion not evaluable (%s)' % u)
        want = 1000 * s_ + (n_ + 999999) // 1000000
        ctx.ob(rid, 'to_msec(sec=%d,nsec=%d)' % (s_, n_), v == want, loc=rets[0]['loc'],
               detail='converted to %s ms; rounding up gives %d ms (a smaller value wakes the loop before anything is due: it spins)' % (v, want), fn=f.q)


def expiry(ctx):
    prog = ctx.prog
    f = prog.fn('iv_run_timers')
    hd = holding(f)
    moves = [e for e in f.events() if is_call(e, 'iv_timer_unregister') or
             (is_call(e, ('iv_list_add', 'iv_list_add_tail')) and c01._list_arg_member(e) == ('iv_timer_', 'list_expired'))]
    if len(moves) < 2:
        raise AnalysisBroken('iv_run_timers: expiry steps not found')
    for e in moves:
        A = hd.get((e['_b'], e['_i']), frozenset())
        ok = False
        for a in A:
            if a[0] == '==' and a[2] == '0' and a[1].startswith('timespec_gt(&') and a[1].endswith('->expires, &st->time)'):
                ok = True
        ctx.ob('R-C04a', 'iv_run_timers:%s-not-before-expiry' % ('unregister' if is_call(e, 'iv_timer_unregister') else 'expire'), ok, loc=e['loc'],
               detail='%s is on the edge timespec_gt(&t->expires, &st->time) == 0' % describe(e), path=None if ok else path_to(f, e), fn=f.q)
    # clock validity: every path to the comparison passed iv_time_get(&st->time) or the time_valid != 0 edge
    cmps = [e for e in f.events() if is_call(e, 'timespec_gt')]
    def tr(e, s):
        if is_call(e, 'iv_time_get') and canon(e['args'][0]) == '&st->time':
            return True
        if e['ev'] == 'store' and last_member(e['lhs']) == ('iv_state', 'time_valid') and canon(e.get('rhs')) == '0':
            return False
        if e['ev'] == 'call' and 'fnexpr' in e:
            return False        # a handler may have invalidated the clock
        return s
    def edge(blk, si, s):
        if blk.term and blk.term.get('cond') is not None and len(blk.succ) == 2:
            for (op, lc, rc, l, r) in norm_cond(blk.term['cond'], si == 0):
                if last_member(l) == ('iv_state', 'time_valid') and op == '!=' and rc == '0':
                    return True
        return s
    _, ev_in = forward(f, False, tr, lambda a, b: a and b, edge=edge)
    for c in cmps:
        ctx.ob('R-C04a', 'iv_run_timers:clock-valid-at-test', bool(ev_in.get((c['_b'], c['_i']))), loc=c['loc'],
               detail='st->time was read from the clock (or known valid) on every path to the expiry test', fn=f.q)


def invalidate(ctx):
    prog = ctx.prog
    for t, slots in sorted(prog.method_tables().items()):
        f = prog.resolve(*slots['poll'])
        g = Inliner(prog, method_table=t, expand_methods=True, stop=lambda x: x.name in ('iv_event_run_pending_events', 'iv_fd_make_ready')).inline(f)
        waits = [e for e in g.events() if is_call(e, ('epoll_wait', 'epoll_pwait2', 'poll', 'ppoll'))]
        if not waits:
            raise AnalysisBroken('%s: wait primitive not found' % f.name)
        ok = True
        for w in waits:
            mp = must_pass(g, lambda e: e['ev'] == 'store' and last_member(e['lhs']) == ('iv_state', 'time_valid') and canon(e.get('rhs')) == '0',
                           start_event=w)
            for (pb, pi, e) in exits_of(g):
                if mp.get((pb, pi)) is False:
                    ok = False
        ctx.ob('R-C04b', '%s:%s' % (t.replace('iv_fd_poll_method_', ''), f.name), ok, loc=f.loc,
               detail='time_valid = 0 on every path from the kernel wait (%s) to a return' % '/'.join(sorted({w['callee'] for w in waits})), fn=f.q)
    ws = {fn.name for (fn, e) in prog.writers_of('iv_state', 'time_valid')}
    allowed = {'__iv_invalidate_now', 'iv_validate_now', '__iv_now_location_valid', 'to_relative', 'iv_run_timers'}
    ctx.ob('R-C04b', 'time_valid:writers', ws <= allowed, loc=prog.fn('__iv_invalidate_now').loc, detail='writers of the validity flag: %s' % sorted(ws))


def rerun(ctx):
    prog = ctx.prog
    for t, slots in sorted(prog.method_tables().items()):
        f = prog.resolve(*slots['poll'])
        g = Inliner(prog, method_table=t, expand_methods=True, stop=lambda x: x.name in ('iv_event_run_pending_events', 'iv_fd_make_ready')).inline(f)
        has_timer = bool(slots.get('set_poll_timeout'))
        if not has_timer:
            res = delta_analysis(g, [])
            bad = [(e, rc) for (e, d, rc, p) in res.rets if not (isinstance(rc, tuple) and rc[1] != 0) and rc != 'nz']
            ctx.ob('R-C04c', '%s:returns-nonzero' % t.replace('iv_fd_poll_method_', ''), not bad and bool(res.rets),
                   loc=bad[0][0]['loc'] if bad else f.loc,
                   detail='every return of %s asks the caller to run timers (also on EINTR): %s' % (f.name, sorted({str(rc) for (_, _, rc, _) in res.rets})), fn=f.q)
        else:
            absn = f.params[2]['name']
            res = delta_analysis(g, [], init_env={absn: 'nz'}, extra_relevant=[absn])
            bad = [(e, rc) for (e, d, rc, p) in res.rets if not (isinstance(rc, tuple) and rc[1] != 0) and rc != 'nz']
            ctx.ob('R-C04c', '%s:deadline-given-returns-nonzero' % t.replace('iv_fd_poll_method_', ''), not bad and bool(res.rets),
                   loc=bad[0][0]['loc'] if bad else f.loc,
                   detail='given a deadline, every return of %s asks the caller to run timers: %s' % (f.name, sorted({str(rc) for (_, _, rc, _) in res.rets})), fn=f.q)
            # consuming the timer descriptor sets the flag
            reads = [e for e in g.events() if is_call(e, 'read') and 'timer_fd' in canon(e['args'][0])]
            okr = bool(reads)
            for r in reads:
                mp = must_pass(g, lambda e: e['ev'] == 'store' and canon(e['lhs']).startswith('run_timers') and canon(e.get('rhs')) == '1', start_event=r)
                # until the next batch entry / return
                lps = loops(g)
                h = innermost_loop(g, r['_b'], lps)
                for b in lps.get(h, ()):
                    for si, s_ in enumerate(g.blocks[b].succ):
                        if s_ == h and mp.get((b, len(g.blocks[b].events))) is False:
                            okr = False
            ctx.ob('R-C04c', '%s:timer-token-sets-run-timers' % t.replace('iv_fd_poll_method_', ''), okr, loc=reads[0]['loc'] if reads else f.loc,
                   detail='consuming the timer descriptor makes the poll report "run timers"', fn=f.q)
    # iv_main
    f = prog.fn('iv_main')
    poll = [e for e in f.events() if is_call(e, 'iv_fd_poll_and_run')]
    runs = [e for e in f.events() if is_call(e, 'iv_run_timers')]
    if not poll:
        raise AnalysisBroken('iv_main: poll not found')
    if not runs:
        ctx.ob('R-C04c', 'iv_main:timers-run-when-poll-said-so', False, loc=f.loc,
               detail='iv_main never calls iv_run_timers: expired timers are not dispatched', fn=f.q)
        return
    st = [e for e in f.events() if e['ev'] == 'store' and strip(e.get('rhs', {})).get('k') == 'call' and strip(e['rhs']).get('callee') == 'iv_fd_poll_and_run']
    var = canon(st[0]['lhs']) if st else None
    hd = holding(f)
    lps = loops(f)
    h = innermost_loop(f, poll[0]['_b'], lps)
    # the timer run is skipped only on the var == 0 edge; it lies before the exit test / poll in the iteration
    ok = var is not None
    def tr(e, s):
        return True if e in runs else s
    def edge(blk, si, s):
        if blk.succ[si] == h:
            return False
        if blk.term and blk.term.get('cond') is not None and len(blk.succ) == 2:
            for (op, lc, rc, l, r) in norm_cond(blk.term['cond'], si == 0):
                if lc == var and op == '==' and rc == '0':
                    return True
        return s
    _, ev_in = forward(f, False, tr, lambda a, b: a and b, edge=edge)
    ok = ok and bool(ev_in.get((poll[0]['_b'], poll[0]['_i'])))
    inits = [e for e in f.events() if e['ev'] == 'store' and canon(e['lhs']) == var and e not in st]
    ok = ok and all(canon(e.get('rhs')) == '1' for e in inits) and bool(inits)
    ctx.ob('R-C04c', 'iv_main:timers-run-when-poll-said-so', ok, loc=runs[0]['loc'],
           detail='iv_run_timers runs at loop head unless the previous poll returned 0 (first iteration: always), before the exit test and the next poll', fn=f.q)


def once(ctx):
    prog = ctx.prog
    f = prog.fn('iv_run_timers')
    lps = loops(f)
    adds = [e for e in f.events() if is_call(e, ('iv_list_add', 'iv_list_add_tail')) and c01._list_arg_member(e) == ('iv_timer_', 'list_expired')]
    for a in adds:
        obj = canon(strip(strip(a['args'][0])['e'])['base'])
        h = innermost_loop(f, a['_b'], lps)
        def per(pred, site):
            def tr(e, s):
                return True if pred(e) else s
            def edge(blk, si, s):
                return False if blk.succ[si] == h else s
            _, ev_in = forward(f, False, tr, lambda x, y: x and y, edge=edge)
            return ev_in
        ev1 = per(lambda e: is_call(e, 'iv_timer_unregister') and obj in names_of(e['args'][0]), a)
        ctx.ob('R-C04d', 'iv_run_timers:leaves-heap-through-unregister', bool(ev1.get((a['_b'], a['_i']))), loc=a['loc'],
               detail='iv_timer_unregister(%s) precedes the move to the expired batch' % obj, fn=f.q)
        # index = 0 stored after the add in the same iteration (state-discriminated holder predicate)
        mp = must_pass(f, lambda e: e['ev'] == 'store' and last_member(e['lhs']) == ('iv_timer_', 'index') and canon(e.get('rhs')) == '0'
                       and canon(strip(e['lhs'])['base']) == obj, start_event=a)
        bad = False
        for b in lps.get(h, ()):
            for si, s_ in enumerate(f.blocks[b].succ):
                if s_ == h and mp.get((b, len(f.blocks[b].events))) is False:
                    bad = True
        ctx.ob('R-C04d', 'iv_run_timers:expired-stamp', not bad, loc=a['loc'],
               detail='%s->index = 0 is stored with the link into the expired batch (index == 0 <=> in the batch)' % obj, fn=f.q)
    r = prog.fn('iv_timer_register')
    hd = holding(r)
    incs = [e for e in r.events() if e['ev'] == 'store' and last_member(e['lhs']) == ('iv_state', 'num_timers')]
    ok = bool(incs)
    for e in incs:
        A = hd.get((e['_b'], e['_i']), frozenset())
        ok = ok and any(a[0] == '==' and a[2] == '-1' and a[1].endswith('->index') for a in A)
    ctx.ob('R-C04d', 'iv_timer_register:refuses-registered', ok, loc=r.loc,
           detail='a timer enters the heap only on the index == -1 edge (double registration is fatal)', fn=r.q)
    u = prog.fn('iv_timer_unregister')
    hdu = holding(u)
    first = [e for e in u.events() if e['ev'] == 'load' and last_member(e['e']) == ('iv_state', 'num_timers')]
    oku = bool(first)
    for e in first:
        A = hdu.get((e['_b'], e['_i']), frozenset())
        oku = oku and any(a[0] == '!=' and a[2] == '-1' and a[1].endswith('->index') for a in A)
    ctx.ob('R-C04d', 'iv_timer_unregister:refuses-unregistered', oku, loc=u.loc,
           detail='unregistering a timer whose index is -1 is fatal', fn=u.q)


def deadline(ctx):
    prog = ctx.prog
    f = prog.fn('iv_main')
    poll = [e for e in f.events() if is_call(e, 'iv_fd_poll_and_run')][0]
    dl = canon(poll['args'][1])
    defs = [e for e in f.events() if e['ev'] == 'store' and canon(e['lhs']) == dl]
    kinds = set()
    for d in defs:
        r = strip(d['rhs'])
        if isinstance(r, dict) and r.get('k') == 'addr' and strip(r['e']).get('vk') == 'local':
            kinds.add('zeroed-local')
        elif isinstance(r, dict) and r.get('k') == 'call' and r.get('callee') == 'iv_get_soonest_timeout':
            kinds.add('soonest')
        else:
            kinds.add('other:' + canon(d['rhs']))
    ctx.ob('R-C04e', 'iv_main:deadline-definitions', kinds == {'zeroed-local', 'soonest'}, loc=poll['loc'],
           detail='definitions of the poll deadline: %s' % sorted(kinds), fn=f.q)
    s = prog.fn('iv_get_soonest_timeout')
    hd = holding(s)
    rets = [e for (pb, pi, e) in exits_of(s)]
    okroot, oknull = False, False
    for e in rets:
        v = strip(e.get('value'))
        A = hd.get((e['_b'], e['_i']), frozenset())
        if isinstance(v, dict) and v.get('k') == 'null':
            oknull = any(a[0] == '==' and a[2] == '0' and ('iv_state', 'num_timers') in a[3] for a in A)
        elif isinstance(v, dict) and v.get('k') == 'addr' and last_member(v['e']) == ('iv_timer_', 'expires'):
            tv = canon(strip(v['e'])['base'])
            d = [x for x in s.events() if x['ev'] in ('decl', 'store') and (x.get('name') == tv or canon(x.get('lhs', {})) == tv)]
            src = canon(d[0].get('init') or d[0].get('rhs')) if d else tv
            okroot = src.endswith('first_leaf.child[1]') and any(a[0] == '!=' and a[2] == '0' and ('iv_state', 'num_timers') in a[3] for a in A)
    ctx.ob('R-C04e', 'soonest:heap-root-when-nonempty', okroot, loc=s.loc,
           detail='returns &heap[1]->expires on the num_timers != 0 edge', fn=s.q)
    ctx.ob('R-C04e', 'soonest:null-when-empty', oknull, loc=s.loc, detail='returns NULL (no deadline) only when no timer is registered', fn=s.q)
