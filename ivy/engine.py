"""Check driver: obligations, known findings, evidence, exit codes."""
import json
import os
import sys
import time

from . import core
from .core import AnalysisBroken, relpath

VERIF = core.VERIF


class Ctx:
    def __init__(self, pid, tier, prog, seed=0):
        self.pid = pid
        self.tier = tier
        self.prog = prog
        self.seed = seed
        self.obs = []          # obligations evaluated
        self.exempt_used = []
        self.notes = []
        self.rules = {}        # rule id -> description
        self.configs = ['default']
        self.floors = {}
        self.broken = []

    def section(self, fn, *args):
        """Run one group of rules; an anchor that vanished breaks only this group
        (reported, exit 2 unless another group reports a violation)."""
        try:
            fn(self, *args)
        except AnalysisBroken as e:
            self.broken.append('%s: %s' % (fn.__name__, e))

    def rule(self, rid, text, floor=1):
        self.rules[rid] = text
        self.floors[rid] = floor

    def ob(self, rid, instance, ok, loc=None, detail='', path=None, fn=None):
        """Record one evaluated obligation.  instance: short stable key that
        names the construct (no line numbers)."""
        if rid not in self.rules:
            raise AnalysisBroken('rule %s used before being declared' % rid)
        self.obs.append({'rule': rid, 'instance': instance, 'ok': bool(ok),
                         'loc': relpath(loc) if loc else None, 'detail': detail,
                         'fn': fn, 'path': path})

    def exempt(self, rid, instance, reason):
        self.exempt_used.append({'rule': rid, 'instance': instance, 'reason': reason})

    def note(self, s):
        self.notes.append(s)

    def check_floors(self):
        cnt = {}
        for o in self.obs:
            cnt[o['rule']] = cnt.get(o['rule'], 0) + 1
        for rid, fl in self.floors.items():
            if cnt.get(rid, 0) < fl:
                raise AnalysisBroken('rule %s matched %d instances, confirmed floor is %d '
                                     '(anchor vanished or extractor broken)'
                                     % (rid, cnt.get(rid, 0), fl))
        return cnt


def load_known():
    p = os.path.join(VERIF, 'known_findings.json')
    if not os.path.exists(p):
        return {'known': [], 'fixed': []}
    return json.load(open(p))


def finding_key(o):
    return '%s|%s' % (o['rule'], o['instance'])


def finish(ctx, t0, extra_cov=None):
    """Evaluate results, write evidence, print report, return exit code."""
    pid = ctx.pid
    try:
        counts = ctx.check_floors()
    except AnalysisBroken as e:
        # a failed obligation is more informative than a missed instance floor: report the violation
        if not ctx.broken and not any(not o['ok'] for o in ctx.obs):
            raise
        if not any(not o['ok'] for o in ctx.obs):
            ctx.broken.append(str(e))
        counts = {}
        for o in ctx.obs:
            counts[o['rule']] = counts.get(o['rule'], 0) + 1
    known = load_known()
    known_keys = {k['key']: k for k in known.get('known', []) if k['property'] == pid}
    bad = [o for o in ctx.obs if not o['ok']]
    unlisted = []
    listed = []
    for o in bad:
        if finding_key(o) in known_keys:
            listed.append(o)
        else:
            unlisted.append(o)
    evdir = os.environ.get('IVY_EVIDENCE_DIR') or os.path.join(VERIF, 'evidence')
    os.makedirs(os.path.join(evdir, 'replay'), exist_ok=True)
    distinct = set()
    for o in ctx.obs:
        if o['loc']:
            distinct.add((o['rule'], o['instance']))
    samples = []
    seen_rules = set()
    for o in ctx.obs:            # one sample per rule first, then fill up
        if o['rule'] not in seen_rules:
            seen_rules.add(o['rule'])
            samples.append({k: o[k] for k in ('rule', 'instance', 'loc', 'ok', 'detail')})
    for o in ctx.obs:
        if len(samples) >= 40:
            break
        s = {k: o[k] for k in ('rule', 'instance', 'loc', 'ok', 'detail')}
        if s not in samples:
            samples.append(s)
    funcs = ctx.prog.all_funcs() if ctx.prog else []
    cov = {
        'explanation': 'static rules over clang CFG facts of /repo (no code executed): '
                       + '; '.join('%s: %s' % (r, t) for r, t in sorted(ctx.rules.items())),
        'evaluations': len(ctx.obs),
        'distinct_nontrivial': len(distinct),
        'rule': 'one evaluation = one (rule, code instance) obligation discovered in the facts; '
                'distinct+nontrivial = distinct (rule, instance) pairs anchored at a source location',
        'samples': samples,
        'obligations': len(ctx.obs),
        'discharged': len(ctx.obs) - len(bad),
        'per_rule': counts,
        'floors': ctx.floors,
        'units_analysed': sorted(ctx.prog.raw.keys()) if ctx.prog else [],
        'functions_in_program': len(funcs),
        'functions_with_obligations': sorted({str(o['fn']).split(':')[-1] for o in ctx.obs if o.get('fn')}),
        'configurations': ctx.configs,
        'exemptions_used': ctx.exempt_used,
        'notes': ctx.notes,
        'known_findings_matched': [finding_key(o) for o in listed],
        'analysis_broken': ctx.broken,
        'exhaustive': False,
    }
    if extra_cov:
        cov.update(extra_cov)
    ev = {
        'property_id': pid,
        'tier': ctx.tier,
        'seed': ctx.seed,
        'level': 'other',
        'coverage': cov,
        'assumptions': [
            'analysis is post-preprocessing for the configuration(s) listed; code under #ifdef arms not compiled here is not seen',
            'indirect calls are resolved only through the poll-method tables and the handler-field tables',
            'claimed clauses are necessary conditions of the property, not the behaviour itself (see DESIGN.md residual)',
        ],
        'wall_s': round(time.time() - t0, 3),
        'violations': len(unlisted),
    }
    with open(os.path.join(evdir, pid + '.json'), 'w') as f:
        json.dump(ev, f, indent=1, default=str)
    print('%s tier=%s: %d obligations over %d rules, %d failed (%d known), %.1fs'
          % (pid, ctx.tier, len(ctx.obs), len(ctx.rules), len(bad), len(listed), time.time() - t0))
    for rid in sorted(ctx.rules):
        print('  %-10s %3d instances  %s' % (rid, counts.get(rid, 0), ctx.rules[rid][:100]))
    done = set()
    for o in listed:
        k = finding_key(o)
        if k in done:
            continue
        done.add(k)
        print('KNOWN-FINDING: property=%s %s at %s: %s' % (pid, k, o['loc'], known_keys[k].get('what', o['detail'])))
    n = 0
    for o in unlisted:
        n += 1
        rp = os.path.join(evdir, 'replay', '%s-%d.json' % (pid, n))
        with open(rp, 'w') as f:
            json.dump({'property': pid, 'key': finding_key(o), 'obligation': o}, f, indent=1, default=str)
        print('  FAILED %s [%s] at %s: %s' % (o['rule'], o['instance'], o['loc'], o['detail']))
        if o.get('path'):
            for step in o['path'][:30]:
                print('      path: %s' % step)
        print('VIOLATION property=%s replay=%s' % (pid, rp))
    for b in ctx.broken:
        print('ANALYSIS-BROKEN property=%s: %s' % (pid, b))
    if unlisted:
        return 1
    return 2 if ctx.broken else 0


def run_check(pid, tier, rules_fn, replay=None):
    t0 = time.time()
    try:
        prog = core.load_program()
        ctx = Ctx(pid, tier, prog, seed=int(os.environ.get('VERIF_SEED', '0') or 0))
        rules_fn(ctx)
        if replay:
            want = json.load(open(replay))['key']
            hit = [o for o in ctx.obs if finding_key(o) == want]
            if not hit:
                print('replay: obligation %s no longer exists in the tree' % want)
                return 2
            for o in hit:
                print('replay: %s -> %s at %s %s' % (want, 'holds' if o['ok'] else 'FAILS', o['loc'], o['detail']))
                for step in (o.get('path') or []):
                    print('      path: %s' % step)
            if any(not o['ok'] for o in hit):
                print('VIOLATION property=%s replay=%s' % (pid, replay))
                return 1
            return 0
        return finish(ctx, t0)
    except AnalysisBroken as e:
        print('ANALYSIS-BROKEN property=%s: %s' % (pid, e))
        return 2


# --------------------------------------------------------------------------
# thorough tier: every single-feature-off configuration + checker self-test
# --------------------------------------------------------------------------

VARIANTS = ['HAVE_EPOLL_PWAIT2', 'HAVE_TIMERFD_CREATE', 'HAVE_PPOLL', 'HAVE_SPLICE', 'HAVE_PIPE2', 'HAVE_WAIT4',
            'HAVE_PTHREAD_SPIN_TRYLOCK', 'HAVE_EPOLL_CREATE1', 'HAVE_EVENTFD', 'HAVE_GETTID', 'HAVE_CLOCK_MONOTONIC']


def _variant_dir(sym):
    import tempfile
    import re
    d = tempfile.mkdtemp(prefix='ivy-config-')
    src = open(os.path.join(core.REPO, 'config.h')).read()
    out = re.sub(r'^#define\s+%s\s+.*$' % sym, '/* #undef %s */' % sym, src, flags=re.M)
    if out == src:
        return None
    open(os.path.join(d, 'config.h'), 'w').write(out)
    return d


def run_thorough(pid, mod, replay=None):
    import shutil
    import subprocess
    t0 = time.time()
    if replay:
        return run_check(pid, 'thorough', mod.run, replay=replay)
    try:
        prog = core.load_program()
        ctx = Ctx(pid, 'thorough', prog, seed=int(os.environ.get('VERIF_SEED', '0') or 0))
        mod.run(ctx)
        base_n = len(ctx.obs)
        variants = []
        for sym in VARIANTS:
            d = _variant_dir(sym)
            if d is None:
                continue
            try:
                try:
                    vprog = core.load_program(config_dir=d)
                except AnalysisBroken as e:
                    variants.append({'config': '-' + sym, 'status': 'does not compile here', 'detail': str(e)[:200]})
                    continue
                vctx = Ctx(pid, 'thorough', vprog)
                try:
                    mod.run(vctx)
                except AnalysisBroken as e:
                    vctx.broken.append(str(e))
                bad = [o for o in vctx.obs if not o['ok']]
                variants.append({'config': '-' + sym, 'status': 'analysed', 'obligations': len(vctx.obs), 'failed': len(bad),
                                 'rule_groups_not_applicable': vctx.broken[:6]})
                for o in vctx.obs:
                    o2 = dict(o)
                    o2['instance'] = '%s [config -%s]' % (o['instance'], sym)
                    # only failures of the variant are added as obligations of their own (passes are counted)
                    if not o['ok']:
                        # a failure that also fails in the default configuration is the same finding
                        same = [x for x in ctx.obs[:base_n] if x['rule'] == o['rule'] and x['instance'] == o['instance'] and not x['ok']]
                        if not same:
                            ctx.obs.append(o2)
                ctx.configs.append('-' + sym)
            finally:
                shutil.rmtree(d, ignore_errors=True)
        # checker self-test on this property's mutants and neutral edits
        try:
            st = subprocess.run([sys.executable, os.path.join(VERIF, 'tools', 'selftest.py'), '--property', pid],
                                capture_output=True, text=True, timeout=int(os.environ.get('VERIF_SELFTEST_TIMEOUT', '6000')))
            st_out = st.stdout
        except subprocess.TimeoutExpired as e:
            st_out = (e.stdout.decode() if isinstance(e.stdout, bytes) else (e.stdout or ''))
            ctx.broken.append('checker self-test did not finish within its time limit (host too loaded?)')
        lines = [l for l in st_out.splitlines() if l and not l.startswith(' ')]
        killed = sum(1 for l in lines if ' KILLED' in l)
        silent = sum(1 for l in lines if ' SILENT' in l)
        notok = [l for l in lines if any(x in l for x in (' SURVIVED', ' NOISY', ' BROKEN', ' NOCOMPILE')) and '-KNOWN' not in l]
        stale = [l for l in lines if ' STALE' in l]
        if notok:
            ctx.broken.append('checker self-test: %s' % '; '.join(notok[:5]))
        extra = {'configuration_variants': variants,
                 'selftest': {'mutants_killed': killed, 'neutral_edits_silent': silent, 'not_as_expected': notok, 'stale': stale}}
        for v in variants:
            print('  config %-28s %s%s' % (v['config'], v['status'],
                                           (' (%d obligations, %d failed)' % (v['obligations'], v['failed'])) if 'obligations' in v else ''))
        print('  self-test: %d mutants killed, %d neutral edits silent, %d not as expected, %d stale' % (killed, silent, len(notok), len(stale)))
        return finish(ctx, t0, extra_cov=extra)
    except AnalysisBroken as e:
        print('ANALYSIS-BROKEN property=%s: %s' % (pid, e))
        return 2
