"""Role-based helpers of C14 (local equivalents of things that would belong into ivy/roles.py / ivy/analyses.py).

Nothing here is keyed by the *name of a static function*: functions are found by what is done with
them (installed as the process signal handler, passed to the thread-creation call, registered with
pthread_atfork, stored into a handler field of a particular object, listed in a tls-user initialiser,
constructor attribute) or by being exported (external linkage).  Accesses are attributed to the
innermost *stable* frame of their calling context, so extracting, inlining or renaming static helpers
changes neither which exemption applies nor the instance names/counts of the obligations.

Iteration 2: nothing is keyed by the name of a file-scope variable or lock either.  `gpath` names a location inside a
file-scope object by its access path (a field of a file-scope struct is the same kind of location as a variable);
`addr_aliases`/`pointee`/`addr_targets` follow pointers that are held in single-definition locals, returned by inlined
accessors or delivered through out-parameters; `lock_ident` is the identity of a lock object whatever wrapper or
cached pointer it is reached through; `flag_values` tracks the possible values of integer flags (value sets narrowed
by `if`/`switch` outcomes); `feasible_edge` prunes branches that constants decide (`if (0)` after the substitution of
a mode argument, `handler == SIG_DFL` for a function); `dispatch_tables`/`table_call_targets` resolve indirect calls
through file-scope tables of functions.
"""
from ..core import AnalysisBroken, strip, strip_load, canon, last_member, lvalue_steps, lvalue_root, forward, norm_cond, walk
from ..analyses import locksets, held
from .. import roles


# --------------------------------------------------------------------------
# functions by role
# --------------------------------------------------------------------------

def func_node(prog, user, node):
    """Func that a (possibly &-prefixed / cast) function designator used inside `user` refers to."""
    n = strip(node)
    if isinstance(n, dict) and n.get('k') == 'addr':
        n = strip(n['e'])
    if not (isinstance(n, dict) and n.get('k') == 'var' and n.get('vk') == 'func'):
        return None
    u = prog.unit_of(user)
    return (prog.resolve(u, n['name']) if u else None) or prog.funcs.get(n['name'])


def _uniq(fs):
    out, seen = [], set()
    for f in fs:
        if f is not None and f.q not in seen:
            seen.add(f.q)
            out.append(f)
    return out


def event_pool(prog):
    """(function for name resolution, event) of every function and of every inlined entry point registered with
    set_graphs(): in an inlined graph the arguments of helpers are substituted, so `h->handler = fn` inside an
    initialisation helper reads `pool->ev.handler = iv_work_event` there."""
    for f in prog.all_funcs():
        for e in f.events():
            yield f, e
    for g in getattr(prog, '_h14_graphs', ()):
        for e in g.events():
            if e.get('chain'):
                yield (prog.funcs.get(e.get('fn')) or g), e


def set_graphs(prog, graphs):
    prog._h14_graphs = list(graphs)


def signal_installs(prog):
    """[(handler Func, installing Func, store event)] for every `X.sa_handler = f` / `X.sa_sigaction = f`."""
    out = []
    seen = set()
    for f, e in event_pool(prog):
        if e['ev'] == 'store' and 'rhs' in e:
            lm = last_member(e['lhs'])
            if lm and lm[1] in ('sa_handler', 'sa_sigaction'):
                h = func_node(prog, f, e['rhs'])
                if h is not None and (h.q, e.get('loc')) not in seen:
                    seen.add((h.q, e.get('loc')))
                    out.append((h, f, e))
    return out


def call_func_args(prog, callees):
    """[(caller, call event, [Func or None per argument])] for direct calls of one of `callees`."""
    out = []
    for f, e in event_pool(prog):
        if e['ev'] in ('call', 'enter') and e.get('callee') in callees:
            out.append((f, e, [func_node(prog, f, a) for a in e.get('args', [])]))
    return out


ATFORK = ('pthr_atfork', 'pthread_atfork')
THREAD_CREATE = ('iv_thread_create', 'pthr_create', 'pthread_create')


def atfork_triples(prog):
    """[(prepare, parent, child)] handler triples registered with pthread_atfork."""
    out = []
    for (_, _, fs) in call_func_args(prog, ATFORK):
        t = tuple(fs[:3])
        if len(t) == 3 and any(x is not None for x in t) and [x.q if x else None for x in t] not in [[y.q if y else None for y in o] for o in out]:
            out.append(t)
    return out


def thread_bodies(prog):
    """Functions passed to a thread-creation call (they run as the body of a new thread)."""
    return _uniq(x for (_, _, fs) in call_func_args(prog, THREAD_CREATE) for x in fs)


def installed_at(prog, steps):
    """Functions stored into the location whose lvalue steps start with `steps`
    (innermost first: [('iv_event','handler'), ('work_pool_priv','ev')] is `pool->ev.handler`; a field None matches
    any field of that record)."""
    out = []
    steps = list(steps)
    addr_defs = {}

    def resolved(f, lhs, ev=None):
        # `ev = &pool->done_ev; ev->handler = fn`: a local whose only definition is an address is that address
        key = id(f)
        if key not in addr_defs:
            ds, bad = {}, set()
            for e_ in f.events():
                if e_['ev'] == 'store' and strip(e_['lhs']).get('k') == 'var':
                    nm = strip(e_['lhs'])['name']
                    r_ = strip(e_.get('rhs')) if 'rhs' in e_ else None
                    if nm in ds or not (isinstance(r_, dict) and r_.get('k') == 'addr'):
                        bad.add(nm)
                    ds[nm] = e_.get('rhs')
            addr_defs[key] = {k_: v_ for k_, v_ in ds.items() if k_ not in bad}
        ds = dict(addr_defs[key])
        # a local re-used for several addresses: the definition that reaches the store inside its own block
        blk = f.blocks.get(ev.get('_b')) if ev is not None else None
        if blk is not None and ev.get('_i', -1) < len(blk.events) and blk.events[ev['_i']] is ev:
            for e_ in blk.events[:ev['_i']]:
                if e_['ev'] == 'store' and strip(e_['lhs']).get('k') == 'var':
                    nm = strip(e_['lhs'])['name']
                    r_ = strip(e_.get('rhs')) if 'rhs' in e_ else None
                    if isinstance(r_, dict) and r_.get('k') == 'addr':
                        ds[nm] = e_['rhs']
                    else:
                        ds.pop(nm, None)
        if not ds:
            return lhs
        from ..core import subst, simplify
        def r(nd):
            if nd.get('k') == 'load' and isinstance(nd.get('e'), dict) and nd['e'].get('k') == 'var' and nd['e']['name'] in ds:
                return ds[nd['e']['name']]
            return None
        return simplify(subst(lhs, r))
    for f, e in event_pool(prog):
        if e['ev'] == 'store' and 'rhs' in e:
            got = list(lvalue_steps(resolved(f, e['lhs'], e)))[:len(steps)]
            if len(got) == len(steps) and all(g == s_ or (s_[1] is None and g[0] == s_[0]) for g, s_ in zip(got, steps)):
                out.append(func_node(prog, f, e['rhs']))
    return _uniq(out)


def initialiser_hooks(prog, record, field):
    """Functions named in the static initialiser of field `field` of a file-scope object of type `record`."""
    out = []
    for key, g in sorted(prog.globals.items()):
        init = g.get('init') if isinstance(g, dict) else None
        if g.get('record') == record and isinstance(init, dict) and init.get('k') == 'init':
            v = strip(init.get('fields', {}).get(field))
            if isinstance(v, dict) and v.get('k') == 'addr':
                v = strip(v['e'])
            if isinstance(v, dict) and v.get('k') == 'var' and v.get('vk') == 'func':
                t = prog.resolve(g.get('unit'), v['name']) or prog.funcs.get(v['name'])
                out.append(t)
    return _uniq(out)


def constructors(prog):
    return [f for f in prog.all_funcs() if f.constructor]


def api(prog, *names):
    """Exported (external linkage) functions by name; a vanished API anchor breaks the analysis."""
    out = []
    for n in names:
        f = prog.funcs.get(n)
        if f is None or f.static or not f.blocks:
            raise AnalysisBroken('exported function %s not found' % n)
        out.append(f)
    return out


def dispatch_tables(prog):
    """{name of a file-scope object: [Func]}: functions listed in the static initialiser of a file-scope object that is
    neither a poll-method table (the inliner expands those) nor a tls-user descriptor (its hooks are entry points)."""
    c = getattr(prog, '_h14_tables', None)
    if c is not None:
        return c
    out = {}
    for key, g in sorted(prog.globals.items()):
        init = g.get('init') if isinstance(g, dict) else None
        if not isinstance(init, dict) or g.get('extern_decl') or g.get('record') in ('iv_fd_poll_method', 'iv_tls_user'):
            continue
        fs = []
        for x in walk(init):
            if x.get('k') == 'var' and x.get('vk') == 'func':
                t = prog.resolve(g.get('unit'), x['name']) or prog.funcs.get(x['name'])
                if t is not None and t.blocks:
                    fs.append(t)
        if fs:
            out.setdefault(g['name'], [])
            out[g['name']] += [f for f in _uniq(fs) if f.q not in {y.q for y in out[g['name']]}]
    prog._h14_tables = out
    return out


def table_only_functions(prog):
    """q-names of the functions whose address is taken in dispatch tables only (never stored or passed by code, not in
    a poll-method table or tls-user descriptor): they are entered from the indirect calls through their table alone."""
    c = getattr(prog, '_h14_table_only', None)
    if c is not None:
        return c
    tabled = {f.q for fs in dispatch_tables(prog).values() for f in fs}
    other = set()
    for f in prog.all_funcs():
        u = prog.unit_of(f)
        for e in f.events():
            for x in walk(e):
                if x.get('k') == 'var' and x.get('vk') == 'func':
                    t = (prog.resolve(u, x['name']) if u else None) or prog.funcs.get(x['name'])
                    if t is not None:
                        other.add(t.q)
    for key, g in prog.globals.items():
        init = g.get('init') if isinstance(g, dict) else None
        if isinstance(init, dict) and g.get('record') in ('iv_fd_poll_method', 'iv_tls_user'):
            for x in walk(init):
                if x.get('k') == 'var' and x.get('vk') == 'func':
                    t = prog.resolve(g.get('unit'), x['name']) or prog.funcs.get(x['name'])
                    if t is not None:
                        other.add(t.q)
    c = {q for q in tabled - other if prog.funcs[q].static}
    prog._h14_table_only = c
    return c


def table_call_targets(prog, e, al=None):
    """[Func] an indirect call event may enter when the called pointer is read from a dispatch table
    (`ops[kind].run(x)`, `tbl[i](x)`, also through an alias local / an accessor that returns `&ops[kind]`), else None"""
    if e['ev'] != 'call' or 'fnexpr' not in e:
        return None
    gp = gpath(e['fnexpr'], al, cached_ok=True)
    if gp is None:
        return None
    return dispatch_tables(prog).get(gp[0])


def stable_functions(prog):
    """q-names of the functions a refactoring cannot rename, split off or merge away unnoticed:
    external linkage (defined in a .c file) or address taken (handlers, slots, thread bodies)."""
    c = getattr(prog, '_h14_stable', None)
    if c is None:
        at = roles.address_taken(prog)
        c = {f.q for f in prog.all_funcs() if f.blocks and ((not f.static and f.file.endswith('.c')) or f.q in at)}
        prog._h14_stable = c
    return c


# --------------------------------------------------------------------------
# calling context of an event of an inlined root
# --------------------------------------------------------------------------

def frames(e, root):
    """q-names of the functions whose invocation is active at the event, outermost first."""
    return [root.q] + [c[2] for c in (e.get('chain') or [])]


def anchor_frame(prog, e, root):
    """Innermost active frame that is a stable function: the unit an access is attributed to."""
    st = stable_functions(prog)
    for q in reversed(frames(e, root)):
        if q in st:
            return q
    return root.q


def short(q):
    return q.split(':')[-1]


def only_within(prog, f, anchors, _seen=None):
    """True iff every way to execute `f` passes through one of the functions `anchors` (q-names):
    f is an anchor, or f is neither exported nor address-taken and each of its callers is only_within."""
    _seen = set() if _seen is None else _seen
    if f.q in anchors:
        return True
    if f.q in _seen:
        return True          # recursion: decided by the other callers
    _seen.add(f.q)
    if f.q in stable_functions(prog):
        return False
    callers = []
    for (c, e) in prog.callers_of(f.name):
        u = prog.unit_of(c)
        t = (prog.resolve(u, e['callee']) if u else None) or prog.funcs.get(e['callee'])
        if t is not None and t.q == f.q:
            callers.append(c)
    if not callers:
        return False
    return all(only_within(prog, c, anchors, _seen) for c in callers)


def _address_uses(prog):
    """{q-name: (taken by code, {keys of the file-scope objects whose initialiser lists the function})}"""
    c = getattr(prog, '_h14_addr_uses', None)
    if c is not None:
        return c
    out = {}
    for f in prog.all_funcs():
        u = prog.unit_of(f)
        for e in f.events():
            for x in walk(e):
                if x.get('k') == 'var' and x.get('vk') == 'func':
                    t = (prog.resolve(u, x['name']) if u else None) or prog.funcs.get(x['name'])
                    if t is not None:
                        out.setdefault(t.q, [False, set()])[0] = True
    for key, g in prog.globals.items():
        init = g.get('init') if isinstance(g, dict) else None
        if isinstance(init, dict):
            unit = g.get('unit') or (key.split(':')[0] if ':' in key else None)
            for x in walk(init):
                if x.get('k') == 'var' and x.get('vk') == 'func':
                    t = (prog.resolve(unit, x['name']) if unit else None) or prog.funcs.get(x['name'])
                    if t is None:
                        cands = [y for y in prog.funcs.values() if y.name == x['name']]
                        t = cands[0] if len(cands) == 1 else None
                    if t is not None:
                        out.setdefault(t.q, [False, set()])[1].add(key)
    prog._h14_addr_uses = out
    return out


def _mentions(x, names):
    return any(y.get('k') == 'var' and y.get('name') in names and y.get('vk') != 'func' for y in walk(x))


def _pointer_escapes(prog, f, names, depth=0):
    """the pointer value held in the variables `names` of f (a parameter, the name of a file-scope table) may outlive
    the activation or reach code we do not see: it is stored to anything but a local scalar, returned, or handed to a
    function other than a static one that (recursively, two levels) does not let it escape either.  Indexing,
    dereferencing, stepping and calling through it do not make it escape."""
    names = set(names)
    changed = True
    while changed:
        changed = False
        for e in f.events():
            if e['ev'] == 'store' and 'rhs' in e and _mentions(e['rhs'], names):
                l = strip(e['lhs'])
                if isinstance(l, dict) and l.get('k') == 'var' and l.get('vk') not in ('global', 'staticlocal', 'func'):
                    if l['name'] not in names:
                        names.add(l['name'])
                        changed = True
    u = prog.unit_of(f)
    for e in f.events():
        if e['ev'] == 'store' and 'rhs' in e and _mentions(e['rhs'], names):
            l = strip(e['lhs'])
            if not (isinstance(l, dict) and l.get('k') == 'var' and l['name'] in names):
                return True
        elif e['ev'] == 'ret' and any(_mentions(v, names) for k_, v in e.items() if isinstance(v, dict)):
            return True
        elif e['ev'] == 'call':
            for n, a in enumerate(e.get('args', [])):
                if not _mentions(a, names):
                    continue
                t = ((prog.resolve(u, e['callee']) if u else None) or prog.funcs.get(e['callee'])) if 'callee' in e else None
                if t is None or not t.blocks or not t.static or depth >= 2 or n >= len(t.params):
                    return True
                if _pointer_escapes(prog, t, {t.params[n]['name']}, depth + 1):
                    return True
    return False


def private_table_users(prog, key):
    """[Func] the functions that mention the file-scope object `key`, provided it is a *private constant table*:
    static, never stored into, not a poll-method table or tls-user descriptor (their entries are entered from
    everywhere), and no user lets a pointer into it escape (so the functions it lists can only be entered by
    indirect calls made in the dynamic extent of these users).  None when it is not such a table."""
    g = prog.globals.get(key)
    if not isinstance(g, dict) or not g.get('static') or g.get('extern_decl') or \
            g.get('record') in ('iv_fd_poll_method', 'iv_tls_user'):
        return None
    users = []
    for f in prog.all_funcs():
        if g.get('unit') and prog.unit_of(f) != g.get('unit'):
            continue
        if any(_mentions(e, {g['name']}) for e in f.events()):
            for e in f.events():
                # constant: no code stores into it (whether or not it is declared const)
                rt = lvalue_root(e['lhs']) if e['ev'] == 'store' else None
                if rt is not None and rt.get('vk') in ('global', 'staticlocal') and rt.get('name') == g['name']:
                    return None
            if _pointer_escapes(prog, f, {g['name']}):
                return None
            users.append(f)
    return users


def only_via(prog, f, anchors, _seen=None):
    """True iff every way to execute `f` passes through one of the functions `anchors` (q-names): f is an anchor, or
    f is not public API and each of its callers is only_via, and its address is taken, if at all, only in private
    constant tables all of whose users are only_via (iteration 5: a direct call and an indirect call through a
    constant table that only that code can read are the same way of being entered).  (Unlike only_within, an
    internal function with external linkage is not an entry point of its own: users cannot name it.)"""
    _seen = set() if _seen is None else _seen
    if f.q in anchors:
        return True
    if f.q in _seen:
        return True
    _seen.add(f.q)
    if f.q in public_api(prog) or f.constructor:
        return False
    ways = []
    if f.q in roles.address_taken(prog):
        code, tables = _address_uses(prog).get(f.q, (True, set()))
        if code or not tables:
            return False
        for key in sorted(tables):
            users = private_table_users(prog, key)
            if not users:
                return False
            ways += users
    for (c, e) in prog.callers_of(f.name):
        u = prog.unit_of(c)
        t = (prog.resolve(u, e['callee']) if u else None) or prog.funcs.get(e['callee'])
        if t is not None and t.q == f.q:
            ways.append(c)
    if not ways:
        return False
    return all(only_via(prog, c, anchors, _seen) for c in ways)


# --------------------------------------------------------------------------
# small dataflow predicates on an inlined root
# --------------------------------------------------------------------------

def _nonnull_constant(x):
    """a function designator or the address of an object: never NULL"""
    v = strip(x)
    if isinstance(v, dict) and v.get('k') == 'var' and v.get('vk') == 'func':
        return True
    if isinstance(v, dict) and v.get('k') == 'addr':
        t = strip(v['e'])
        return isinstance(t, dict) and (t.get('k') == 'var' or (t.get('k') == 'member' and not t['arrow']) or t.get('vk') == 'func')
    return False


def feasible_edge(blk, si):
    """False when the branch outcome is decided by constants alone: a function designator / object address compared
    with NULL (a handler parameter that was substituted by the function passed: `handler == SIG_DFL`), two integers."""
    t = blk.term
    if not t or t.get('cond') is None or len(blk.succ) != 2 or t.get('cls') in ('SwitchStmt', 'MethodDispatch'):
        return True
    for (op, lc, rc, l, r) in norm_cond(t['cond'], si == 0):
        if op == 'const':
            if lc == 'False':
                return False
            continue
        if rc == '0' and op in ('==', '!=') and _nonnull_constant(l):
            if op == '==':
                return False
            continue
        lv, rv = _intval(l), _intval(r) if isinstance(r, dict) else None
        if lv is not None and rv is not None:
            if not {'==': lv == rv, '!=': lv != rv, '<': lv < rv, '>': lv > rv, '<=': lv <= rv, '>=': lv >= rv}.get(op, True):
                return False
    return True


def _pruned(blk, si, s):
    return s if feasible_edge(blk, si) else None


def may_follow(g, pred, reset=None):
    """{(b,i): bool}: some (feasible) path from the entry to the point executed an event matching pred
    (and none matching reset since)."""
    def tr(e, s):
        if pred(e):
            return True
        if reset is not None and reset(e):
            return False
        return s
    _, ev_in = forward(g, False, tr, lambda a, b: a or b, edge=_pruned)
    return ev_in


def must_follow(g, pred, reset=None):
    """{(b,i): bool}: every (feasible) path from the entry to the point executed an event matching pred
    (and none matching reset since)."""
    def tr(e, s):
        if pred(e):
            return True
        if reset is not None and reset(e):
            return False
        return s
    _, ev_in = forward(g, False, tr, lambda a, b: a and b, edge=_pruned)
    return ev_in


def _is_fork_call(x):
    x = strip(x)
    return isinstance(x, dict) and x.get('k') == 'call' and x.get('callee') in ('fork', 'vfork')


def has_fork(g):
    return any(e['ev'] == 'call' and e.get('callee') in ('fork', 'vfork') for e in g.events())


def fork_child(g):
    """{(b,i): bool}: the point is only reached in the child of a fork() made by this very context:
    every path to it crossed an edge on which `<result of fork()> == 0` holds (and the variable holding
    the result was not reassigned since).  The child of a fork is a single-threaded copy of the process."""
    fv = set()
    for e in g.events():
        if e['ev'] == 'store' and e.get('op') == '=' and 'rhs' in e and _is_fork_call(e['rhs']):
            l = strip(e['lhs'])
            if isinstance(l, dict) and l.get('k') == 'var':
                fv.add(l['name'])

    def tr(e, s):
        if s and e['ev'] == 'store':
            l = strip(e['lhs'])
            if isinstance(l, dict) and l.get('k') == 'var' and l['name'] in s:
                return s - {l['name']}
        return s

    def edge(blk, si, s):
        if not blk.term or blk.term.get('cond') is None or len(blk.succ) != 2 or blk.term.get('cls') in ('SwitchStmt', 'MethodDispatch'):
            return s
        for (op, lc, rc, l, r) in norm_cond(blk.term['cond'], si == 0):
            if op == '==' and rc == '0':
                if lc in fv:
                    s = s | {lc}
                elif isinstance(l, dict) and _is_fork_call(l):
                    s = s | {'<fork()>'}
        return s
    _, ev_in = forward(g, frozenset(), tr, lambda a, b: a & b, edge=edge)
    return {k: bool(v) for k, v in ev_in.items()}


def addr_aliases(g):
    """{local: address expression}: local pointer variables whose every assignment in g stores the address of the
    same object (`___mutex_t *l = &st->event_list_mutex;`, `struct iv_list_head *q = &pool->work_items;`, the result
    variable of an inlined accessor `return &grp.lock;`), so that an access or a lock call through them names that
    object.  The variables the address expression reads must themselves be assigned at most once and never have
    their address taken (the address is then the same at every use)."""
    c = getattr(g, '_h14_aliases', None)
    if c is not None:
        return c
    defs = {}
    taken = set()
    for e in g.events():
        if e['ev'] == 'store':
            l = strip(e['lhs'])
            if isinstance(l, dict) and l.get('k') == 'var' and l.get('vk') not in ('global', 'staticlocal', 'func'):
                defs.setdefault(l['name'], []).append(e.get('rhs') if e.get('op') == '=' else None)
        for x in walk(e):
            if x.get('k') == 'addr':
                v = strip(x['e'])
                if isinstance(v, dict) and v.get('k') == 'var':
                    taken.add(v['name'])
    out = {}
    for name, rhss in defs.items():
        if name in taken or any(r is None for r in rhss):
            continue
        if len({canon(r) for r in rhss}) != 1:
            continue
        r = strip(rhss[0])
        if not (isinstance(r, dict) and r.get('k') == 'addr' and isinstance(strip(r['e']), dict)
                and strip(r['e']).get('k') in ('member', 'var', 'index')):
            continue
        stable = True
        for x in walk(r):
            if x.get('k') == 'var' and x.get('vk') not in ('global', 'staticlocal', 'func'):
                if x['name'] in taken or len(defs.get(x['name'], ())) > 1 or x['name'] == name:
                    stable = False
            elif x.get('k') in ('call', 'assign', 'incdec', 'stmtexpr'):
                stable = False
        if stable:
            out[name] = rhss[0]
    # copies of aliases: `r = q;` with q an alias (the result variable of an inlined accessor copied into a local)
    changed = True
    while changed:
        changed = False
        for name, rhss in defs.items():
            if name in out or name in taken or any(r is None for r in rhss):
                continue
            srcs = set()
            for r in rhss:
                v = r
                while isinstance(v, dict) and v.get('k') in ('load', 'cast', 'paren') and 'e' in v:
                    v = v['e']
                srcs.add(v['name'] if isinstance(v, dict) and v.get('k') == 'var' and v['name'] in out and v['name'] != name else None)
            if len(srcs) == 1 and None not in srcs:
                out[name] = out[srcs.pop()]
                changed = True
    g._h14_aliases = out
    return out


def addr_targets(g, arg, al=None):
    """object expressions a pointer argument may point to: `&X`, an alias local, or a local all of whose assignments
    store addresses (the result of an inlined selector `return flag ? &a->t : &glob;`)"""
    t = pointee(arg, al)
    if t is not None:
        return [t]
    v = arg
    while isinstance(v, dict) and v.get('k') in ('load', 'cast', 'paren') and 'e' in v:
        v = v['e']
    if not (isinstance(v, dict) and v.get('k') == 'var' and v.get('vk') not in ('global', 'staticlocal', 'func')):
        return []
    out = []
    for e in g.events():
        if e['ev'] == 'store':
            l = _lhs_var(e['lhs'])
            if l is not None and l['name'] == v['name']:
                r = strip(e['rhs']) if e.get('op') == '=' and 'rhs' in e else None
                if isinstance(r, dict) and r.get('k') == 'addr':
                    out.append(r['e'])
                else:
                    return []
        elif e['ev'] == 'call':
            # the address of the local handed to a function that is not inlined: it may store anything
            for a in e.get('args', []):
                t = strip(a)
                if isinstance(t, dict) and t.get('k') == 'addr':
                    t2 = strip(t['e'])
                    if isinstance(t2, dict) and t2.get('k') == 'var' and t2['name'] == v['name']:
                        return []
    return out


def _lhs_var(lhs):
    """the variable a store assigns: `v = ..`, or `*&v = ..` (an out-parameter of an inlined helper)"""
    l = strip(lhs)
    if isinstance(l, dict) and l.get('k') == 'deref':
        t = l['e']
        while isinstance(t, dict) and t.get('k') in ('load', 'cast', 'paren') and 'e' in t:
            t = t['e']
        if isinstance(t, dict) and t.get('k') == 'addr':
            l = strip(t['e'])
    return l if isinstance(l, dict) and l.get('k') == 'var' else None


lock_aliases = addr_aliases


def _alias_target(x, al):
    """x (a pointer-valued expression) has a statically known pointee: it is a read of an alias local, or
    (a cast of) `&object` (as left by the substitution of an address argument for a parameter that the callee casts:
    `((struct iv_task_ *)&st->events_local)->list`): the object expression it points to, else None"""
    v = x
    while isinstance(v, dict) and v.get('k') in ('load', 'cast', 'paren') and 'e' in v:
        if v.get('_was'):
            return None
        v = v['e']
    if isinstance(v, dict) and v.get('k') == 'addr' and not v.get('_was'):
        return v['e']
    if not al:
        return None
    if isinstance(v, dict) and v.get('k') == 'var' and v.get('vk') not in ('global', 'staticlocal', 'func') \
            and v['name'] in al and not v.get('_was'):
        t = strip(al[v['name']])
        return t['e'] if isinstance(t, dict) and t.get('k') == 'addr' else None
    return None


def gpath(x, al=None, cached_ok=False):
    """(variable, field, ...) of an access path that stays inside a file-scope object (no pointer is followed; array
    indices are dropped; alias locals and `*p` of alias locals are resolved), else None.  A field of a file-scope
    struct is a location of its own: `grp.lock`, `grp.tree.root`."""
    path = []
    n = 0
    while isinstance(x, dict) and n < 64:
        n += 1
        k = x.get('k')
        if x.get('_was') and k != 'addr' and not cached_ok:
            return None      # a cached value: the memory was read where the local was assigned
        if k == 'member':
            if x['arrow']:
                t = _alias_target(x['base'], al)
                if t is None:
                    return None
                path.append(x['field'])
                x = t
            else:
                path.append(x['field'])
                x = x['base']
        elif k == 'index':
            x = strip_load(x['base'])
        elif k == 'deref':
            t = _alias_target(x['e'], al)
            if t is None:
                return None
            x = t
        elif k == 'var':
            if x.get('vk') in ('global', 'staticlocal'):
                return (x['name'],) + tuple(reversed(path))
            return None
        elif k in ('cast', 'load', 'paren'):
            x = x['e']
        else:
            return None
    return None


def pointee(arg, al=None):
    """object expression whose address the (argument) expression `arg` is: `&X` gives X, a read of an alias local
    gives the object it was assigned the address of; else None"""
    a = strip(arg)
    if isinstance(a, dict) and a.get('k') == 'load':
        a2 = strip(a['e'])
        if isinstance(a2, dict) and a2.get('k') == 'addr':
            a = a2
    if isinstance(a, dict) and a.get('k') == 'addr':
        return a['e']
    return _alias_target(arg, al)


def lock_ident(arg, al=None):
    """Identity of the lock object a lock function is given: the path of a file-scope object (`iv_wait_lock`,
    `grp.lock` -- a field of a file-scope struct is the same kind of location as a file-scope variable),
    record.field for a lock inside a heap object (any object of that type).  Lock pointers held in alias locals
    and returned by inlined accessor functions are resolved."""
    obj = pointee(arg, al)
    if obj is None:
        return canon(arg)
    gp = gpath(obj, al)
    if gp is not None:
        return '.'.join(gp)
    o = strip(obj)
    while isinstance(o, dict) and o.get('k') in ('cast', 'load', 'paren'):
        o = o['e']
    if isinstance(o, dict) and o.get('k') == 'member':
        if o['arrow']:
            t = _alias_target(o['base'], al)
            if t is not None:
                return lock_ident({'k': 'addr', 'e': dict(o, arrow=False, base=t)}, al)
        return '%s.%s' % (o.get('record'), o['field'])
    if isinstance(o, dict) and o.get('k') == 'var':
        return o['name']
    return canon(arg)


def lock_effect_in(g):
    """[(op, lock id)] of an event of g (analyses.lock_effect with lock identities by lock_ident())"""
    from ..analyses import LOCK_FUNCS, SIGBLOCK
    from ..core import is_int
    al = addr_aliases(g)

    def eff(e):
        if e['ev'] != 'call':
            return []
        nm = e.get('callee')
        if nm in LOCK_FUNCS and e.get('args'):
            kind, ai = LOCK_FUNCS[nm]
            lid = lock_ident(e['args'][ai], al)
            if kind == 'lock':
                return [('lock', lid)]
            if kind == 'unlock':
                return [('unlock', lid)]
            if kind == 'lock+sig':
                return [('lock', SIGBLOCK), ('lock', lid)]
            if kind == 'unlock+sig':
                return [('unlock', lid), ('unlock', SIGBLOCK)]
        if nm == 'pthr_sigmask' and e.get('args'):
            how = strip(e['args'][0])
            if is_int(how, 0):
                return [('lock', SIGBLOCK)]
            if is_int(how, 2) or is_int(how, 1):
                return [('unlock', SIGBLOCK)]
        return []
    return eff


def locksets_in(g, entry=frozenset(), eff=None):
    """analyses.locksets with lock identities by lock_ident()"""
    eff = eff or lock_effect_in(g)

    def tr(e, S):
        for (op, lid) in eff(e):
            if op == 'lock':
                S = frozenset(x for x in S if x[0] != lid) | {(lid, e.get('loc'))}
            else:
                S = frozenset(x for x in S if x[0] != lid)
        return S

    def join(a, b):
        if a == b:
            return a
        da, db = dict(a), dict(b)
        return frozenset((l, da[l] if da[l] == db[l] else 'several') for l in da if l in db)
    # branches decided by constants alone (an argument substituted for a mode parameter: `if (0)`) are not followed:
    # the points behind them are absent from the result
    _, ev_in = forward(g, frozenset((l, 'entry') for l in entry), tr, join, edge=_pruned)
    return ev_in


def exit_lockset(g, entry=frozenset()):
    """Locks held (must) when the inlined root returns."""
    ls = locksets_in(g, entry=entry)
    S = ls.get((g.exit, 0))
    if S is None:
        S = ls.get((g.exit, len(g.blocks[g.exit].events)))
    return frozenset(held(S))


# --------------------------------------------------------------------------
# guards on file-scope integer flags (for the one-way condition)
# --------------------------------------------------------------------------

def _gvar(x):
    x = strip(x)
    if isinstance(x, dict) and x.get('k') == 'var' and x.get('vk') in ('global', 'staticlocal'):
        return x['name']
    return None


def _intval(x):
    x = strip(x)
    if isinstance(x, dict) and x.get('k') == 'int':
        return x['v']
    if isinstance(x, dict) and x.get('k') == 'null':
        return 0
    if isinstance(x, dict) and x.get('k') == 'un' and x.get('op') == '-':
        v = _intval(x['e'])
        return -v if v is not None else None
    return None


def flag_guards(g, names):
    """{(b,i): frozenset((op, flag, int))}: comparisons of the file-scope variables `names` with integer
    constants that hold on every path to the point (branch outcomes and constant stores; killed by any
    other store to the variable)."""
    names = set(names)
    # ('alias', local, flag): the local holds the value the flag had when it was read and the flag was not stored since

    def tr(e, s):
        if e['ev'] == 'store':
            r = lvalue_root(e['lhs'])
            if r is not None and r.get('vk') in ('global', 'staticlocal') and r['name'] in names:
                s = frozenset(a for a in s if not (a[1] == r['name'] or (a[0] == 'alias' and a[2] == r['name'])))
                v = _intval(e.get('rhs')) if e.get('op') == '=' and 'rhs' in e and _gvar(e['lhs']) else None
                if v is not None:
                    s = s | {('==', r['name'], v)}
            l = strip(e['lhs'])
            if isinstance(l, dict) and l.get('k') == 'var' and l.get('vk') not in ('global', 'staticlocal'):
                if any(a[0] == 'alias' and a[1] == l['name'] for a in s):
                    s = frozenset(a for a in s if not (a[0] == 'alias' and a[1] == l['name']))
                src = _gvar(e.get('rhs')) if e.get('op') == '=' and 'rhs' in e else None
                if src in names:
                    s = s | {('alias', l['name'], src)}
        elif e['ev'] == 'call':
            # a local whose address is passed out may change
            for a in e.get('args', []):
                a = strip(a)
                if isinstance(a, dict) and a.get('k') == 'addr':
                    v = strip(a['e'])
                    if isinstance(v, dict) and v.get('k') == 'var' and any(x[0] == 'alias' and x[1] == v['name'] for x in s):
                        s = frozenset(x for x in s if not (x[0] == 'alias' and x[1] == v['name']))
        return s

    def edge(blk, si, s):
        if not blk.term or blk.term.get('cond') is None or len(blk.succ) != 2 or blk.term.get('cls') in ('SwitchStmt', 'MethodDispatch'):
            return s
        for (op, lc, rc, l, r) in norm_cond(blk.term['cond'], si == 0):
            if op == 'const':
                continue
            n = _gvar(l)
            if n is None:
                lv = strip(l)
                if isinstance(lv, dict) and lv.get('k') == 'var':
                    al = [a[2] for a in s if a[0] == 'alias' and a[1] == lv['name']]
                    n = al[0] if al else None
            if n in names:
                try:
                    s = s | {(op, n, int(rc))}
                except ValueError:
                    pass
        return s
    _, ev_in = forward(g, frozenset(), tr, lambda a, b: a & b, edge=edge)
    return {k: frozenset(a for a in v if a[0] != 'alias') for k, v in ev_in.items()}


def flag_values(g, domains, valof):
    """Possible values of file-scope flags at every point of g, as this thread last observed them.
    domains: {flag path: frozenset(all values it can hold: initial value + stored constants)};
    valof(store event) -> the constant stored, or None.
    State: per flag a subset of its domain (absent = the whole domain) narrowed by branch outcomes (`if`, `switch`,
    also through a local that holds a copy of the flag) and constant stores, widened to the whole domain by any
    other store; joined by union.  Returns ({(b,i): state}, values(state, flag))."""
    al = addr_aliases(g)
    names = set(domains)

    def fl(x):
        p = gpath(x, al, cached_ok=True)
        p = '.'.join(p) if p else None
        return p if p in names else None

    def getv(S, f):
        for (k, v) in S[0]:
            if k == f:
                return v
        return domains[f]

    def setv(S, f, vals):
        d = dict(S[0])
        vals = frozenset(vals)
        if vals == domains[f]:
            d.pop(f, None)
        else:
            d[f] = vals
        return (frozenset(d.items()), S[1])

    def tr(e, S):
        if e['ev'] == 'store':
            p = gpath(e['lhs'], al)
            p = '.'.join(p) if p else None
            if p is not None:
                for f in names:
                    if f == p or f.startswith(p + '.') or p.startswith(f + '.'):
                        v = valof(e) if f == p else None
                        S = setv(S, f, [v] if v is not None else domains[f])
                        S = (S[0], frozenset(a for a in S[1] if a[1] != f))
            l = strip(e['lhs'])
            if isinstance(l, dict) and l.get('k') == 'var' and l.get('vk') not in ('global', 'staticlocal'):
                S = (S[0], frozenset(a for a in S[1] if a[0] != l['name']))
                src = fl(e['rhs']) if e.get('op') == '=' and 'rhs' in e else None
                if src is not None:
                    S = (S[0], S[1] | {(l['name'], src)})
        elif e['ev'] == 'call':
            for a in e.get('args', []):
                t = pointee(a, al)
                if t is None:
                    continue
                v = strip(t)
                if isinstance(v, dict) and v.get('k') == 'var' and v.get('vk') not in ('global', 'staticlocal'):
                    S = (S[0], frozenset(x for x in S[1] if x[0] != v['name']))
                f = fl(t)
                if f is not None:
                    S = setv(S, f, domains[f])
        return S

    def flag_of(x, S):
        f = fl(x)
        if f is not None:
            return f
        v = strip(x)
        if isinstance(v, dict) and v.get('k') == 'var':
            for (loc, f2) in S[1]:
                if loc == v['name']:
                    return f2
        return None

    CMP = {'==': lambda v, c: v == c, '!=': lambda v, c: v != c, '<': lambda v, c: v < c, '>': lambda v, c: v > c,
           '<=': lambda v, c: v <= c, '>=': lambda v, c: v >= c}

    def edge(blk, si, S):
        t = blk.term
        if not t or t.get('cond') is None or t.get('cls') == 'MethodDispatch':
            return S
        if t.get('cls') == 'SwitchStmt':
            cases = t.get('cases') or []
            f = flag_of(t['cond'], S)
            if f is None or si >= len(cases):
                return S
            me = cases[si]
            cur = getv(S, f)
            if isinstance(me, int):
                return setv(S, f, [v for v in cur if v == me])
            if me == 'default':
                return setv(S, f, [v for v in cur if all(v != c for c in cases if isinstance(c, int))])
            return S
        if len(blk.succ) != 2:
            return S
        for (op, lc, rc, l, r) in norm_cond(t['cond'], si == 0):
            if op not in CMP:
                continue
            f = flag_of(l, S)
            if f is None:
                continue
            try:
                c = int(rc)
            except ValueError:
                continue
            S = setv(S, f, [v for v in getv(S, f) if CMP[op](v, c)])
        return S

    def join(a, b):
        if a == b:
            return a
        da, db = dict(a[0]), dict(b[0])
        d = {}
        for f in da:
            if f in db:
                u = da[f] | db[f]
                if u != domains[f]:
                    d[f] = u
        return (frozenset(d.items()), a[1] & b[1])
    _, ev_in = forward(g, (frozenset(), frozenset()), tr, join, edge=edge)
    return ev_in, getv


def satisfies(v, atoms):
    for (op, _, c) in atoms:
        if not {'==': v == c, '!=': v != c, '<': v < c, '>': v > c, '<=': v <= c, '>=': v >= c}[op]:
            return False
    return True


def find_cycle(edges):
    """A cycle in the directed graph {(a,b)} as a list of nodes, or None."""
    graph = {}
    for (a, b) in edges:
        graph.setdefault(a, set()).add(b)
    color = {}

    def dfs(u, stack):
        color[u] = 1
        for v in sorted(graph.get(u, ()), key=str):
            if color.get(v) == 1:
                return stack + [u, v]
            if v not in color:
                c = dfs(v, stack + [u])
                if c:
                    return c
        color[u] = 2
        return None
    for u in sorted(graph, key=str):
        if u not in color:
            c = dfs(u, [])
            if c:
                return c[c.index(c[-1]):]
    return None


# --------------------------------------------------------------------------
# public API (declared in the installed headers)
# --------------------------------------------------------------------------

def public_api(prog):
    """q-names of the functions with external linkage that the installed headers (src/include/*.h) declare:
    what a user thread can call directly, with no library lock held."""
    c = getattr(prog, '_h14_public', None)
    if c is not None:
        return c
    import os
    import re
    from .. import core
    inc = os.path.join(core.REPO, 'src', 'include')
    names = set()
    if os.path.isdir(inc):
        for fn in sorted(os.listdir(inc)):
            if fn.endswith(('.h', '.h.in')):
                try:
                    txt = open(os.path.join(inc, fn), errors='replace').read()
                except OSError:
                    continue
                names |= set(re.findall(r'\b([A-Za-z_]\w*)\s*\(', txt))
    c = {f.q for f in prog.all_funcs() if f.blocks and not f.static and f.file.endswith('.c') and f.name in names}
    if len(c) < 40:
        raise AnalysisBroken('only %d public API functions found in %s' % (len(c), inc))
    prog._h14_public = c
    return c


def entry_points(prog, uncalled):
    """Everything that can be entered from outside with no library lock held: the public API, functions whose
    address is taken (handlers, method slots, thread bodies, atfork/signal handlers) and functions nobody
    calls (constructors, unused internals; `uncalled` = c14.roots_of)."""
    out = {f.q: f for f in uncalled}
    pub = public_api(prog)
    at = roles.address_taken(prog)
    for f in prog.all_funcs():
        if f.blocks and f.file.endswith('.c') and (f.q in pub or f.q in at):
            out.setdefault(f.q, f)
    return [out[q] for q in sorted(out)]


# --------------------------------------------------------------------------
# claims on a shared record (seeded round 3)
# --------------------------------------------------------------------------

def record_path(x, rec, al=None):
    """field path of an access path below the object of record type `rec` it goes through -- `pool->started_threads`:
    ('started_threads',), `pool->threads.started`: ('threads', 'started'), `(&pool->ev)->owner`: ('ev', 'owner') --
    or None.  Pointers to a part of the object that are held in alias locals (`int *n = &pool->started; (*n)--`) or
    left by the substitution of an address argument are followed; a cached value (`_was`) is not an access."""
    fields = []
    y = x
    n = 0
    while isinstance(y, dict) and n < 64:
        n += 1
        k = y.get('k')
        if y.get('_was') and k != 'addr':
            return None
        if k == 'member':
            if y.get('record') == rec:
                return (y['field'],) + tuple(reversed(fields))
            fields.append(y['field'])
            if y['arrow']:
                t = _alias_target(y['base'], al)
                if t is None:
                    return None
                y = t
            else:
                y = y['base']
        elif k == 'index':
            y = strip_load(y['base'])
        elif k == 'deref':
            t = _alias_target(y['e'], al)
            if t is None:
                return None
            y = t
        elif k in ('cast', 'load', 'paren'):
            y = y['e']
        else:
            return None
    return None


def step_of(e, rec, al=None):
    """(field path, 'up' | 'down') when the store event steps an integer inside an object of record `rec` by a
    constant: `x++`, `--x`, `x += 2`, `x -= 1`, `x = x - 1`; else None"""
    if e['ev'] != 'store':
        return None
    p = record_path(e['lhs'], rec, al)
    if p is None:
        return None
    op = e.get('op')
    if op in ('++', '--'):
        return p, ('up' if op == '++' else 'down')
    if op in ('+=', '-=') and 'rhs' in e:
        c = _intval(e['rhs'])
        if not c:
            return None
        return p, ('up' if (c > 0) == (op == '+=') else 'down')
    if op == '=' and 'rhs' in e:
        r = strip(e['rhs'])
        if isinstance(r, dict) and r.get('k') == 'load':
            r = strip(r['e'])
        if isinstance(r, dict) and r.get('k') == 'bin' and r.get('op') in ('+', '-'):
            c = _intval(r['r'])
            if c and record_path(r['l'], rec, al) == p:
                return p, ('up' if (c > 0) == (r['op'] == '+') else 'down')
            c = _intval(r['l'])
            if c and c > 0 and r['op'] == '+' and record_path(r['r'], rec, al) == p:
                return p, 'up'
    return None


def loc_order(loc):
    """sort key of a source location 'file:line:col'"""
    parts = str(loc or '').rsplit(':', 2)
    try:
        return (parts[0], int(parts[1]), int(parts[2]))
    except (IndexError, ValueError):
        return (str(loc), 0, 0)


def claim_regions(g, eff, L, steps):
    """May-analysis of what became of this thread's claim on a shared record.
    steps: {id(event): bool} the events that give the claim up (True: with the lock L held).
    State: set of ('open', step loc) -- the claim was given up and L was held without interruption since: the region
    in which it happened is still open, nobody can act on the released claim yet -- and ('closed', step loc, loc of
    the unlock) -- L was released since (or was not held at the step): the record may be gone.
    Returns {(b,i): state before the event}."""
    def tr(e, S):
        if id(e) in steps:
            keep = frozenset(x for x in S if x[0] == 'closed')
            if steps[id(e)]:
                return keep | {('open', e.get('loc'))}
            return keep | {('closed', e.get('loc'), None)}
        if S and any(op == 'unlock' and lid == L for (op, lid) in eff(e)):
            return frozenset(('closed', x[1], e.get('loc')) if x[0] == 'open' else x for x in S)
        return S
    _, ev_in = forward(g, frozenset(), tr, lambda a, b: a | b, edge=_pruned)
    return ev_in


# --------------------------------------------------------------------------
# must-facts carried through a local discriminator (iteration 5)
# --------------------------------------------------------------------------

def _const_values(x):
    """finite set of the integers an expression can evaluate to (constants, `c ? 2 : 3` with such arms), else None"""
    v = strip(x)
    if not isinstance(v, dict):
        return None
    if v.get('k') == 'paren' and 'e' in v:
        return _const_values(v['e'])
    c = _intval(v)
    if c is not None:
        return frozenset([c])
    if v.get('k') == 'cond':
        a, b = _const_values(v.get('a')), _const_values(v.get('b'))
        return (a | b) if a is not None and b is not None else None
    return None


def guarded_must(g, edge_facts, kills):
    """{(b,i): frozenset(facts)}: facts that hold on every path to the point.
    edge_facts(blk, succ index) -> facts a branch outcome establishes; kills(event) -> None | 'all' | set of facts that
    the event invalidates.  The analysis is path sensitive in the *local discriminators* of g: a decision that was
    taken where the fact was established may be recorded in a local integer (`kind = LOCAL;` ... `switch (kind)`,
    `if (kind == LOCAL)`) and acted upon later.  State = (facts, possible values of locals that only hold constants,
    conditional facts `v == c => F`).  At a join a conditional fact survives iff each side has it, or knows
    that v cannot be c there (vacuous), or holds F and v == c outright; an edge on which `v == c` is known to hold
    turns `v == c => F` into F.  This is the same necessary condition as the plain must-analysis ("the fact holds on
    every path that reaches the access") evaluated on the feasible paths only; a fact established on a path that
    does not determine the discriminator's value is lost as before."""
    taken = set()
    for e in g.events():
        for x in walk(e):
            if x.get('k') == 'addr':
                v = strip(x['e'])
                if isinstance(v, dict) and v.get('k') == 'var':
                    taken.add(v['name'])

    def local(x):
        v = strip(x)
        if isinstance(v, dict) and v.get('k') == 'var' and v.get('vk') not in ('global', 'staticlocal', 'func') \
                and v['name'] not in taken:
            return v['name']
        return None

    def sat(S):
        facts, vals, conds = S
        extra = {(v, next(iter(cs)), F) for (v, cs) in vals if len(cs) == 1 for F in facts}
        return conds | extra if extra else conds

    def ent(S, c):
        if c in S[2]:
            return True
        for (v, cs) in S[1]:
            if v == c[0]:
                return c[1] not in cs or (cs == frozenset([c[1]]) and c[2] in S[0])
        return False

    def join(a, b):
        if a == b:
            return a
        da, db = dict(a[1]), dict(b[1])
        vals = frozenset((v, da[v] | db[v]) for v in da if v in db)
        conds = frozenset(c for c in sat(a) | sat(b) if ent(a, c) and ent(b, c))
        return (a[0] & b[0], vals, conds)

    def setval(S, v, cs):
        vals = frozenset(x for x in S[1] if x[0] != v)
        if cs is not None:
            vals = vals | {(v, frozenset(cs))}
        return (S[0], vals, S[2])

    def tr(e, S):
        k = kills(e)
        if k == 'all':
            S = (frozenset(), S[1], frozenset())
        elif k:
            S = (S[0] - set(k), S[1], frozenset(c for c in S[2] if c[2] not in k))
        if e['ev'] == 'store':
            v = local(e['lhs'])
            if v is not None:
                # what was known under the old value of v stays known as plain facts only
                S = (S[0], S[1], frozenset(c for c in sat(S) if c[0] != v))
                S = setval(S, v, _const_values(e['rhs']) if e.get('op') == '=' and 'rhs' in e else None)
        return S

    def narrow(S, v, keep, eq=None):
        d = dict(S[1])
        if v not in d and eq is not None:
            d[v] = frozenset([eq])
        if v in d:
            cs = frozenset(c for c in d[v] if keep(c))
            if not cs:
                return None         # infeasible edge
            S = setval(S, v, cs)
            if len(cs) == 1:
                c0 = next(iter(cs))
                S = (S[0] | {c[2] for c in S[2] if c[0] == v and c[1] == c0}, S[1], S[2])
        return S

    CMP = {'==': lambda v, c: v == c, '!=': lambda v, c: v != c, '<': lambda v, c: v < c, '>': lambda v, c: v > c,
           '<=': lambda v, c: v <= c, '>=': lambda v, c: v >= c}

    def edge(blk, si, S):
        if not feasible_edge(blk, si):
            return None
        t = blk.term
        if not t or t.get('cond') is None or t.get('cls') == 'MethodDispatch':
            return S
        if t.get('cls') == 'SwitchStmt':
            cases = t.get('cases') or []
            v = local(t['cond'])
            if v is None or si >= len(cases):
                return S
            me = cases[si]
            if isinstance(me, int):
                return narrow(S, v, lambda c: c == me, eq=me)
            if me == 'default':
                ints = [c for c in cases if isinstance(c, int)]
                return narrow(S, v, lambda c: c not in ints)
            return S
        if len(blk.succ) != 2:
            return S
        S = (S[0] | frozenset(edge_facts(blk, si) or ()), S[1], S[2])
        for (op, lc, rc, l, r) in norm_cond(t['cond'], si == 0):
            if op not in CMP or not isinstance(l, dict):
                continue
            v = local(l)
            if v is None:
                continue
            try:
                c = int(rc)
            except ValueError:
                continue
            S = narrow(S, v, lambda x, op=op, c=c: CMP[op](x, c), eq=c if op == '==' else None)
            if S is None:
                return None
        return S
    _, ev_in = forward(g, (frozenset(), frozenset(), frozenset()), tr, join, edge=edge)
    return {k: v[0] for k, v in ev_in.items()}
