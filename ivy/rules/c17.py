"""C17 — iv_fd_pump relays the byte stream intact and reports its state truthfully.

Byte-stream equality over all chunkings is a value property: not decided.
"""
import itertools
from ..core import (names_of, same_value, AnalysisBroken, Inliner, canon, strip, last_member, must_pass, relpath, norm_cond, walk, forward)
from ..analyses import (is_call, holding, path_to, describe, exits_of, callback_kind, loops, innermost_loop, must_pass_from_block)
from .. import interp


def run(ctx):
    ctx.rule('R-C17a', 'EOF is relayed only after the buffer drained: shutdown(to_fd) and the final stage are on the bytes == 0 edge; '
                       'the intermediate stage is stored only when the input transfer returned 0', floor=5)
    ctx.rule('R-C17b', 'return code and bands are a total function of the state: over stage x full x bytes, input is wanted iff stage 0 and '
                       'not full, output iff data is buffered (stage 1 implies data), the call returns 0 exactly at the final stage; the '
                       'stages stored are exactly the stages handled', floor=12)
    ctx.rule('R-C17c', 'input is attempted only with room and before EOF, output only with data; full is cleared whenever data left the buffer', floor=3)
    ctx.rule('R-C17d', 'bounded transfer: the read targets buffer+bytes with length BUF_SIZE-bytes inside an allocation of at least '
                       'offset-of-buffer + BUF_SIZE; the write sends `bytes` bytes from the buffer base', floor=3)
    ctx.section(eof)
    ctx.section(state_function)
    ctx.section(guards)
    ctx.section(bounds)
    ctx.section(cache_clean)


def eof(ctx):
    prog = ctx.prog
    n = 0
    for fn in ('iv_fd_pump_try_input', 'iv_fd_pump_try_output'):
        f = prog.fn(fn)
        hd = holding(f)
        for e in f.events():
            fin = e['ev'] == 'store' and last_member(e['lhs']) == ('iv_fd_pump', 'saw_fin') and canon(e.get('rhs')) == '2'
            shut = is_call(e, 'shutdown')
            if not (fin or shut):
                continue
            n += 1
            A = hd.get((e['_b'], e['_i']), frozenset())
            ok = any(a[0] == '==' and a[2] == '0' and a[1].endswith('->bytes') for a in A)
            ctx.ob('R-C17a', '%s:%s-after-drain' % (fn, 'final-stage' if fin else 'shutdown'), ok, loc=e['loc'],
                   detail='%s is on the edge ip->bytes == 0' % describe(e), path=None if ok else path_to(f, e), fn=f.q)
            if shut:
                ok2 = canon(e['args'][0]).endswith('->to_fd') and any(a[0] == '!=' and 'flags &' in a[1] for a in A)
                ctx.ob('R-C17a', '%s:shutdown-output-when-requested' % fn, ok2, loc=e['loc'],
                       detail='the output descriptor is shut down only when RELAY_EOF was requested', fn=f.q)
    if n < 4:
        raise AnalysisBroken('EOF relay sites: %d found, 4 confirmed' % n)
    f = prog.fn('iv_fd_pump_try_input')
    hd = holding(f)
    s1 = [e for e in f.events() if e['ev'] == 'store' and last_member(e['lhs']) == ('iv_fd_pump', 'saw_fin') and canon(e.get('rhs')) == '1']
    ok = bool(s1)
    for e in s1:
        A = hd.get((e['_b'], e['_i']), frozenset())
        ok = ok and any(a[0] == '==' and a[2] == '0' and all(k[0] == 'var' for k in a[3]) for a in A)
    ctx.ob('R-C17a', 'try_input:eof-seen-on-zero-return', ok, loc=s1[0]['loc'] if s1 else f.loc,
           detail='stage 1 (EOF seen) is stored only on the edge where the input transfer returned 0', fn=f.q)
    # output side finishes only from stage 1
    g = prog.fn('iv_fd_pump_try_output')
    hd = holding(g)
    for e in g.events():
        if e['ev'] == 'store' and last_member(e['lhs']) == ('iv_fd_pump', 'saw_fin'):
            A = hd.get((e['_b'], e['_i']), frozenset())
            ctx.ob('R-C17a', 'try_output:finishes-only-after-eof', any(a[0] == '==' and a[1].endswith('->saw_fin') and a[2] == '1' for a in A), loc=e['loc'],
                   detail='the output side moves to the final stage only from stage 1', fn=g.q)


def state_function(ctx):
    prog = ctx.prog
    f = prog.fn('__iv_fd_pump_pump')
    sw = [b for b, blk in f.blocks.items() if blk.term and blk.term.get('cls') == 'SwitchStmt']
    ip = f.params[0]['name']
    if len(sw) != 1:
        # an if-chain instead of a switch: evaluate from the first block that tests saw_fin after the transfers
        cands = [b for b, blk in f.blocks.items() if blk.term and blk.term.get('cond') is not None and 'saw_fin' in canon(blk.term['cond'])
                 and not any(is_call(e, ('iv_fd_pump_try_input', 'iv_fd_pump_try_output')) for e in blk.events)]
        outs = [e for e in f.events() if is_call(e, 'iv_fd_pump_try_output')]
        reach = set()
        for o in outs:
            st = list(f.blocks[o['_b']].succ)
            while st:
                x = st.pop()
                if x in reach or x is None:
                    continue
                reach.add(x)
                st.extend(f.blocks[x].succ)
        cands = [b for b in cands if b in reach]
        if not cands:
            raise AnalysisBroken('__iv_fd_pump_pump: state dispatch not found')
        order = f.rpo()
        sw = [sorted(cands, key=lambda b: order.index(b))[0]]
    start = sw[0]
    stored = set()
    for fn in prog.all_funcs():
        for e in fn.events():
            if e['ev'] == 'store' and last_member(e['lhs']) == ('iv_fd_pump', 'saw_fin'):
                v = strip(e['rhs'])
                if v.get('k') != 'int':
                    raise AnalysisBroken('saw_fin stored a non-constant')
                stored.add(v['v'])
    for stage, full, data in itertools.product(sorted(stored), (False, True), (False, True)):
        if stage == 1 and not data:
            continue    # unreachable by R-C17a (stage 1 implies buffered data)
        asg = interp.Assignment(ints={'%s->saw_fin' % ip: stage}, bools={'%s->full' % ip: full, '%s->bytes' % ip: data})
        calls = []
        def cm(e, env, a):
            if e['ev'] == 'call' and callback_kind(e) == ('hook', 'pump hook'):
                calls.append((interp.evaluate(e['args'][1], a, env), interp.evaluate(e['args'][2], a, env)))
        try:
            res = interp.run(f, asg, start=start, call_model=cm)
        except AnalysisBroken as ex:
            ctx.ob('R-C17b', 'state(stage=%d,full=%d,data=%d)' % (stage, full, data), False, loc=f.loc, detail=str(ex), fn=f.q)
            continue
        want_in = int(stage == 0 and not full)
        want_out = int(data and stage <= 1)
        want_ret = 0 if stage == 2 else 1
        ok = res['end'] == 'ret' and len(calls) == 1 and (int(bool(calls[0][0])), int(bool(calls[0][1]))) == (want_in, want_out) and res['ret'] == want_ret
        ctx.ob('R-C17b', 'state(stage=%d,full=%d,data=%d)' % (stage, full, data), ok, loc=f.loc,
               detail='set_bands%s return %s (%s); expected set_bands(%d, %d) return %d' % (calls, res['ret'], res['end'], want_in, want_out, want_ret), fn=f.q)
    ctx.ob('R-C17b', 'stages-stored', stored == {0, 1, 2}, loc=f.loc, detail='constants ever stored into saw_fin: %s' % sorted(stored), fn=f.q)
    # error paths return -1 exactly when a transfer helper reported failure
    hd = holding(f)
    rets = [e for (pb, pi, e) in exits_of(f)]
    neg = [e for e in rets if canon(e.get('value')) == '-1']
    ok = bool(neg)
    for e in neg:
        A = hd.get((e['_b'], e['_i']), frozenset())
        ok = ok and any(a[0] == '!=' and a[2] == '0' and a[1].startswith('iv_fd_pump_try_') for a in A)
    ctx.ob('R-C17b', 'error-return-iff-transfer-failed', ok, loc=neg[0]['loc'] if neg else f.loc,
           detail='-1 is returned exactly on the failure edge of a transfer helper', fn=f.q)


def guards(ctx):
    prog = ctx.prog
    f = prog.fn('__iv_fd_pump_pump')
    hd = holding(f)
    ip = f.params[0]['name']
    ins = [e for e in f.events() if is_call(e, 'iv_fd_pump_try_input')]
    outs = [e for e in f.events() if is_call(e, 'iv_fd_pump_try_output')]
    if not ins or not outs:
        raise AnalysisBroken('pump: transfer helper calls not found')
    for e in ins:
        A = hd.get((e['_b'], e['_i']), frozenset())
        ok = any(a[0] == '==' and a[1] == '%s->full' % ip and a[2] == '0' for a in A) and any(a[0] == '==' and a[1] == '%s->saw_fin' % ip and a[2] == '0' for a in A)
        ctx.ob('R-C17c', 'input-only-with-room-before-eof', ok, loc=e['loc'], detail='try_input is on the edge !full && saw_fin == 0', fn=f.q)
    for e in outs:
        A = hd.get((e['_b'], e['_i']), frozenset())
        ok = any(a[0] == '!=' and a[1] == '%s->bytes' % ip and a[2] == '0' for a in A)
        ctx.ob('R-C17c', 'output-only-with-data', ok, loc=e['loc'], detail='try_output is on the edge bytes != 0', fn=f.q)
    g = prog.fn('iv_fd_pump_try_output')
    dec = [e for e in g.events() if e['ev'] == 'store' and last_member(e['lhs']) == ('iv_fd_pump', 'bytes') and e['op'] in ('-=', '--')]
    clr = must_pass(g, lambda e: e['ev'] == 'store' and last_member(e['lhs']) == ('iv_fd_pump', 'full') and canon(e.get('rhs')) == '0')
    okc = bool(dec)
    for d in dec:
        # full = 0 before or after the decrement, before return
        mp = must_pass(g, lambda e: e['ev'] == 'store' and last_member(e['lhs']) == ('iv_fd_pump', 'full') and canon(e.get('rhs')) == '0', start_event=d)
        after = all(mp.get((pb, pi), True) for (pb, pi, _) in exits_of(g))
        okc = okc and (bool(clr.get((d['_b'], d['_i']))) or after)
    ctx.ob('R-C17c', 'full-cleared-when-data-left', okc, loc=dec[0]['loc'] if dec else g.loc,
           detail='whenever bytes decreases, full is cleared on that path (input is wanted again)', fn=g.q)


def bounds(ctx):
    prog = ctx.prog
    f = prog.fn('iv_fd_pump_try_input')
    reads = [e for e in f.events() if is_call(e, 'read')]
    if not reads:
        raise AnalysisBroken('try_input: read not found')
    rec = prog.records.get('iv_fd_pump_buf')
    uoff = [x['offset'] for x in rec['fields'] if x['name'] == 'u'][0]
    for e in reads:
        dst, ln = strip(e['args'][1]), strip(e['args'][2])
        ok = dst.get('k') == 'bin' and dst['op'] == '+' and ln.get('k') == 'bin' and ln['op'] == '-' \
            and canon(dst['r']) == canon(ln['r']) and strip(ln['l']).get('k') == 'int' and last_member(dst['l']) is not None
        size = strip(ln['l'])['v'] if ok else None
        ctx.ob('R-C17d', 'read:offset+length==BUF_SIZE', ok, loc=e['loc'],
               detail='read(from, buffer + %s, %s - %s): destination offset plus length is the constant buffer size' % (
                   canon(dst['r']) if ok else '?', size, canon(ln['r']) if ok else '?'), fn=f.q)
        a = prog.fn('buf_alloc')
        sizes = [strip(s['rhs'])['v'] for s in a.events() if s['ev'] == 'store' and canon(s['lhs']) == 'size' and strip(s['rhs']).get('k') == 'int']
        hd = holding(a)
        nosplice = [s for s in a.events() if s['ev'] == 'store' and canon(s['lhs']) == 'size'
                    and any(x[0] == '==' and x[1] == 'splice_available' and x[2] == '0' for x in hd.get((s['_b'], s['_i']), frozenset()))]
        if prog.global_for('iv_fd_pump.c', 'splice_available') is None:
            # configuration without splice: the flag is the constant 0 and the other arm is not compiled in
            reach = a.reachable_blocks()
            nosplice = [s for s in a.events() if s['ev'] == 'store' and canon(s['lhs']) == 'size' and s['_b'] in reach]
        oka = ok and bool(nosplice) and all(strip(s['rhs']).get('k') == 'int' and strip(s['rhs'])['v'] >= uoff + size for s in nosplice)
        ctx.ob('R-C17d', 'alloc>=offset+BUF_SIZE', oka, loc=a.loc,
               detail='read/write mode allocates %s bytes >= %d (offset of the buffer) + %s' % ([strip(s['rhs']).get('v') for s in nosplice], uoff, size), fn=a.q)
    g = prog.fn('iv_fd_pump_try_output')
    # compaction: in read/write mode, once bytes were consumed the rest is moved to the buffer base on every path
    dec = [e for e in g.events() if e['ev'] == 'store' and last_member(e['lhs']) == ('iv_fd_pump', 'bytes') and e['op'] in ('-=', '--')]
    if prog.global_for('iv_fd_pump.c', 'splice_available') is not None:
        from ..analyses import force_edges
        def keep(blk, si, atoms):
            for (op, lc, rc, l, r) in atoms:
                if lc == 'splice_available' and rc == '0' and op in ('==', '!='):
                    return op == '=='
            return None
        gw = force_edges(g, keep)
    else:
        gw = g
    def compaction(e):
        if not is_call(e, ('memmove', 'memcpy')):
            return False
        d, s_, n_ = e['args'][0], strip(e['args'][1]), e['args'][2]
        return canon(d).endswith('u.buf') and s_.get('k') == 'bin' and s_['op'] == '+' and canon(s_['l']) == canon(d) \
            and last_member(n_) == ('iv_fd_pump', 'bytes')
    okc = bool(dec)
    for d in dec:
        mp = must_pass(gw, compaction, start_event=d)
        for (pb, pi, e) in exits_of(gw):
            if mp.get((pb, pi)) is False:
                okc = False
    ctx.ob('R-C17d', 'write:remainder-compacted', okc, loc=dec[0]['loc'] if dec else g.loc,
           detail='after a (partial) write in read/write mode the unsent remainder is moved to the buffer base (memmove(buf, buf + sent, bytes)) on every path: '
                  'the next write and the next read offset both assume it', fn=g.q)
    for e in [x for x in g.events() if is_call(x, 'write')]:
        ok = last_member(e['args'][2]) == ('iv_fd_pump', 'bytes') and canon(e['args'][1]).endswith('u.buf')
        ctx.ob('R-C17d', 'write:length-is-bytes-from-base', ok, loc=e['loc'],
               detail='write(to, %s, %s)' % (canon(e['args'][1]), canon(e['args'][2])), fn=g.q)


def cache_clean(ctx):
    """A buffer (in splice mode: a kernel pipe) goes back to the per-thread cache
    only if it is empty: buf_put is told the pump's true fill level."""
    prog = ctx.prog
    n = 0
    for f in sorted(prog.all_funcs(), key=lambda f: f.q):
        for e in [x for x in f.events() if is_call(x, 'buf_put')]:
            a = strip(e['args'][1])
            if last_member(a) != ('iv_fd_pump', 'bytes'):
                if a.get('k') == 'int' and a['v'] == 0 and f.name == 'check_splice_available':
                    continue
                n += 1
                ctx.ob('R-C17d', '%s:buf_put-fill-level' % f.name, False, loc=e['loc'],
                       detail='buf_put(%s) is not given the pump\'s fill level' % canon(e['args'][1]), fn=f.q)
                continue
            n += 1
            obj = canon(a['base'])
            def tr(x, s_, obj=obj):
                if x['ev'] == 'store' and last_member(x['lhs']) == ('iv_fd_pump', 'bytes') and canon(strip(x['lhs'])['base']) == obj:
                    return True
                return s_
            _, ev_in = forward(f, False, tr, lambda p, q: p or q)
            ok = not ev_in.get((e['_b'], e['_i']))
            ctx.ob('R-C17d', '%s:buf_put-fill-level' % f.name, ok, loc=e['loc'],
                   detail='buf_put(buf, %s->bytes): the fill level is not overwritten in this function before the buffer is handed back '
                          '(a non-empty splice pipe must be closed, not cached)' % obj, fn=f.q)
    if n < 2:
        raise AnalysisBroken('buf_put sites with a fill level: %d found' % n)
    b = prog.fn('buf_put')
    hd = holding(b)
    cache = [e for e in b.events() if is_call(e, ('iv_list_add', 'iv_list_add_tail'))]
    ok = bool(cache)
    for e in cache:
        A = hd.get((e['_b'], e['_i']), frozenset())
        # not (splice && bytes): reached only via the false edge of that conjunction => no must-atom; check the free arm instead
    fr = [e for e in b.events() if is_call(e, '__buf_free')]
    okf = False
    for e in fr:
        A = hd.get((e['_b'], e['_i']), frozenset())
        if any(a[0] == '!=' and a[1] == 'splice_available' for a in A) and any(a[0] == '!=' and a[1] == b.params[1]['name'] for a in A):
            okf = True
    if prog.global_for('iv_fd_pump.c', 'splice_available') is not None:
        ctx.ob('R-C17d', 'buf_put:dirty-splice-buffer-freed', okf, loc=b.loc,
               detail='in splice mode a buffer with bytes still in its pipe is released (pipe closed), never cached', fn=b.q)
