"""C13 — pool shutdown and iv_thread lifetime: drain, paired hooks, join, release."""
from ..core import (names_of, same_value, AnalysisBroken, Inliner, canon, strip, last_member, must_pass, relpath, norm_cond, walk, forward)
from ..analyses import (is_call, holding, path_to, describe, exits_of, callback_kind, loops, innermost_loop,
                        locksets, held, force_edges, list_empty_test, must_pass_from_block, atoms_reading)
from .c12 import lm_arg, per_iter_must, POOL

# embedded object record -> (register function, unregister/destroy function)
EMBEDDED = {
    'iv_event': ('iv_event_register', 'iv_event_unregister'),
    'iv_timer': ('iv_timer_register', 'iv_timer_unregister'),
    'iv_task': ('iv_task_register', 'iv_task_unregister'),
    'iv_fd': ('iv_fd_register', 'iv_fd_unregister'),
    'iv_wait_interest': ('iv_wait_interest_register', 'iv_wait_interest_unregister'),
    'iv_signal': ('iv_signal_register', 'iv_signal_unregister'),
    'iv_event_raw': ('iv_event_raw_register', 'iv_event_raw_unregister'),
    'pthread_mutex_t': ('___mutex_init', '___mutex_destroy'),
}
CONTAINER_EXEMPT = {
    ('__iv_work_thread_die', 'work_pool_thread', 'idle_timer'):
        'the idle timer is registered iff the thread is on the idle list (add/del are paired with register/unregister), and this '
        'function is fatal if the thread is still on that list',
    ('iv_work_start_thread', 'work_pool_thread', 'kick'): 'thread creation failed: the thread that would have registered its kick event never ran',
    ('iv_work_start_thread', 'work_pool_thread', 'idle_timer'): 'thread creation failed: nothing was registered',
    ('iv_popen_running_child_put', 'iv_popen_running_child', 'signal_timer'): 'checked by C19 (R-C19c)',
}


def run(ctx):
    ctx.rule('R-C13a', 'CONTAINER-FREE: a record embedding library objects is freed only after every embedded object that is '
                       'ever registered was unregistered (mutex: destroyed) on every path', floor=5)
    ctx.rule('R-C13b', 'the pool is freed only when drained: under shutting_down, with started_threads == 0 and the done queue empty, '
                       'both read under the pool lock; unlock precedes destroy precedes free', floor=4)
    ctx.rule('R-C13c', 'paired hooks and count: started_threads++ only after successful thread creation, -- only in the die function, '
                       'which calls thread_stop (if set) and posts the owner on the last-thread-while-shutting-down edge; thread_start precedes the first kick', floor=6)
    ctx.rule('R-C13d', 'release wakes idle workers: every idle thread is kicked inside the lock region; with no thread started the owner event is posted', floor=3)
    ctx.rule('R-C13e', 'join before release: the creator joins the thread before unlinking, unregistering and freeing its record; the '
                       'thread-exit destructor only posts', floor=4)
    ctx.rule('R-C13f', 'drain: a worker dies only when no work is queued (seq_head == seq_tail) resp. it was not kicked; while '
                       'work is queued a shutting-down pool keeps its workers', floor=2)
    ctx.section(drain)
    ctx.section(container_free)
    ctx.section(pool_free)
    ctx.section(hooks)
    ctx.section(put)
    ctx.section(threads)


def drain(ctx):
    prog = ctx.prog
    n = 0
    for f in sorted(prog.all_funcs(), key=lambda f: f.q):
        dies = [e for e in f.events() if is_call(e, '__iv_work_thread_die')]
        if not dies:
            continue
        hd = holding(f)
        for e in dies:
            n += 1
            A = hd.get((e['_b'], e['_i']), frozenset())
            empty = any(a[0] == '==' and {('work_pool_priv', 'seq_head'), ('work_pool_priv', 'seq_tail')} <= set(a[3]) for a in A)
            notkicked = any(a[0] == '==' and a[2] == '0' and ('work_pool_thread', 'kicked') in a[3] for a in A)
            ctx.ob('R-C13f', '%s:dies-only-when-drained' % f.name, empty or notkicked, loc=e['loc'],
                   detail='the worker exits on the edge %s' % ('seq_head == seq_tail' if empty else 'kicked == 0' if notkicked else
                                                              '(neither "queue empty" nor "not kicked" holds here: queued items would be dropped)'),
                   path=None if (empty or notkicked) else path_to(f, e), fn=f.q)
    if n < 2:
        raise AnalysisBroken('worker exit sites: %d found, 2 confirmed' % n)


def container_free(ctx, files=('iv_work.c', 'iv_thread_posix.c'), rid='R-C13a'):
    prog = ctx.prog
    # which (record, field) embedded objects are ever registered?
    registered = {}
    for f in prog.all_funcs():
        for e in f.events():
            if e['ev'] == 'call' and 'callee' in e:
                for rec, (reg, unreg) in EMBEDDED.items():
                    if e['callee'] == reg and e['args']:
                        lm = lm_arg(e, 0)
                        if lm:
                            registered.setdefault(lm, []).append((f, e))
    n = 0
    for f in sorted(prog.all_funcs(), key=lambda f: f.q):
        if not f.file.endswith(files):
            continue
        frees = [e for e in f.events() if is_call(e, 'free')]
        if not frees:
            continue
        g = None
        for fr in frees:
            a = strip(fr['args'][0])
            if not (isinstance(a, dict) and a.get('k') == 'var' and a.get('record')):
                continue
            rec = a['record']
            r = prog.records.get(rec)
            if not r or 'fields' not in r:
                continue
            emb = [(fl['name'], fl.get('record') or ('pthread_mutex_t' if 'mutex' in fl['type'] else None)) for fl in r['fields']]
            emb = [(n_, t) for (n_, t) in emb if t in EMBEDDED or (t == 'pthread_mutex_t')]
            emb = [(n_, 'pthread_mutex_t' if t not in EMBEDDED else t) for (n_, t) in emb]
            for (fld, t) in emb:
                if (rec, fld) not in registered:
                    continue
                n += 1
                inst = '%s:free(%s):%s.%s' % (f.name, a['name'], rec, fld)
                key = (f.name, rec, fld)
                if key in CONTAINER_EXEMPT:
                    ctx.exempt(rid, inst, CONTAINER_EXEMPT[key])
                    ctx.ob(rid, inst, True, loc=fr['loc'], detail='exempt: ' + CONTAINER_EXEMPT[key], fn=f.q)
                    continue
                reg, unreg = EMBEDDED[t]
                obj = a['name']
                target = '&%s->%s' % (obj, fld)
                local_reg = [e for e in f.events() if is_call(e, reg) and canon(e['args'][0]) == target]
                if local_reg:
                    # registered in this very function: needed only on paths on which the registration happened (and succeeded)
                    resvars = {canon(s_['lhs']) for s_ in f.events() if s_['ev'] == 'store' and 'rhs' in s_
                               and strip(s_['rhs']).get('k') == 'call' and strip(s_['rhs']).get('callee') == reg}
                    def tr(e, s_, unreg=unreg, target=target):
                        if e in local_reg:
                            return 'R'
                        if is_call(e, unreg) and canon(e['args'][0]) == target:
                            return 'N'
                        return s_
                    def edge(blk, si, s_, resvars=resvars):
                        if s_ == 'R' and blk.term and blk.term.get('cond') is not None and len(blk.succ) == 2:
                            for (op, lc, rc, l, r) in norm_cond(blk.term['cond'], si == 0):
                                if lc in resvars and rc == '0' and op in ('!=', '<', '>'):
                                    return 'N'     # the registration reported failure
                        return s_
                    def jn(a_, b_):
                        return 'R' if 'R' in (a_, b_) else 'N'
                    _, ev_in = forward(f, 'N', tr, jn, edge=edge)
                    ok = ev_in.get((fr['_b'], fr['_i'])) != 'R'
                else:
                    mp = must_pass(f, lambda e, unreg=unreg, target=target: is_call(e, unreg) and canon(e['args'][0]) == target)
                    ok = bool(mp.get((fr['_b'], fr['_i'])))
                ctx.ob(rid, inst, ok, loc=fr['loc'],
                       detail='%s(&%s->%s) on every path to this free' % (unreg, obj, fld), path=None if ok else path_to(f, fr), fn=f.q)
    if n < 4 and rid == 'R-C13a':
        raise AnalysisBroken('container frees with registered embedded objects: %d found' % n)


def pool_free(ctx):
    prog = ctx.prog
    f = prog.fn('iv_work_event')
    frees = [e for e in f.events() if is_call(e, 'free') and strip(e['args'][0]).get('record') == 'work_pool_priv']
    if not frees:
        raise AnalysisBroken('pool free not found')
    hd = holding(f)
    ls = locksets(f)
    for fr in frees:
        A = hd.get((fr['_b'], fr['_i']), frozenset())
        sd = any(a[0] == '!=' and a[2] == '0' and ('work_pool_priv', 'shutting_down') in a[3] for a in A)
        ctx.ob('R-C13b', 'pool-free:shutting-down', sd, loc=fr['loc'], detail='free(pool) only on the shutting_down edge', fn=f.q)
        # the drained tests: blocks whose condition reads started_threads / work_done, evaluated under the lock, dominating the free
        conds = {'started_threads': False, 'work_done': False}
        for b, blk in f.blocks.items():
            if not (blk.term and blk.term.get('cond') is not None and len(blk.succ) == 2):
                continue
            for si in (0, 1):
                for at in norm_cond(blk.term['cond'], si == 0):
                    (op, lc, rc, l, r) = at
                    from ..analyses import edge_dominates
                    which = None
                    if last_member(l) == ('work_pool_priv', 'started_threads') and op == '==' and rc == '0':
                        which = 'started_threads'
                    if list_empty_test(at, member_key=('work_pool_priv', 'work_done')) == 'empty':
                        which = 'work_done'
                    if which and edge_dominates(f, b, si, fr['_b']):
                        locked = POOL in held(ls.get((b, len(blk.events))))
                        conds[which] = locked
        ctx.ob('R-C13b', 'pool-free:no-threads', conds['started_threads'], loc=fr['loc'],
               detail='free(pool) is dominated by started_threads == 0 read under the pool lock', fn=f.q)
        ctx.ob('R-C13b', 'pool-free:done-queue-empty', conds['work_done'], loc=fr['loc'],
               detail='free(pool) is dominated by an emptiness test of work_done read under the pool lock', fn=f.q)
        mpu = must_pass(f, lambda e: is_call(e, '___mutex_destroy') and lm_arg(e, 0) == ('work_pool_priv', 'lock'))
        unl = not held(ls.get((fr['_b'], fr['_i'])))
        des = [e for e in f.events() if is_call(e, '___mutex_destroy')]
        ok = bool(mpu.get((fr['_b'], fr['_i']))) and unl and all(POOL not in held(ls.get((e['_b'], e['_i']))) for e in des)
        ctx.ob('R-C13b', 'pool-free:unlock-destroy-free', ok, loc=fr['loc'],
               detail='the lock is released, then destroyed, then the pool is freed', fn=f.q)


def hooks(ctx):
    prog = ctx.prog
    f = prog.fn('iv_work_start_thread')
    hd = holding(f)
    inc = [e for e in f.events() if e['ev'] == 'store' and last_member(e['lhs']) == ('work_pool_priv', 'started_threads') and e['op'] == '++']
    cr = [e for e in f.events() if is_call(e, 'iv_thread_create')]
    if not inc or not cr:
        raise AnalysisBroken('start_thread: count or creation not found')
    for e in inc:
        A = hd.get((e['_b'], e['_i']), frozenset())
        ok = any(a[0] in ('>=', '==') and a[2] == '0' and all(k[0] == 'var' for k in a[3]) for a in A)
        mp = must_pass(f, lambda x: x in cr)
        ctx.ob('R-C13c', 'start:count-after-success', ok and bool(mp.get((e['_b'], e['_i']))), loc=e['loc'],
               detail='started_threads++ on the success edge of iv_thread_create', fn=f.q)
    ws = {(fn.name, e['op']) for (fn, e) in prog.writers_of('work_pool_priv', 'started_threads')}
    ctx.ob('R-C13c', 'started_threads:writers', ws == {('iv_work_start_thread', '++'), ('__iv_work_thread_die', '--'), ('iv_work_pool_create', '=')}, loc=f.loc,
           detail='writers: %s' % sorted(ws), fn=f.q)
    d = prog.fn('__iv_work_thread_die')
    dec = [e for e in d.events() if e['ev'] == 'store' and last_member(e['lhs']) == ('work_pool_priv', 'started_threads') and e['op'] == '--']
    stop = [e for e in d.events() if e['ev'] == 'call' and last_member(e.get('fnexpr')) == ('work_pool_priv', 'thread_stop')]
    # thread_stop on every path unless the NULL edge
    def tr(e, s):
        return True if e in stop else s
    def edge(blk, si, s):
        if blk.term and blk.term.get('cond') is not None and len(blk.succ) == 2:
            for (op, lc, rc, l, r) in norm_cond(blk.term['cond'], si == 0):
                if op == '==' and rc == '0' and last_member(l) == ('work_pool_priv', 'thread_stop'):
                    return True
        return s
    _, ev_in = forward(d, False, tr, lambda a, b: a and b, edge=edge)
    ctx.ob('R-C13c', 'die:thread_stop-called', bool(ev_in.get((d.exit, 0))) and len(stop) == 1 and len(dec) == 1, loc=d.loc,
           detail='every worker that dies calls thread_stop exactly once (if set) and drops the count once', fn=d.q)
    # last thread while shutting down posts the owner
    post = [e for e in d.events() if is_call(e, 'iv_event_post') and lm_arg(e, 0) == ('work_pool_priv', 'ev')]
    okp = False
    for b, blk in d.blocks.items():
        if blk.term and blk.term.get('cond') is not None and len(blk.succ) == 2:
            for si in (0, 1):
                for (op, lc, rc, l, r) in norm_cond(blk.term['cond'], si == 0):
                    if last_member(l) == ('work_pool_priv', 'started_threads') and op == '==' and rc == '0':
                        mp = must_pass_from_block(d, blk.succ[si], lambda e: e in post)
                        A = holding(d).get((blk.id, len(blk.events)), frozenset())
                        sd = any(a[0] == '!=' and ('work_pool_priv', 'shutting_down') in a[3] for a in A)
                        okp = bool(mp.get((d.exit, 0))) and sd
    ctx.ob('R-C13c', 'die:last-thread-posts-owner', okp, loc=d.loc,
           detail='on the shutting_down && started_threads == 0 edge the pool event is posted so the owner can free the pool', fn=d.q)
    # the count is dropped after the kick event was unregistered and before the post
    mp = must_pass(d, lambda e: e in dec)
    ctx.ob('R-C13c', 'die:count-before-post', all(mp.get((e['_b'], e['_i'])) for e in post) and bool(post), loc=d.loc,
           detail='started_threads-- precedes the owner notification', fn=d.q)
    # who calls die: only with the pool lock held (C14) ; here: thread_start precedes the first kick in the worker
    w = prog.fn('iv_work_thread')
    start = [e for e in w.events() if e['ev'] == 'call' and last_member(e.get('fnexpr')) == ('work_pool_priv', 'thread_start')]
    kicks = [e for e in w.events() if is_call(e, 'iv_event_post') and lm_arg(e, 0) == ('work_pool_thread', 'kick')]
    mains = [e for e in w.events() if is_call(e, 'iv_main')]
    if not kicks or not mains:
        raise AnalysisBroken('worker entry: first kick / iv_main not found')
    def tr2(e, s):
        return True if e in start else s
    def edge2(blk, si, s):
        if blk.term and blk.term.get('cond') is not None and len(blk.succ) == 2:
            for (op, lc, rc, l, r) in norm_cond(blk.term['cond'], si == 0):
                if op == '==' and rc == '0' and last_member(l) == ('work_pool_priv', 'thread_start'):
                    return True
        return s
    _, ev2 = forward(w, False, tr2, lambda a, b: a and b, edge=edge2)
    ctx.ob('R-C13c', 'worker:thread_start-before-first-kick', all(ev2.get((e['_b'], e['_i'])) for e in kicks + mains), loc=kicks[0]['loc'],
           detail='thread_start (if set) runs before the worker can pick up any work', fn=w.q)


def put(ctx):
    prog = ctx.prog
    f = prog.fn('iv_work_pool_put')
    ls = locksets(f)
    sd = [e for e in f.events() if e['ev'] == 'store' and last_member(e['lhs']) == ('work_pool_priv', 'shutting_down') and canon(e.get('rhs')) == '1']
    ctx.ob('R-C13d', 'put:shutting_down-under-lock', bool(sd) and all(POOL in held(ls.get((e['_b'], e['_i']))) for e in sd),
           loc=sd[0]['loc'] if sd else f.loc, detail='shutting_down = 1 stored under the pool lock', fn=f.q)
    kicks = [e for e in f.events() if is_call(e, 'iv_event_post') and lm_arg(e, 0) == ('work_pool_thread', 'kick')]
    lps = loops(f)
    okk = bool(kicks)
    for k in kicks:
        h = innermost_loop(f, k['_b'], lps)
        okk = okk and h is not None and POOL in held(ls.get((k['_b'], k['_i'])))
        # the loop walks the idle list
        walked = any(last_member(x) == ('work_pool_priv', 'idle_threads') for b in lps.get(h, ()) for e in f.blocks[b].events for x in walk(e) if x.get('k') == 'member') \
            or any(last_member(x) == ('work_pool_priv', 'idle_threads') for e in f.events() for x in walk(e) if x.get('k') == 'member')
        okk = okk and walked
    ctx.ob('R-C13d', 'put:idle-workers-kicked', okk, loc=kicks[0]['loc'] if kicks else f.loc,
           detail='every thread on the idle list is posted its kick inside the lock region', fn=f.q)
    post = [e for e in f.events() if is_call(e, 'iv_event_post') and lm_arg(e, 0) == ('work_pool_priv', 'ev')]
    okp = False
    for b, blk in f.blocks.items():
        if blk.term and blk.term.get('cond') is not None and len(blk.succ) == 2:
            for si in (0, 1):
                for (op, lc, rc, l, r) in norm_cond(blk.term['cond'], si == 0):
                    if last_member(l) == ('work_pool_priv', 'started_threads') and op == '==' and rc == '0':
                        mp = must_pass_from_block(f, blk.succ[si], lambda e: e in post)
                        pts = [(pb, pi) for (pb, pi, _) in exits_of(f)] + [(f.exit, 0)]
                        okp = all(mp.get(p, True) for p in pts)
    ctx.ob('R-C13d', 'put:no-threads-posts-owner', okp, loc=post[0]['loc'] if post else f.loc,
           detail='with no worker started the owner\'s pool event is posted so the pool is freed from the loop', fn=f.q)
    pv = [e for e in f.events() if e['ev'] == 'store' and last_member(e['lhs']) == ('iv_work_pool', 'priv') and canon(e.get('rhs')) in ('NULL', '0')]
    ctx.ob('R-C13d', 'put:handle-detached', bool(pv), loc=pv[0]['loc'] if pv else f.loc,
           detail='this->priv = NULL: the caller may reuse the pool structure immediately', fn=f.q)


def threads(ctx):
    prog = ctx.prog
    f = prog.fn('iv_thread_died')
    join = [e for e in f.events() if is_call(e, 'pthr_join')]
    if not join:
        raise AnalysisBroken('iv_thread_died: join not found')
    mp = must_pass(f, lambda e: e in join)
    for what, pred in (('unlink', lambda e: is_call(e, ('iv_list_del', 'iv_list_del_init')) and lm_arg(e, 0) == ('iv_thread', 'list')),
                       ('event-unregister', lambda e: is_call(e, 'iv_event_unregister') and lm_arg(e, 0) == ('iv_thread', 'dead')),
                       ('free', lambda e: is_call(e, 'free') and strip(e['args'][0]).get('record') == 'iv_thread')):
        evs = [e for e in f.events() if pred(e)]
        ctx.ob('R-C13e', 'died:join-before-%s' % what, bool(evs) and all(mp.get((e['_b'], e['_i'])) for e in evs), loc=evs[0]['loc'] if evs else f.loc,
               detail='pthr_join precedes the %s of the thread record' % what, fn=f.q)
    d = prog.fn('iv_thread_destructor')
    eff = [e for e in d.events() if (e['ev'] == 'store' and not (strip(e['lhs']).get('k') == 'var' and strip(e['lhs']).get('vk') == 'local'))
           or (e['ev'] == 'call' and e.get('callee') not in ('fprintf',))]
    ok = len(eff) == 1 and is_call(eff[0], 'iv_event_post') and lm_arg(eff[0], 0) == ('iv_thread', 'dead')
    ctx.ob('R-C13e', 'destructor:only-posts', ok, loc=d.loc,
           detail='the thread-exit destructor\'s only effect on shared state is posting the dead event: %s' % [describe(e) for e in eff], fn=d.q)
    # creation: the record is linked and the dead event registered before the thread can die
    c = prog.fn('iv_thread_create')
    cr = [e for e in c.events() if is_call(e, 'pthr_create')]
    reg = must_pass(c, lambda e: is_call(e, 'iv_event_register') and lm_arg(e, 0) == ('iv_thread', 'dead'))
    ctx.ob('R-C13e', 'create:dead-event-registered-first', bool(cr) and all(reg.get((e['_b'], e['_i'])) for e in cr), loc=cr[0]['loc'] if cr else c.loc,
           detail='the dead event (which keeps the creator\'s iv_main alive) is registered before the thread is created', fn=c.q)
    # key destructor registered
    k = prog.fn('iv_thread_allocate_key')
    kc = [e for e in k.events() if is_call(e, 'pthr_key_create')]
    ctx.ob('R-C13e', 'destructor:registered', bool(kc) and all(canon(e['args'][1]) == 'iv_thread_destructor' for e in kc), loc=k.loc,
           detail='iv_thread_destructor is the thread key destructor, so it runs however the thread exits', fn=k.q)
    h = prog.fn('iv_thread_handler')
    sp = [e for e in h.events() if is_call(e, 'pthr_setspecific')]
    body = [e for e in h.events() if e['ev'] == 'call' and last_member(e.get('fnexpr')) == ('iv_thread', 'start_routine')]
    mps = must_pass(h, lambda e: e in sp)
    ctx.ob('R-C13e', 'handler:key-set-before-body', bool(body) and all(mps.get((e['_b'], e['_i'])) for e in body), loc=h.loc,
           detail='the thread key is set (arming the destructor) before the user routine runs', fn=h.q)
