"""C15 — poll method, interrupted waits, missing syscalls do not change behaviour.

"Same observable behaviour" is not decided.  Claimed: vtable completeness,
fallback compatibility, EINTR discipline, ENOSYS fallbacks, exclusion list.
"""
from ..core import (names_of, same_value, AnalysisBroken, Inliner, canon, strip, last_member, must_pass, relpath, norm_cond, walk, forward)
from ..analyses import (is_call, holding, path_to, describe, exits_of, callback_kind, loops, innermost_loop,
                        delta_analysis, is_fail, must_pass_from_block, locksets, held, SIGBLOCK)

MANDATORY = ('name', 'init', 'poll', 'notify_fd', 'notify_fd_sync', 'deinit')
PARTNERS = [('set_poll_timeout', 'clear_poll_timeout'), ('event_rx_on', 'event_rx_off', 'event_send')]
SAME_ON_FALLBACK = ('init', 'deinit', 'register_fd', 'unregister_fd', 'notify_fd', 'notify_fd_sync', 'event_rx_on', 'event_rx_off', 'event_send')
WAITS = ('poll', 'ppoll', 'epoll_wait', 'epoll_pwait2')
INTERRUPTIBLE = ('read', 'write', 'splice', 'epoll_ctl', 'poll', 'ppoll', 'epoll_wait', 'epoll_pwait2')
EINTR = '4'

EINTR_EXEMPT = {
    ('check_splice_available', 'splice'): 'probe on fresh non-blocking pipes: any failure means "unavailable"',
    ('iv_fd_epoll_create_active_fd', 'write'): 'priming write on a fresh eventfd cannot block; any short/failed write is fatal',
    ('iv_fd_epoll_timerfd_poll', 'read'): 'non-blocking timer descriptor that epoll just reported readable; errors are fatal',
    ('fallback_spin_lock', 'read'): 'blocking token read; every caller has all signals blocked (R-C10c), so it cannot be interrupted by a handler of this process',
}


def eintr_retried(f, call):
    """The call is inside a loop whose back edge is taken only when the call's
    result is negative and errno == EINTR."""
    lps = loops(f)
    h = innermost_loop(f, call['_b'], lps)
    if h is None:
        return False
    body = lps[h]
    rv = None
    for s in f.events():
        if s['ev'] == 'store' and 'rhs' in s and s['_b'] == call['_b']:
            r = strip(s['rhs'])
            if isinstance(r, dict) and r.get('k') == 'call' and r.get('loc') == call.get('loc'):
                rv = canon(s['lhs'])
    if rv is None:
        return False
    hd = holding(f)
    ok = False
    for b in body:
        blk = f.blocks[b]
        for si, s_ in enumerate(blk.succ):
            if s_ == h or (s_ in body and _leads_only_to(f, s_, h, body)):
                pass
    # every back edge into the header carries (rv < 0) and (errno == EINTR)
    backs = [(b, si) for b in body for si, s_ in enumerate(f.blocks[b].succ) if s_ == h]
    if not backs:
        return False
    for (b, si) in backs:
        A = set(hd.get((b, len(f.blocks[b].events)), frozenset()))
        blk = f.blocks[b]
        if blk.term and blk.term.get('cond') is not None and len(blk.succ) == 2:
            for at in norm_cond(blk.term['cond'], si == 0):
                A.add((at[0], at[1], at[2], frozenset()))
        neg = any(a[1] == rv and ((a[0] == '<' and a[2] == '0') or (a[0] == '==' and a[2] == '-1')) for a in A)
        eintr = any(a[0] == '==' and '__errno_location' in a[1] and a[2] == EINTR for a in A)
        if not (neg and eintr):
            return False
    return True


def _leads_only_to(f, s, h, body):
    return False


def run(ctx):
    ctx.rule('R-C15a', 'vtable completeness: every method table defines the mandatory slots; optional slots are defined together with '
                       'their partners; every call through an optional slot is dominated by a NULL test of it or its partner', floor=12)
    ctx.rule('R-C15b', 'fallback compatibility: a mid-run store to `method` assigns a table whose state-bearing slots are the same '
                       'functions as those of every table from whose slots the store is reachable; the switching function still waits / reports not-armed', floor=4)
    ctx.rule('R-C15c', 'EINTR discipline: wait primitives return to the loop (non-zero, time cache invalidated) on EINTR; every other '
                       'interruptible call is retried while it fails with EINTR, or is tabled with a reason', floor=20)
    ctx.rule('R-C15d', 'ENOSYS fallbacks reach their alternative in the same invocation and demote their one-way flag', floor=6)
    ctx.rule('R-C15e', 'exclusion list: every candidate method is considered through the same exclusion test with the same list; failure to '
                       'initialise any method is the only fatal outcome', floor=4)
    ctx.rule('R-C15f', 'a mid-run fallback is honoured by the caller: the result of arming the kernel timer is propagated and a "not armed" '
                       'answer makes the loop wait with the deadline itself (shared with C04 R-C04f)', floor=3)
    ctx.section(lambda c: __import__('ivy.rules.c04', fromlist=['x']).keep_armed(c, 'R-C15f'))
    ctx.section(vtable)
    ctx.section(fallbacks)
    ctx.section(eintr)
    ctx.section(enosys)
    ctx.section(exclusion)


def vtable(ctx):
    prog = ctx.prog
    tables = prog.method_tables()
    if len(tables) < 4:
        raise AnalysisBroken('method tables: %d found, 4 confirmed' % len(tables))
    for t, slots in sorted(tables.items()):
        miss = [s for s in MANDATORY if not slots.get(s)]
        ctx.ob('R-C15a', '%s:mandatory' % t, not miss, loc=prog.globals[t]['loc'], detail='missing mandatory slots: %s' % (miss or 'none'))
        for grp in PARTNERS:
            have = [bool(slots.get(s)) for s in grp]
            ctx.ob('R-C15a', '%s:partners(%s)' % (t, '/'.join(grp)), all(have) or not any(have), loc=prog.globals[t]['loc'],
                   detail='defined: %s' % dict(zip(grp, have)))
    optional = [s for s in list(tables.values())[0] if s not in MANDATORY]
    partner_of = {}
    for grp in PARTNERS:
        for s in grp:
            partner_of[s] = set(grp)
    never_null = {s for s in optional if all(t.get(s) for t in tables.values())}
    n = 0
    for f in sorted(prog.all_funcs(), key=lambda f: f.q):
        sites = [e for e in f.events() if e['ev'] == 'call' and (callback_kind(e) or ('', ''))[0] == 'method' and callback_kind(e)[1] in optional]
        if not sites:
            continue
        # inline into callers to see guards placed there (event_rx_off / event_send wrappers)
        for cs in sites:
            slot = callback_kind(cs)[1]
            n += 1
            if slot in never_null:
                ctx.ob('R-C15a', '%s:call %s' % (f.name, slot), True, loc=cs['loc'], detail='slot is defined in every table', fn=f.q)
                continue
            ok = _guarded(prog, f, cs, partner_of.get(slot, {slot}), slot=slot)
            ctx.ob('R-C15a', '%s:call %s' % (f.name, slot), ok, loc=cs['loc'],
                   detail='call through optional slot `%s` is dominated by a non-NULL test of %s (here or in every caller)' % (slot, sorted(partner_of.get(slot, {slot}))), fn=f.q)
    if n < 6:
        raise AnalysisBroken('optional slot call sites: %d' % n)


def _guarded(prog, f, cs, slots, depth=0, slot=None):
    hd = holding(f, user_call_kills=False)
    A = hd.get((cs['_b'], cs['_i']), frozenset())
    for a in A:
        if a[0] == '!=' and a[2] == '0' and any(('iv_fd_poll_method', s) in a[3] for s in slots):
            return True
    # a successful earlier call of a partner in the same thread implies the group exists: accept guards in all callers
    if depth >= 3:
        return False
    callers = prog.callers_of(f.name)
    callers = [(c, e) for c, e in callers if prog.resolve(prog.unit_of(c), f.name) is f or not f.static]
    if not callers:
        return False
    for c, e in callers:
        if not _guarded(prog, c, e, slots, depth + 1, slot=slot):
            # state-based implication: event_rx_off / event_send run only while the kick mode is the method's
            # (iv_event_use_event_raw == 0), which is only possible if event_rx_on existed and succeeded
            hc = holding(c, user_call_kills=False).get((e['_b'], e['_i']), frozenset())
            if slot != 'event_rx_on' and any(a[1] == 'iv_event_use_event_raw' and a[0] == '==' and a[2] == '0' for a in hc):
                continue
            return False
    return True


def fallbacks(ctx):
    prog = ctx.prog
    tables = prog.method_tables()
    stores = []
    for f in prog.all_funcs():
        for e in f.events():
            if e['ev'] == 'store' and strip(e['lhs']).get('k') == 'var' and strip(e['lhs'])['name'] == 'method' and strip(e['lhs']).get('vk') == 'global':
                stores.append((f, e))
    mid = [(f, e) for f, e in stores if strip(e['rhs']).get('k') == 'addr']
    if len(mid) < 2:
        raise AnalysisBroken('mid-run method fallbacks: %d found, 2 confirmed' % len(mid))
    for f, e in mid:
        target = strip(strip(e['rhs'])['e'])['name']
        if target not in tables:
            ctx.ob('R-C15b', '%s:target' % f.name, False, loc=e['loc'], detail='fallback target %s is not a method table' % target, fn=f.q)
            continue
        srcs = [t for t, slots in tables.items() if any(v and v[0] != 'str' and v[1] == f.name for v in slots.values())]
        if not srcs:
            ctx.ob('R-C15b', '%s:source' % f.name, False, loc=e['loc'], detail='function storing `method` is not itself a method slot', fn=f.q)
            continue
        for s in srcs:
            diff = [k for k in SAME_ON_FALLBACK if tables[s].get(k) != tables[target].get(k)]
            ctx.ob('R-C15b', '%s:%s->%s' % (f.name, s.replace('iv_fd_poll_method_', ''), target.replace('iv_fd_poll_method_', '')), not diff, loc=e['loc'],
                   detail='state-bearing slots that differ: %s' % (diff or 'none (registered interests, notify lists and descriptors stay valid)'), fn=f.q)
        # the switching function still performs the wait / reports not armed
        slotname = [k for k, v in tables[srcs[0]].items() if v and v[0] != 'str' and v[1] == f.name][0]
        hd = holding(f)
        if slotname == 'poll':
            tgt_poll = tables[target]['poll'][1]
            mp = must_pass(f, lambda x: is_call(x, tgt_poll), start_event=e)
            ok = all(mp.get((pb, pi), True) for (pb, pi, _) in exits_of(f))
            ctx.ob('R-C15b', '%s:still-waits' % f.name, ok, loc=e['loc'], detail='after switching, the call falls through to %s in the same invocation' % tgt_poll, fn=f.q)
        else:
            rets = [x for (pb, pi, x) in exits_of(f) if must_pass(f, lambda y: y is e).get((pb, pi))]
            ok = bool(rets) and all(canon(x.get('value')) == '0' for x in rets)
            ctx.ob('R-C15b', '%s:reports-not-armed' % f.name, ok, loc=e['loc'], detail='after switching it returns 0, so the caller waits with the deadline itself', fn=f.q)


def eintr(ctx):
    prog = ctx.prog
    n = 0
    for f in sorted(prog.all_funcs(), key=lambda f: f.q):
        calls = [e for e in f.events() if e['ev'] == 'call' and e.get('callee') in INTERRUPTIBLE]
        if not calls:
            continue
        for c in calls:
            n += 1
            nm = c['callee']
            inst = '%s:%s' % (f.name, nm)
            zero_timeout = nm == 'poll' and canon(c['args'][2]) == '0'
            if nm in WAITS and not zero_timeout:
                # wait primitive: handled where its result is interpreted (possibly a caller after inlining)
                ok = _wait_eintr(prog, f, c)
                ctx.ob('R-C15c', inst + ':wait', ok, loc=c['loc'],
                       detail='on EINTR the poll slot returns non-zero to the loop (timers re-evaluated) instead of failing or spinning', fn=f.q)
                continue
            if (f.name, nm) in EINTR_EXEMPT:
                ctx.exempt('R-C15c', inst, EINTR_EXEMPT[(f.name, nm)])
                ctx.ob('R-C15c', inst, True, loc=c['loc'], detail='exempt: ' + EINTR_EXEMPT[(f.name, nm)], fn=f.q)
                continue
            ok = eintr_retried(f, c)
            ctx.ob('R-C15c', inst + '@' + canon(c['args'][0])[:24], ok, loc=c['loc'],
                   detail='%s is retried while it returns < 0 with errno == EINTR' % nm, fn=f.q)
    if n < 22:
        raise AnalysisBroken('interruptible call sites: %d found, 25 confirmed' % n)
    # the fallback spinlock exemption rests on signals being blocked at every acquisition of sig_lock (other than in the handler)
    from .c14 import roots_of
    bad = []
    for r in roots_of(prog):
        if r.name == 'iv_signal_handler':
            continue
        g = Inliner(prog, expand_methods=True).inline(r)
        ls = locksets(g)
        for e in g.events():
            if is_call(e, 'spin_lock') and canon(e['args'][0]) == '&sig_lock':
                if SIGBLOCK not in held(ls.get((e['_b'], e['_i']))):
                    bad.append((r, e))
    ctx.ob('R-C15c', 'fallback_spin_lock:precondition', not bad, loc=bad[0][1]['loc'] if bad else prog.fn('iv_signal_register').loc,
           detail='every spin_lock(&sig_lock) outside the signal handler runs with all signals blocked')


def _wait_eintr(prog, f, c):
    """Find the poll slot(s) that interpret this wait's result and check the EINTR arm."""
    tables = prog.method_tables()
    ok_all = True
    seen = False
    for t, slots in tables.items():
        pf = prog.resolve(*slots['poll'])
        g = Inliner(prog, method_table=t, expand_methods=True, stop=lambda x: x.name in ('iv_event_run_pending_events', 'iv_fd_make_ready')).inline(pf)
        sites = [e for e in g.events() if e['ev'] == 'call' and e.get('callee') == c['callee'] and e.get('loc') == c['loc']]
        if not sites:
            continue
        seen = True
        hd = holding(g)
        # returns reached with errno == EINTR known: must be non-zero constant or the run_timers flag
        res = delta_analysis(g, [], init_env={pf.params[2]['name']: 'nz'}, extra_relevant=[pf.params[2]['name']], root_only_rets=False)
        after = set()
        st_ = [x['_b'] for x in sites]
        while st_:
            x = st_.pop()
            if x in after or x is None:
                continue
            after.add(x)
            st_.extend(g.blocks[x].succ)
        eintr_rets = 0
        for (e, d, rc, p) in res.rets:
            A = hd.get((e['_b'], e['_i']), frozenset())
            if e['_b'] in after and any(a[0] == '==' and '__errno_location' in a[1] and a[2] == EINTR for a in A):
                eintr_rets += 1
                if not ((isinstance(rc, tuple) and rc[1] != 0) or rc == 'nz'):
                    ok_all = False
        if eintr_rets == 0:
            ok_all = False      # no arm returns to the loop on EINTR
        # and no fatal on EINTR: a fatal block reached only with errno != EINTR
        for b, blk in g.blocks.items():
            if blk.noreturn:
                A = hd.get((b, 0), frozenset())
                if any(a[0] == '==' and '__errno_location' in a[1] and a[2] == EINTR for a in A):
                    ok_all = False
    return seen and ok_all


def enosys(ctx):
    prog = ctx.prog
    PAIRS = [
        ('epollfd_grab', ('epoll_create1', 'syscall'), ('epoll_create',), 'epoll_support'),
        ('iv_fd_epoll_wait', ('epoll_pwait2',), ('epoll_wait',), 'epoll_pwait2_support'),
        ('eventfd_grab', ('syscall', 'eventfd'), None, 'eventfd_in_use'),
        ('iv_fd_poll_ppoll', ('ppoll',), ('iv_fd_poll_poll',), 'method'),
        ('iv_event_raw_register', ('eventfd_grab',), ('pipe',), None),
        ('iv_fd_epoll_timerfd_set_poll_timeout', ('iv_fd_epoll_timerfd_create',), None, 'method'),
    ]
    for (fn, prim, alt, flag) in PAIRS:
        if not prog.has_fn(fn):
            continue
        f = prog.fn(fn)
        prims = [e for e in f.events() if is_call(e, prim)]
        if not prims:
            raise AnalysisBroken('%s: primary call %s not found' % (fn, prim))
        hd = holding(f)
        # blocks reached with errno == ENOSYS known (or, for wrappers, the -ENOSYS / zero result edge)
        demote = [e for e in f.events() if flag and e['ev'] == 'store' and strip(e['lhs']).get('k') == 'var' and strip(e['lhs'])['name'] == flag]
        if flag:
            ctx.ob('R-C15d', '%s:demotes %s' % (fn, flag), bool(demote), loc=demote[0]['loc'] if demote else f.loc,
                   detail='the feature flag is lowered when the primary facility is missing', fn=f.q)
        if alt:
            alts = [e for e in f.events() if is_call(e, alt)]
            ok = bool(alts)
            # the alternative is reachable from the primary's failure without leaving the function
            reach = set()
            st = [prims[0]['_b']]
            while st:
                x = st.pop()
                if x in reach or x is None:
                    continue
                reach.add(x)
                st.extend(f.blocks[x].succ)
            ok = ok and any(a['_b'] in reach for a in alts)
            # and after a demotion store every path reaches the alternative or returns its result (no failure return in between)
            for d in demote:
                mp = must_pass(f, lambda e: e in alts, start_event=d)
                for (pb, pi, e) in exits_of(f):
                    if mp.get((pb, pi)) is False:
                        v = strip(e.get('value')) if 'value' in e else None
                        if not (flag == 'epoll_support' and isinstance(v, dict)):   # last stage of a chain may report failure
                            ok = False
            ctx.ob('R-C15d', '%s:falls-back-to %s' % (fn, '/'.join(alt)), ok, loc=prims[0]['loc'],
                   detail='after the primary facility reported "missing", the same invocation reaches %s' % '/'.join(alt), fn=f.q)
    # splice probe -> read/write fallback: buffers allocated in splice mode (pipe pairs, no data area) must not
    # survive the demotion in the per-thread cache, where the read/write mode would reuse them as data buffers
    if prog.has_fn('check_splice_available') and prog.global_for('iv_fd_pump.c', 'splice_available') is not None:
        f = prog.fn('check_splice_available')
        puts = [e for e in f.events() if is_call(e, 'buf_put')]
        lowers = [e for e in f.events() if e['ev'] == 'store' and strip(e['lhs']).get('k') == 'var' and strip(e['lhs'])['name'] == 'splice_available'
                  and canon(e.get('rhs')) == '0']
        if not lowers:
            raise AnalysisBroken('check_splice_available: demotion store not found')
        def tr(e, s_):
            return True if e in puts else s_
        _, ev_in = forward(f, False, tr, lambda a, b: a or b)
        bad = [e for e in lowers if ev_in.get((e['_b'], e['_i']))]
        ctx.ob('R-C15d', 'check_splice_available:probe-buffers-not-cached-on-demotion', not bad, loc=(bad or lowers)[0]['loc'],
               detail='no path caches a probe buffer (buf_put) and then lowers splice_available: splice-mode buffers have no data area '
                      'and would be reused by the read/write fallback', fn=f.q)
        allocs = [e for e in f.events() if e['ev'] == 'store' and strip(e.get('rhs', {})).get('k') == 'call' and strip(e['rhs']).get('callee') == 'buf_alloc']
        okf = True
        hd = holding(f)
        for lo in lowers:
            A = hd.get((lo['_b'], lo['_i']), frozenset())
            for a_ in allocs:
                v = canon(a_['lhs'])
                # allocated and non-NULL on this path => freed before the demotion
                mpa = must_pass(f, lambda e: e is a_)
                if not mpa.get((lo['_b'], lo['_i'])):
                    continue
                if any(x[0] == '==' and x[1] == v and x[2] == '0' for x in A):
                    continue
                mpf = must_pass(f, lambda e, v=v: is_call(e, '__buf_free') and canon(e['args'][0]) == v)
                if not mpf.get((lo['_b'], lo['_i'])):
                    okf = False
        ctx.ob('R-C15d', 'check_splice_available:probe-buffers-freed-on-demotion', okf, loc=lowers[0]['loc'],
               detail='every probe buffer that was allocated is released with __buf_free before splice_available is lowered', fn=f.q)
    # ENOSYS/EPERM/EINVAL are the handled errnos: the demotion is on an errno-test edge, other errors are returned
    for (fn, prim, alt, flag) in PAIRS[:3]:
        f = prog.fn(fn)
        hd = holding(f)
        for e in [x for x in f.events() if x['ev'] == 'store' and strip(x['lhs']).get('k') == 'var' and strip(x['lhs'])['name'] == flag]:
            if canon(e['rhs']) == '0' and flag == 'eventfd_in_use':
                continue
            def edge(blk, si, s_):
                c = blk.term.get('cond') if blk.term else None
                if c is not None and '__errno_location' in canon(c):
                    return True
                return s_
            _, evx = forward(f, False, lambda x, s_: s_, lambda a, b: a and b, edge=edge)
            ok = bool(evx.get((e['_b'], e['_i'])))
            ctx.ob('R-C15d', '%s:%s=%s on-errno-edge' % (fn, flag, canon(e['rhs'])), ok, loc=e['loc'],
                   detail='the flag is lowered only after the errno of the failed call was examined', fn=f.q)


def exclusion(ctx):
    prog = ctx.prog
    f = prog.fn('iv_fd_init_first_thread')
    cons = [e for e in f.events() if is_call(e, 'consider_poll_method')]
    tables = prog.method_tables()
    args = {canon(e['args'][1]) for e in cons}
    ctx.ob('R-C15e', 'first-thread:same-exclusion-list', len(args) == 1 and len(cons) >= len(tables), loc=f.loc,
           detail='%d candidates considered with exclusion argument(s) %s' % (len(cons), sorted(args)), fn=f.q)
    considered = {strip(strip(e['args'][2])['e'])['name'] for e in cons if strip(e['args'][2]).get('k') == 'addr'}
    ctx.ob('R-C15e', 'first-thread:all-tables-considered', considered == set(tables), loc=f.loc,
           detail='tables considered: %s' % sorted(considered), fn=f.q)
    c = prog.fn('consider_poll_method')
    hd = holding(c, user_call_kills=False)
    inits = [e for e in c.events() if e['ev'] == 'call' and callback_kind(e) == ('method', 'init')]
    ok = bool(inits)
    for e in inits:
        A = hd.get((e['_b'], e['_i']), frozenset())
        ok = ok and any(a[1].startswith('method_is_excluded(') and a[0] == '==' and a[2] == '0' for a in A) \
            and any(a[1] == 'method' and a[0] == '==' and a[2] == '0' for a in A)
    ctx.ob('R-C15e', 'consider:excluded-methods-not-initialised', ok, loc=c.loc,
           detail='m->init runs only if no method was chosen yet and the name is not excluded', fn=c.q)
    fat = [e for e in f.events() if is_call(e, 'iv_fatal')]
    hdf = holding(f)
    okf = bool(fat) and all(any(a[1] == 'method' and a[0] == '==' and a[2] == '0' for a in hdf.get((e['_b'], e['_i']), frozenset())) for e in fat)
    ctx.ob('R-C15e', 'first-thread:fatal-only-if-none', okf, loc=f.loc, detail='fatal only when no method could be initialised', fn=f.q)
    ex = [e for e in f.events() if is_call(e, 'getenv')]
    ctx.ob('R-C15e', 'first-thread:environment', bool(ex) and all(canon(e['args'][0]) == '"IV_EXCLUDE_POLL_METHOD"' for e in ex), loc=f.loc,
           detail='exclusions come from IV_EXCLUDE_POLL_METHOD', fn=f.q)
