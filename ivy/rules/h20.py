"""Helpers of C20 (iv_inotify): role discovery and the three analyses the rules are read off.

Nothing in here depends on how iv_inotify.c is cut into static helpers, on what locals are
called, on loop shapes or on the spelling of branch conditions:

  * roles      the dispatcher is the function installed as handler_in of the instance's iv_fd
               while iv_inotify_register runs; the comparator is the function stored into the
               compare slot of the instance's tree there.  Both are analysed with every helper
               of the same unit inlined.
  * Prov       disjunctive (path sensitive) forward analysis of the dispatcher over *tree
               elements*: every value obtained from the instance's tree (root, ->left, ->right,
               min/next) is a symbolic object named by its definition site; a node pointer and
               the watch that contains it are the same object.  Must-facts per object: found in
               the instance tree since the last user callback, non-NULL, which orderings of
               (wd of the current record, wd of the object) the branches taken exclude, deleted
               from the tree, IN_ONESHOT clear; per record: IN_IGNORED clear.
  * Walk       disjunctive forward analysis of pointer/offset values as linear forms over the
               current record (REC + bytes + k * REC->len), re-based at every definition of the
               record variable.
  * comparator evaluation with the finite interpreter (ivy.interp) over the three orderings of
               the key pair, operands classified by the parameter their container derives from.
"""
import os
import copy
from ..core import (AnalysisBroken, Inliner, canon, strip, walk, last_member, lvalue_steps, norm_cond,
                    fold, forward, relpath, _keys_read, _pure_path, partition_flags, copy_propagate, Block, Func, _is_boolean_expr)
from ..analyses import callback_kind, clone_cfg
from .. import interp

IN_IGNORED = 0x00008000
IN_ONESHOT = 0x80000000
INST, WATCH, NODE, TREE, REC = 'iv_inotify', 'iv_inotify_watch', 'iv_avl_node', 'iv_avl_tree', 'inotify_event'
CMPOPS = ('<', '>', '<=', '>=', '==', '!=')
SWAPOP = {'==': '==', '!=': '!=', '<': '>', '>': '<', '<=': '>=', '>=': '<='}
MAXSTATES = 600


# --------------------------------------------------------------------------
# roles
# --------------------------------------------------------------------------

def flag_partitioned_source(f):
    """f as the source spells it (no copy propagation: the rule using this is about what the source says of a local)
    but with flag locals eliminated by partitioning, i.e. path-sensitive in `more = (p != NULL) && ...; while (more)`"""
    if getattr(f, '_d', None) is None:
        return f
    g = Func(f._d, f.unit, copyprop=False)
    g.q = getattr(f, 'q', f.name)
    if os.environ.get('IVY_NO_FLAGS') != '1':
        g.flags = partition_flags(g)
    return g


def _cache(prog):
    return prog.__dict__.setdefault('_h20_cache', {})


def inlined_local(prog, f):
    """f with every helper defined in the same unit (or in a header) inlined; other units' functions
    stay calls."""
    c = _cache(prog)
    if ('inl', f.q) not in c:
        inl = TableInliner(prog, stop=lambda t, f=f: t.file.endswith('.c') and t.file != f.file)
        g = inl.inline(f)
        tabled = inl.decide_table_calls(g)
        scal = scalarize(prog, g)
        fused = fuse_result_copies(g)
        if scal or tabled or fused:
            # the core's normalisations once more, now that out-parameters and context structs are plain locals
            if os.environ.get('IVY_NO_FLAGS') != '1':
                g.flags = partition_flags(g)
            if os.environ.get('IVY_NO_COPYPROP') != '1':
                try:
                    copy_propagate(g)
                except AnalysisBroken:
                    pass
        c[('inl', f.q)] = prune_constant_branches(g)
    return c[('inl', f.q)]


def function_table(prog, unit, name):
    """[function name, ...] if the global `name` is an array of function designators that nobody writes
    (const-qualified, or no store to it anywhere in the program), else None"""
    c = _cache(prog)
    key = ('ftable', unit, name)
    if key in c:
        return c[key]
    gl = prog.globals.get('%s:%s' % (unit, name)) or prog.globals.get(name)
    out = None
    if gl and not gl.get('extern_decl') and 'bound' in gl and isinstance(gl.get('init'), dict) and gl['init'].get('k') == 'init':
        names = []
        for el in gl['init'].get('elems') or []:
            el = strip(el)
            if isinstance(el, dict) and el.get('k') == 'addr':
                el = strip(el['e'])
            if isinstance(el, dict) and el.get('k') == 'var' and el.get('vk') == 'func':
                names.append(el['name'])
            else:
                names = None
                break
        if names and len(names) == gl['bound']:
            t = gl.get('type', '')
            const = 'const' in t.split('[')[0].split('(*')[-1]
            if not const:
                const = True
                for fn in prog.all_funcs():
                    for e in fn.pristine().events() if hasattr(fn, 'pristine') else fn.events():
                        for x in walk(e) if e['ev'] == 'store' else ():
                            if x.get('k') == 'var' and x.get('vk') == 'global' and x.get('name') == name:
                                const = False
            if const:
                out = names
    c[key] = out
    return out


def constant_table_elem(prog, var, i):
    """value of element i of the global array `var` if that array is const-qualified and initialised with integer
    constants, else None"""
    t = var.get('type', '')
    if 'const' not in t.split('[')[0].split():
        return None
    cands = [gl for key, gl in prog.globals.items() if gl.get('name') == var['name'] and not gl.get('extern_decl')
             and isinstance(gl.get('init'), dict)]
    if len(cands) != 1 or 'bound' not in cands[0] or cands[0].get('type') != t:
        return None
    elems = cands[0]['init'].get('elems') or []
    if not (0 <= i < len(elems)):
        return None
    return const_of(elems[i]) if isinstance(elems[i], dict) else None


class TableInliner(Inliner):
    """Inliner that also enters calls through a constant table of functions (`step[wd > w->wd](an)`): the call is
    expanded like a method dispatch over the table's entries, and decide_table_calls() then turns the
    non-deterministic dispatch into branches on the index expression, so that the result is the CFG of the
    equivalent if-chain."""

    def __init__(self, *a, **kw):
        Inliner.__init__(self, *a, **kw)
        self.table_sites = {}
        self.ntemps = 0
        self._rens = []

    @staticmethod
    def _retyped(p, a):
        """the argument gives parameter p (a pointer to a record) its type: a cast of a differently typed pointer or
        pointer arithmetic (`(struct inotify_event *)curr`), not a variable of that type nor an address expression"""
        if not (p.get('ptr') and p.get('record')):
            return False
        x = strip(a)
        if not isinstance(x, dict):
            return False
        if x.get('k') == 'var':
            return x.get('record') != p['record']
        return x.get('k') == 'bin'

    def _emit(self, f, ren, chain, active, depth, retvar):
        """A helper parameter of record-pointer type whose argument only acquires that type at the call
        (`deliver(ino, (struct inotify_event *)curr)`) is kept as a local of the inlined function, defined at the call,
        exactly like `struct inotify_event *ev = (struct inotify_event *)curr;` in the caller would be; the core
        inliner would substitute the argument expression and the typed object pointer would vanish."""
        pre = []
        if depth > 0 and ren and chain:
            ren = dict(ren)
            for p in f.params:
                a = ren.get(p['name'])
                if isinstance(a, dict) and self._retyped(p, a):
                    self.ntemps += 1
                    nm = '%s@p%d' % (p['name'], self.ntemps)
                    pv = {'k': 'var', 'name': nm, 'vk': 'local', 'type': p['type'], 'record': p['record'], 'ptr': p.get('ptr')}
                    pre.append({'ev': 'store', 'op': '=', 'lhs': pv, 'rhs': a, 'loc': chain[-1][1], 'chain': chain[:-1],
                                'fn': chain[-1][0], 'is_param': True})
                    ren[p['name']] = nm
        self._rens.append(ren or {})
        try:
            entry, exits = Inliner._emit(self, f, ren, chain, active, depth, retvar)
        finally:
            self._rens.pop()
        if pre:
            entry = self._newblock(pre, [entry], None)
        return entry, exits

    def _designated(self, caller, fe):
        """function a function-pointer expression certainly denotes: a parameter of the helper being inlined whose
        argument is a function designator (`for_each(queue, n, deliver_one, ctx)`: `fn(ctx, ev)` calls deliver_one), or a
        member of a const-qualified file-scope struct initialised with one (`static const struct ops { .add = f }`)"""
        unit = self.prog.unit_of(caller)
        if isinstance(fe, dict) and fe.get('k') == 'var' and fe.get('vk') in ('local', 'param') and self._rens:
            rep = self._rens[-1].get(fe['name'])
            rep = strip(rep) if isinstance(rep, dict) else None
            if isinstance(rep, dict) and rep.get('k') == 'addr':
                rep = strip(rep['e'])
            if isinstance(rep, dict) and rep.get('k') == 'var' and rep.get('vk') == 'func':
                return self.prog.resolve(unit, rep['name'])
            return None
        if isinstance(fe, dict) and fe.get('k') == 'member' and not fe.get('arrow'):
            b = fe.get('base')
            if isinstance(b, dict) and b.get('k') == 'var' and b.get('vk') == 'global' and 'const' in (b.get('type') or '').split():
                cands = [gl for gl in self.prog.globals.values() if gl.get('name') == b['name'] and not gl.get('extern_decl')
                         and isinstance(gl.get('init'), dict) and gl.get('type') == b.get('type')]
                if len(cands) == 1:
                    v = strip((cands[0]['init'].get('fields') or {}).get(fe['field']))
                    if isinstance(v, dict) and v.get('k') == 'addr':
                        v = strip(v['e'])
                    if isinstance(v, dict) and v.get('k') == 'var' and v.get('vk') == 'func':
                        return self.prog.resolve(unit, v['name'])
        return None

    def _targets(self, caller, e, known_table=None):
        r = Inliner._targets(self, caller, e, known_table)
        if r or 'callee' in e:
            return r
        fe = strip(e.get('fnexpr'))
        while isinstance(fe, dict) and fe.get('k') == 'deref':
            fe = strip(fe['e'])
        t = self._designated(caller, fe)
        if t is not None:
            return [t] if t.blocks and not self.stop(t) else None
        if not (isinstance(fe, dict) and fe.get('k') == 'index' and _pure_path(fe.get('idx') or {})):
            return None
        base = strip(fe['base'])
        if not (isinstance(base, dict) and base.get('k') == 'var' and base.get('vk') == 'global'):
            return None
        unit = self.prog.unit_of(caller)
        names = function_table(self.prog, unit, base['name'])
        if not names:
            return None
        ts = [self.prog.resolve(unit, n) for n in names]
        if any(t is None or not t.blocks or self.stop(t) for t in ts) or len(set(t.q for t in ts)) != len(ts):
            return None
        self.table_sites[e.get('loc')] = [t.q for t in ts]
        return ts

    def decide_table_calls(self, g):
        changed = False
        for b in list(g.blocks):
            blk = g.blocks[b]
            if not (blk.term and blk.term.get('cls') == 'MethodDispatch' and blk.term.get('loc') in self.table_sites):
                continue
            ent = blk.events[-1] if blk.events and blk.events[-1]['ev'] == 'enter' else None
            fe = strip(ent.get('fnexpr')) if ent else None
            while isinstance(fe, dict) and fe.get('k') == 'deref':
                fe = strip(fe['e'])
            if not (isinstance(fe, dict) and fe.get('k') == 'index') or len(blk.succ) != len(self.table_sites[blk.term['loc']]):
                continue
            idx = fe['idx']
            loc = blk.term['loc']
            si = strip(idx)
            boolean = isinstance(si, dict) and ((si.get('k') == 'bin' and si['op'] in CMPOPS + ('&&', '||')) or
                                                (si.get('k') == 'un' and si['op'] == '!'))
            succ = list(blk.succ)
            if len(succ) == 2 and boolean:
                blk.term = {'cls': 'IfStmt', 'cond': idx, 'loc': loc, 'table': True}
                blk.succ = [succ[1], succ[0]]
            else:
                # idx == 0 ? T0 : idx == 1 ? T1 : ... : T(n-1)
                cur = blk
                for i, target in enumerate(succ[:-1]):
                    cond = {'k': 'bin', 'op': '==', 'l': idx, 'r': {'k': 'int', 'v': i}}
                    if i < len(succ) - 2:
                        nid = max(g.blocks) + 1
                        g.blocks[nid] = Block(nid, [], [], None)
                        nxt = nid
                    else:
                        nxt = succ[-1]
                    cur.term = {'cls': 'IfStmt', 'cond': cond, 'loc': loc, 'table': True}
                    cur.succ = [target, nxt]
                    cur = g.blocks[nxt]
            changed = True
        if changed:
            g._preds = None
        return changed


def _map_expr(x, fn):
    """bottom-up rewrite of an expression tree (new nodes; shared sub-trees are never mutated)"""
    if isinstance(x, list):
        out = [_map_expr(y, fn) for y in x]
        return out if any(a is not b for a, b in zip(out, x)) else x
    if not isinstance(x, dict) or 'k' not in x:
        return x
    new = None
    for key, val in x.items():
        if isinstance(val, (dict, list)) and not key.startswith('_') and key != 'sizeof':
            v2 = _map_expr(val, fn)
            if v2 is not val:
                if new is None:
                    new = dict(x)
                new[key] = v2
    return fn(new if new is not None else x)


_EXPR_KEYS = ('lhs', 'rhs', 'e', 'args', 'fnexpr', 'value', 'init')


def _rewrite_cfg(g, fn):
    """apply the node rewrite fn to every expression of g (events and branch conditions); True if anything changed"""
    changed = False
    for blk in g.blocks.values():
        for i, e in enumerate(blk.events):
            upd = {}
            for key in _EXPR_KEYS:
                if key in e and isinstance(e[key], (dict, list)):
                    v2 = _map_expr(e[key], fn)
                    if v2 is not e[key]:
                        upd[key] = v2
            if upd:
                blk.events[i] = dict(e, **upd)
                changed = True
        if blk.term and isinstance(blk.term.get('cond'), dict):
            c2 = _map_expr(blk.term['cond'], fn)
            if c2 is not blk.term['cond']:
                blk.term = dict(blk.term, cond=c2)
                changed = True
    return changed


def _unwrap(x):
    """x without load / cast wrappers"""
    while isinstance(x, dict) and x.get('k') in ('load', 'cast') and 'e' in x:
        x = x['e']
    return x


def _tokenize_self_addresses(g, cands):
    """`L = &ctx` where ctx is a local struct and L a local pointer-sized location (a local, or a member of a local
    struct) that is only ever tested against NULL or has its address taken: the address of a local is just *some*
    non-NULL value there (a liveness word initialised with `p->live = p`), so the store is rewritten to store the
    non-NULL constant 1 and `&ctx` does not count as an escape of the struct.  True if anything was rewritten."""
    def loc_key(x):
        x = _unwrap(x)
        names = []
        while isinstance(x, dict) and x.get('k') == 'member' and not x.get('arrow'):
            names.append(x['field'])
            x = x['base']
        if isinstance(x, dict) and x.get('k') == 'var' and x.get('vk') == 'local':
            return '.'.join([x['name']] + list(reversed(names)))
        return None
    want = {}
    for blk in g.blocks.values():
        for i, e in enumerate(blk.events):
            if e['ev'] == 'store' and e.get('op') == '=' and 'rhs' in e:
                r = _unwrap(e['rhs'])
                if isinstance(r, dict) and r.get('k') == 'addr' and isinstance(r.get('e'), dict) and r['e'].get('k') == 'var' \
                        and r['e'].get('name') in cands:
                    key = loc_key(e['lhs'])
                    if key is not None:
                        want.setdefault(key, []).append((blk, i))
    if not want:
        return False
    bad = set()

    def visit(x, parent, in_cond):
        if isinstance(x, list):
            for y in x:
                visit(y, parent, in_cond)
            return
        if not isinstance(x, dict) or 'k' not in x:
            return
        if x.get('k') in ('var', 'member'):
            key = loc_key(x)
            if key in want:
                p = parent
                ok = False
                if p is None:
                    ok = in_cond
                elif p.get('k') == 'addr':
                    ok = True
                elif p.get('k') == 'un' and p.get('op') == '!':
                    ok = True
                elif p.get('k') == 'bin' and p.get('op') in ('&&', '||'):
                    ok = True
                elif p.get('k') == 'bin' and p.get('op') in ('==', '!='):
                    other = p['r'] if _unwrap(p['l']) is _unwrap(x) or _unwrap(p['l']) is x else p['l']
                    ok = const_of(other) == 0
                if not ok:
                    bad.add(key)
                return
        for k2, val in x.items():
            if isinstance(val, (dict, list)) and not k2.startswith('_') and k2 != 'sizeof':
                visit(val, parent if x.get('k') in ('load', 'cast') else x, in_cond)
    for blk in g.blocks.values():
        for e in blk.events:
            if e['ev'] == 'load':
                continue
            for key in _EXPR_KEYS:
                if key in e and isinstance(e[key], (dict, list)):
                    if key == 'lhs' and e['ev'] == 'store' and loc_key(e[key]) in want:
                        continue
                    visit(e[key], None, False)
        if blk.term and isinstance(blk.term.get('cond'), dict):
            visit(blk.term['cond'], None, True)
    done = False
    for key, sites in want.items():
        if key in bad:
            continue
        for blk, i in sites:
            blk.events[i] = dict(blk.events[i], rhs={'k': 'int', 'v': 1, 'type': 'void *', 'was_local_address': True})
            done = True
    return done


def scalarize(prog, g):
    """Normalisations of an inlined function that make out-parameters, accessor helpers returning addresses, local
    context structs, small constant tables and pointer-to-pointer cursors irrelevant (each described at its function);
    iterated to a fixpoint because each enables the others.  Mutates g; returns True if anything changed."""
    changed = False
    for _ in range(5):
        c = _rewrite_addr(prog, g)
        c = _struct_copies(prog, g) or c
        c = _sroa(prog, g) or c
        c = _forward_addresses(g) or c
        c = _shadow_cursors(g) or c
        c = _coalesce_int_copies(g) or c
        c = _partition_counters(g) or c
        c = _sroa_arrays(g) or c
        if not c:
            break
        changed = True
    if changed:
        _renumber(g)
    return changed


def _struct_record(prog, x):
    """record name if the expression node x is a struct object (not a pointer to one)"""
    if not isinstance(x, dict) or x.get('ptr') or x.get('tptr'):
        return None
    t = (x.get('type') or '').replace('const ', '').strip()
    if t.endswith('*') or t.endswith(']'):
        return None
    rec = x.get('record') if x.get('k') == 'var' else x.get('trecord')
    if rec is None and t.startswith('struct '):
        rec = t[7:].strip()
    return rec if rec in prog.records else None


def _local_struct_lvalue(x):
    """x is a local struct variable or a member path of one without arrows"""
    x = _unwrap(x)
    while isinstance(x, dict) and x.get('k') == 'member' and not x.get('arrow'):
        x = x['base']
    return isinstance(x, dict) and x.get('k') == 'var' and x.get('vk') in ('local',)


def _struct_copies(prog, g):
    """Whole-struct operations on local structs are written out member by member, so that structs returned by value
    (`hit = find(..)`: `$ret = hit@1; hit = $ret`), copied or initialised with a list can be split by _sroa:
      * `decl s = { .a = x, .b = y }`  ->  `decl s; s.a = x; s.b = y` (members not named: 0);
      * `s = t` (both local structs of the same record)  ->  `s.f = t.f` for every member f.
    True if anything changed."""
    def member(base, fl, rec):
        m = {'k': 'member', 'arrow': False, 'base': base, 'field': fl['name'], 'record': rec, 'type': fl.get('type', ''),
             'tptr': bool(fl.get('ptr'))}
        if fl.get('record'):
            m['trecord'] = fl['record']
        return m
    changed = False
    for blk in g.blocks.values():
        evs = []
        for e in blk.events:
            if e['ev'] == 'decl' and isinstance(e.get('init'), dict) and e['init'].get('k') == 'init' and not e.get('ptr') \
                    and e.get('record') in prog.records and not e.get('static') and 'bound' not in e \
                    and isinstance(e['init'].get('fields'), dict) and not prog.records[e['record']].get('union'):
                rec = e['record']
                evs.append({k: v for k, v in e.items() if k != 'init'})
                base = {'k': 'var', 'name': e['name'], 'vk': 'local', 'type': e.get('type'), 'record': rec, 'ptr': False}
                for fl in prog.records[rec].get('fields', []):
                    v = e['init']['fields'].get(fl['name'], {'k': 'int', 'v': 0})
                    evs.append({'ev': 'store', 'op': '=', 'lhs': member(base, fl, rec), 'rhs': v, 'loc': e.get('loc'),
                                'chain': e.get('chain', []), 'fn': e.get('fn'), 'from_decl': True})
                changed = True
                continue
            if e['ev'] == 'store' and e.get('op') == '=' and 'rhs' in e:
                l, r = _unwrap(e['lhs']), _unwrap(e['rhs'])
                rec = _struct_record(prog, l) if isinstance(l, dict) and l.get('k') in ('var', 'member') else None
                if rec and _local_struct_lvalue(l) and _local_struct_lvalue(r) and _struct_record(prog, r) == rec \
                        and not prog.records[rec].get('union'):
                    for fl in prog.records[rec].get('fields', []):
                        evs.append(dict(e, lhs=member(l, fl, rec), rhs={'k': 'load', 'e': member(r, fl, rec)}))
                    changed = True
                    continue
            evs.append(e)
        blk.events = evs
    return changed


def strip_loads(x):
    while isinstance(x, dict) and x.get('k') == 'load' and 'e' in x:
        x = x['e']
    return x


def _vars_of(x):
    return {y['name'] for y in walk(x) if y.get('k') == 'var' and y.get('vk') in ('local', 'param')}


def _address_forming(x):
    """'addr': the value is the address of an lvalue (`&p->f`, `&iv_container_of(an, ..)->wd`, `&v`) or a conditional
    expression of such; 'arith': it is computed by pointer arithmetic; None otherwise (a copy of a variable, a value read
    from memory, a pointer to a whole object obtained with iv_container_of)"""
    x = _unwrap(x)
    if not isinstance(x, dict):
        return None
    if x.get('k') == 'addr':
        return 'addr'
    if x.get('k') == 'bin' and x.get('op') in ('+', '-'):
        return 'arith'
    if x.get('k') == 'cond':
        a, b = _address_forming(x['a']), _address_forming(x['b'])
        return a if a == b else None
    return None


def _object_pointer(v):
    """the variable is a pointer to a struct object (the analyses follow those by variable); pointers to scalars, to
    pointers, char * / void * are addresses of *places*"""
    t = Walk.unqual(v.get('type') or '')
    if not t.endswith('*'):
        return False
    el = ' '.join(w for w in t[:-1].split() if w not in ('const', 'volatile'))
    return el.startswith('struct ') or el.startswith('union ') or bool(v.get('record') and v.get('ptr') and not el.endswith('*') and el not in ('void', 'char'))


def _addr_of_local(x):
    """`&v` for a local variable v (a context struct handed on to a nested helper)"""
    x = _unwrap(x)
    return isinstance(x, dict) and x.get('k') == 'addr' and isinstance(x.get('e'), dict) and x['e'].get('k') == 'var' \
        and x['e'].get('vk') == 'local'


def _forward_addresses(g):
    """Forward substitution of address temporaries: a local T (never address-taken) that is assigned an address
    expression E (`key = &iv_container_of(an, ..)->wd`, `$ret = &this->term`, `slot = (char *)an + off`) is replaced by E
    at the reads that E's definition reaches unchanged: on every path from the definition to the read neither T nor a
    variable of E is assigned, and, if E reads memory, no store through memory and no call happens in between.  This is
    what an accessor helper returning the address of a member becomes after inlining.  True if anything changed."""
    taken, defs = set(), {}
    for e in g.events():
        for x in walk(e):
            if x.get('k') == 'addr':
                v = _unwrap(x.get('e'))
                if isinstance(v, dict) and v.get('k') == 'var':
                    taken.add(v['name'])
    for blk in g.blocks.values():
        for e in blk.events:
            if e['ev'] == 'store' and e.get('op') == '=' and 'rhs' in e:
                l = _unwrap(e['lhs'])
                if isinstance(l, dict) and l.get('k') == 'var' and l.get('vk') == 'local' and l['name'] not in taken \
                        and (not _object_pointer(l) or _addr_of_local(e['rhs'])) \
                        and _address_forming(e['rhs']) and _pure_path(e['rhs']) and l['name'] not in _vars_of(e['rhs']):
                    defs[id(e)] = (l['name'], e['rhs'], frozenset(_vars_of(e['rhs'])),
                                   any(y.get('k') == 'load' and (strip_loads(y).get('k') in ('member', 'deref', 'index') or
                                                                 (strip_loads(y).get('k') == 'var' and strip_loads(y).get('vk') not in ('local', 'param', 'func')))
                                       for y in walk(e['rhs'])))
    # a temporary computed by pointer arithmetic is forwarded only if it exists to be dereferenced (as another type):
    # every read of it is the operand of `*`; cursors and limits that are compared or advanced keep their variable
    arith = {d[0] for d in defs.values() if _address_forming(d[1]) == 'arith'}
    if arith:
        occ = {n: 0 for n in arith}
        der = {n: 0 for n in arith}

        def count(x):
            if x.get('k') == 'var' and x.get('name') in occ:
                occ[x['name']] += 1
            if x.get('k') == 'deref':
                v = _unwrap(x.get('e'))
                if isinstance(v, dict) and v.get('k') == 'var' and v.get('name') in der:
                    der[v['name']] += 1
            return x
        for blk in g.blocks.values():
            for e in blk.events:
                if e['ev'] in ('enter', 'leave', 'decl') or (e['ev'] == 'load' and isinstance(_unwrap(e.get('e')), dict)
                                                              and _unwrap(e['e']).get('k') == 'var'):
                    continue
                for key in _EXPR_KEYS:
                    if key in e and isinstance(e[key], (dict, list)):
                        if key == 'lhs' and e['ev'] == 'store' and isinstance(_unwrap(e[key]), dict) and _unwrap(e[key]).get('k') == 'var':
                            continue
                        _map_expr(e[key], count)
            if blk.term and isinstance(blk.term.get('cond'), dict):
                _map_expr(blk.term['cond'], count)
        keep = {n for n in arith if occ[n] and occ[n] == der[n]}
        defs = {i: d for i, d in defs.items() if d[0] not in arith or d[0] in keep}
    if not defs:
        return False
    TOP = None

    def transfer(e, S):
        if S is TOP:
            return S
        if e['ev'] == 'store':
            l = _unwrap(e['lhs'])
            if isinstance(l, dict) and l.get('k') == 'var':
                S = frozenset(d for d in S if d[0] != l['name'] and l['name'] not in d[2])
                if id(e) in defs:
                    n, _, vs, rm = defs[id(e)]
                    S = S | {(n, id(e), vs, rm)}
            else:
                S = frozenset(d for d in S if not d[3])
        elif e['ev'] == 'decl':
            S = frozenset(d for d in S if d[0] != e['name'] and e['name'] not in d[2])
        elif e['ev'] == 'call':
            S = frozenset(d for d in S if not d[3])
        return S

    def join(a, b):
        if a is TOP:
            return b
        if b is TOP:
            return a
        return a & b
    _, ev_in = forward(g, frozenset(), transfer, join, top=TOP)
    by_id = {i: d for i, d in defs.items()}
    changed = False

    def subst_reads(x, avail):
        def fn(n):
            if n.get('k') == 'load' and isinstance(n.get('e'), dict) and n['e'].get('k') == 'var' and n['e'].get('name') in avail:
                return copy.deepcopy(avail[n['e']['name']])
            return n
        return _map_expr(x, fn)
    for b, blk in g.blocks.items():
        S = None
        for i, e in enumerate(blk.events):
            S = ev_in.get((b, i))
            if not S:
                continue
            names = {}
            for d in S:
                names.setdefault(d[0], []).append(d[1])
            avail = {n: by_id[ids[0]][1] for n, ids in names.items() if len(ids) == 1}
            if not avail or e['ev'] in ('enter', 'leave', 'decl'):
                continue
            upd = {}
            for key in _EXPR_KEYS:
                if key in e and isinstance(e[key], (dict, list)):
                    if key == 'lhs' and isinstance(_unwrap(e[key]), dict) and _unwrap(e[key]).get('k') == 'var':
                        continue
                    if e['ev'] == 'load' and isinstance(_unwrap(e[key]), dict) and _unwrap(e[key]).get('k') == 'var':
                        continue
                    v2 = subst_reads(e[key], avail)
                    if v2 is not e[key]:
                        upd[key] = v2
            if upd:
                blk.events[i] = dict(e, **upd)
                changed = True
        if blk.term and isinstance(blk.term.get('cond'), dict):
            S = ev_in.get((b, len(blk.events)))
            if S:
                names = {}
                for d in S:
                    names.setdefault(d[0], []).append(d[1])
                avail = {n: by_id[ids[0]][1] for n, ids in names.items() if len(ids) == 1}
                if avail:
                    c2 = subst_reads(blk.term['cond'], avail)
                    if c2 is not blk.term['cond']:
                        blk.term = dict(blk.term, cond=c2)
                        changed = True
    return changed


def _address_taken(g):
    taken = set()
    for e in g.events():
        if e['ev'] == 'enter':
            continue
        for x in walk(e):
            if x.get('k') == 'addr':
                v = _unwrap(x.get('e'))
                if isinstance(v, dict) and v.get('k') == 'var':
                    taken.add(v['name'])
    return taken


def _partition_counters(g, maxvals=6, max_blocks=600):
    """Trace partitioning on a small loop counter: a local integer that is only ever assigned constants and stepped by
    constants (`for (i = 0; i < 2; i++)` over a constant table) is eliminated like a flag: every block in the live range
    of the counter is duplicated per value, reads of the counter become that constant, and the loop test folds.  The
    loop over the table thereby becomes the straight-line sequence of its (at most `maxvals`) iterations.  Purely a CFG
    refinement; abandoned when the counter takes more values.  True if anything changed."""
    taken = _address_taken(g)
    stores, bad = {}, set()
    for e in g.events():
        if e['ev'] == 'store':
            l = _unwrap(e['lhs'])
            if isinstance(l, dict) and l.get('k') == 'var':
                n = l['name']
                t = (l.get('type') or '')
                if l.get('vk') != 'local' or '*' in t or '[' in t or t.startswith('struct'):
                    bad.add(n)
                    continue
                op = e.get('op')
                c = const_of(e['rhs']) if 'rhs' in e and isinstance(e['rhs'], dict) else None
                if (op == '=' and c is not None) or op in ('++', '--') or (op in ('+=', '-=') and c is not None):
                    stores.setdefault(n, []).append(e)
                else:
                    bad.add(n)
    cands = []
    for n, es in stores.items():
        if n in bad or n in taken:
            continue
        if not any(e.get('op') == '=' for e in es) or not any(e.get('op') != '=' for e in es):
            continue
        tested = False
        for blk in g.blocks.values():
            c = blk.term.get('cond') if blk.term else None
            if isinstance(c, dict) and len(blk.succ) == 2:
                for y in walk(c):
                    if y.get('k') == 'bin' and y.get('op') in CMPOPS:
                        for a, b in ((y['l'], y['r']), (y['r'], y['l'])):
                            va = strip(a)
                            if isinstance(va, dict) and va.get('k') == 'var' and va.get('name') == n and const_of(b) is not None:
                                tested = True
        if tested:
            cands.append(n)
    for name in sorted(cands):
        if _partition_counter(g, name, maxvals, max_blocks):
            return True
    return False


def _partition_counter(g, name, maxvals, max_blocks):
    def reads(x):
        return any(y.get('k') == 'var' and y.get('name') == name for y in walk(x)) if isinstance(x, (dict,)) else \
            any(reads(a) for a in x if isinstance(a, dict)) if isinstance(x, list) else False

    def is_store(e):
        return e['ev'] == 'store' and isinstance(_unwrap(e['lhs']), dict) and _unwrap(e['lhs']).get('k') == 'var' \
            and _unwrap(e['lhs']).get('name') == name
    # liveness of the counter at block entry
    use, kill = {}, {}
    for b, blk in g.blocks.items():
        u = k = False
        for e in blk.events:
            if e['ev'] in ('enter', 'leave'):
                continue
            if is_store(e):
                if e.get('op') != '=' and not k:
                    u = True
                if e.get('op') == '=':
                    k = True
                continue
            if e['ev'] == 'decl' and e.get('name') == name:
                k = True
                continue
            if not k and any(reads(e[key]) for key in _EXPR_KEYS if key in e and isinstance(e[key], (dict, list))):
                u = True
        if not k and blk.term and isinstance(blk.term.get('cond'), dict) and reads(blk.term['cond']):
            u = True
        use[b], kill[b] = u, k
    live = {b: use[b] for b in g.blocks}
    ch = True
    while ch:
        ch = False
        for b, blk in g.blocks.items():
            if not live[b] and not kill[b] and any(s is not None and live.get(s) for s in blk.succ):
                live[b] = True
                ch = True

    def step(e, val):
        if is_store(e):
            op = e.get('op')
            c = const_of(e['rhs']) if 'rhs' in e and isinstance(e['rhs'], dict) else None
            if op == '=':
                return c
            if val is None:
                return None
            return {'++': val + 1, '--': val - 1, '+=': val + (c or 0), '-=': val - (c or 0)}.get(op)
        if e['ev'] == 'decl' and e.get('name') == name:
            return None
        return val
    def sub(x, val):
        if val is None:
            return x

        def fn(n):
            if n.get('k') == 'load' and isinstance(n.get('e'), dict) and n['e'].get('k') == 'var' and n['e'].get('name') == name:
                return {'k': 'int', 'v': val, 'type': n['e'].get('type', 'int')}
            if n.get('k') == 'var' and n.get('name') == name:
                return {'k': 'int', 'v': val, 'type': n.get('type', 'int')}
            return n
        return fold(_map_expr(x, fn))

    def taken(blk, v):
        """successors that can be taken when the counter is v at the end of the block"""
        t = blk.term
        if v is not None and t and isinstance(t.get('cond'), dict) and len(blk.succ) == 2 \
                and t.get('cls') not in ('SwitchStmt', 'MethodDispatch') and reads(t['cond']):
            c = const_of(sub(t['cond'], v))
            if c is not None:
                return [blk.succ[0] if c else blk.succ[1]]
        return list(blk.succ)
    # exploration over (block, value at entry)
    seen = {}
    order = []
    todo = [(g.entry, None)]
    values = set()
    while todo:
        key = todo.pop()
        if key in seen:
            continue
        b, val = key
        seen[key] = None
        order.append(key)
        if val is not None:
            values.add(val)
            if len(values) > maxvals or len(seen) > max_blocks:
                if os.environ.get('H20_DEBUG'): print('counter', name, 'abandoned', sorted(values), len(seen))
                return False
        v = val
        for e in g.blocks[b].events:
            v = step(e, v)
        for s_ in taken(g.blocks[b], v):
            if s_ is None:
                continue
            todo.append((s_, v if live.get(s_) else None))
    if not values:
        return False
    # build
    nid = max(g.blocks) + 1
    ids = {}
    for key in order:
        if key[1] is None:
            ids[key] = key[0]
        else:
            ids[key] = nid
            nid += 1

    newblocks = {}
    for key in order:
        b, val = key
        blk = g.blocks[b]
        v = val
        evs = []
        for e in blk.events:
            if is_store(e) or e['ev'] in ('enter', 'leave', 'decl') or v is None:
                e2 = dict(e) if val is not None else e
            else:
                upd = {}
                for k2 in _EXPR_KEYS:
                    if k2 in e and isinstance(e[k2], (dict, list)):
                        upd[k2] = sub(e[k2], v)
                e2 = dict(e, **upd)
            evs.append(e2)
            v = step(e, v)
        term = dict(blk.term) if blk.term else None
        if term and isinstance(term.get('cond'), dict) and v is not None:
            term['cond'] = sub(term['cond'], v)
        tk = taken(blk, v)
        succ = [(ids[(s_, v if live.get(s_) else None)] if s_ is not None else None) for s_ in tk]
        if len(tk) != len(blk.succ) and term:
            term = {k2: x for k2, x in term.items() if k2 != 'cond'}
            term.update(cls='Pruned', pruned='counter %s = %s' % (name, v))
        nb = Block(ids[key], evs, succ, term, blk.noreturn)
        newblocks[ids[key]] = nb
    if g.exit not in newblocks:
        newblocks[g.exit] = g.blocks[g.exit]
    g.blocks = newblocks
    _renumber(g)
    return True


def _sroa_arrays(g):
    """A local array of scalars that is only ever accessed at constant indices (`masks[0] = ev->mask; masks[1] = w->mask;
    ... masks[0] & BIT` once a table-driven loop is unrolled) is split into one local per element, named `masks[0]`.
    True if anything changed."""
    arrs = {}
    for e in g.events():
        if e['ev'] == 'decl' and 'bound' in e and not e.get('static') and isinstance(e.get('bound'), int) and e['bound'] <= 8 \
                and 'init' not in e and (e.get('type') or '').count('[') == 1 and not e.get('record'):
            arrs[e['name']] = e
    if not arrs:
        return False
    occ = {n: 0 for n in arrs}
    good = {n: 0 for n in arrs}

    def count(x):
        if x.get('k') == 'var' and x.get('name') in occ:
            occ[x['name']] += 1
        elif x.get('k') == 'index' and 'bound' in x:
            b = x.get('base')
            if isinstance(b, dict) and b.get('k') == 'var' and b.get('name') in good and const_of(x.get('idx')) is not None \
                    and 0 <= const_of(x['idx']) < arrs[b['name']]['bound']:
                good[b['name']] += 1
        return x
    for blk in g.blocks.values():
        for e in blk.events:
            if e['ev'] in ('enter', 'decl'):
                continue
            for key in _EXPR_KEYS:
                if key in e and isinstance(e[key], (dict, list)):
                    _map_expr(e[key], count)
        if blk.term and isinstance(blk.term.get('cond'), dict):
            _map_expr(blk.term['cond'], count)
    split = {n for n in arrs if occ[n] and occ[n] == good[n]}
    if not split:
        return False

    def el_type(n):
        return (arrs[n].get('type') or '').split('[')[0].strip()

    def rw(x):
        if x.get('k') == 'index' and 'bound' in x:
            b = x.get('base')
            if isinstance(b, dict) and b.get('k') == 'var' and b.get('name') in split:
                return {'k': 'var', 'name': '%s[%d]' % (b['name'], const_of(x['idx'])), 'vk': 'local', 'type': el_type(b['name']),
                        'ptr': '*' in el_type(b['name'])}
        return x
    # maximal accesses first (top-down), like member chains
    def top_down(x):
        if isinstance(x, list):
            return [top_down(y) for y in x]
        if not isinstance(x, dict) or 'k' not in x:
            return x
        y = rw(x)
        if y is not x:
            return y
        out = None
        for key, val in x.items():
            if isinstance(val, (dict, list)) and not key.startswith('_') and key != 'sizeof':
                v2 = top_down(val)
                if v2 != val:
                    if out is None:
                        out = dict(x)
                    out[key] = v2
        return out if out is not None else x
    for blk in g.blocks.values():
        evs = []
        for e in blk.events:
            if e['ev'] == 'decl' and e.get('name') in split:
                for i in range(e['bound']):
                    d = {k: v for k, v in e.items() if k not in ('bound', 'type', 'name')}
                    d.update(name='%s[%d]' % (e['name'], i), type=el_type(e['name']), ptr='*' in el_type(e['name']))
                    evs.append(d)
                continue
            upd = {}
            for key in _EXPR_KEYS:
                if key in e and isinstance(e[key], (dict, list)):
                    v2 = top_down(e[key])
                    if v2 != e[key]:
                        upd[key] = v2
            evs.append(dict(e, **upd) if upd else e)
        blk.events = evs
        if blk.term and isinstance(blk.term.get('cond'), dict):
            c2 = top_down(blk.term['cond'])
            if c2 != blk.term['cond']:
                blk.term = dict(blk.term, cond=c2)
    return True


def _coalesce_int_copies(g):
    """Copy chains of integer locals: a local B (not a pointer, never address-taken) whose only definition is `B = A`,
    A another such local that is not assigned between the copy and any read of B, is A: its reads are replaced by reads
    of A and the copy is dropped.  This is what a flag handed back through a struct returned by value, a `$ret`
    temporary or an out-parameter becomes (`hit.drop = $ret.drop = hit@2.drop`); once the chain is collapsed the tested
    variable is the one the boolean expression was assigned to and flag partitioning applies.  True if anything changed."""
    taken = set()
    for e in g.events():
        for x in walk(e):
            if x.get('k') == 'addr':
                v = _unwrap(x.get('e'))
                if isinstance(v, dict) and v.get('k') == 'var':
                    taken.add(v['name'])

    def is_int(v):
        t = (v.get('type') or '').strip()
        return bool(t) and not v.get('ptr') and '*' not in t and '[' not in t and not t.startswith('struct ') and not t.startswith('union ')
    stores = {}
    for e in g.events():
        if e['ev'] == 'store':
            l = _unwrap(e['lhs'])
            if isinstance(l, dict) and l.get('k') == 'var':
                stores.setdefault(l['name'], []).append(e)
    pairs = {}
    for B, es in stores.items():
        if B in taken or len({e.get('loc') for e in es}) != 1:
            continue
        e = es[0]
        l = _unwrap(e['lhs'])
        r = strip_loads(e['rhs']) if e.get('op') == '=' and 'rhs' in e and isinstance(e['rhs'], dict) and e['rhs'].get('k') == 'load' else None
        if l.get('vk') == 'local' and is_int(l) and isinstance(r, dict) and r.get('k') == 'var' and r.get('vk') == 'local' \
                and is_int(r) and r['name'] not in taken and r['name'] != B and all(x.get('op') == '=' and strip_loads(x.get('rhs')) is not None
                                                                                    and isinstance(strip_loads(x['rhs']), dict)
                                                                                    and strip_loads(x['rhs']).get('name') == r['name'] for x in es):
            pairs[B] = r
    if not pairs:
        return False
    # one at a time (chains are collapsed by the fixpoint iteration of scalarize)
    for B, A in sorted(pairs.items()):
        An = A['name']

        def transfer(e, S):
            if e['ev'] == 'store':
                l = _unwrap(e['lhs'])
                if isinstance(l, dict) and l.get('k') == 'var':
                    if l['name'] == B:
                        return True
                    if l['name'] == An:
                        return False
            elif e['ev'] == 'decl' and e.get('name') in (B, An):
                return False
            return S
        _, ev_in = forward(g, False, transfer, lambda a, b: a and b)
        ok = True

        def reads_B(x):
            return any(y.get('k') == 'var' and y.get('name') == B for y in walk(x))
        for b, blk in g.blocks.items():
            for i, e in enumerate(blk.events):
                if e['ev'] in ('decl', 'enter', 'leave'):
                    continue
                for key in _EXPR_KEYS:
                    if key in e and isinstance(e[key], (dict, list)):
                        if key == 'lhs' and isinstance(_unwrap(e[key]), dict) and _unwrap(e[key]).get('k') == 'var':
                            continue
                        xs = e[key] if isinstance(e[key], list) else [e[key]]
                        if any(isinstance(x, dict) and reads_B(x) for x in xs) and not ev_in.get((b, i), False):
                            ok = False
            if blk.term and isinstance(blk.term.get('cond'), dict) and reads_B(blk.term['cond']) \
                    and not ev_in.get((b, len(blk.events)), False):
                ok = False
        if not ok:
            continue

        def rw(n):
            if n.get('k') == 'var' and n.get('name') == B:
                return dict(A)
            return n
        for blk in g.blocks.values():
            evs = []
            for e in blk.events:
                if e['ev'] == 'store' and isinstance(_unwrap(e['lhs']), dict) and _unwrap(e['lhs']).get('k') == 'var' \
                        and _unwrap(e['lhs']).get('name') == B:
                    continue
                if e['ev'] == 'decl' and e.get('name') == B:
                    continue
                upd = {}
                for key in _EXPR_KEYS:
                    if key in e and isinstance(e[key], (dict, list)):
                        v2 = _map_expr(e[key], rw)
                        if v2 is not e[key]:
                            upd[key] = v2
                evs.append(dict(e, **upd) if upd else e)
            blk.events = evs
            if blk.term and isinstance(blk.term.get('cond'), dict):
                c2 = _map_expr(blk.term['cond'], rw)
                if c2 is not blk.term['cond']:
                    blk.term = dict(blk.term, cond=c2)
        return True
    return False


def _shadow_cursors(g):
    """Pointer-to-pointer cursors: a local L that is only ever assigned addresses of pointer lvalues
    (`link = &tree->root; ... link = c ? &w->an.left : &w->an.right`) and only ever read as `*L` is replaced by a
    local `L@deref` holding the pointer stored there (`L@deref = tree->root; ... L@deref = c ? w->an.left : w->an.right`),
    provided nothing is stored through memory and nothing is called between an assignment of L and a read of `*L`
    (so that `*L` still has the value it had at the assignment).  True if anything changed."""
    taken = set()
    for e in g.events():
        for x in walk(e):
            if x.get('k') == 'addr':
                v = _unwrap(x.get('e'))
                if isinstance(v, dict) and v.get('k') == 'var':
                    taken.add(v['name'])

    def addr_tree(x):
        """the expression with every `&lv` leaf replaced by a read of lv, or None"""
        x0 = _unwrap(x)
        if not isinstance(x0, dict):
            return None
        if x0.get('k') == 'addr' and isinstance(x0.get('e'), dict) and x0['e'].get('k') in ('member', 'var', 'index', 'deref'):
            return {'k': 'load', 'e': x0['e']}
        if x0.get('k') == 'cond':
            a, b = addr_tree(x0['a']), addr_tree(x0['b'])
            return dict(x0, a=a, b=b) if a is not None and b is not None else None
        return None
    stores, bad = {}, set()
    for e in g.events():
        if e['ev'] == 'store':
            l = _unwrap(e['lhs'])
            if isinstance(l, dict) and l.get('k') == 'var' and l.get('vk') == 'local':
                t = addr_tree(e['rhs']) if e.get('op') == '=' and 'rhs' in e else None
                if t is None or not _pure_path(e['rhs']):
                    bad.add(l['name'])
                else:
                    stores.setdefault(l['name'], []).append(e)
    cands = {n for n in stores if n not in bad and n not in taken}
    if not cands:
        return False
    # every other occurrence must be a read of *L
    derefs = {n: 0 for n in cands}
    occ = {n: 0 for n in cands}

    def count(x):
        if x.get('k') == 'var' and x.get('name') in occ:
            occ[x['name']] += 1
        if x.get('k') == 'deref':
            v = _unwrap(x.get('e'))
            if isinstance(v, dict) and v.get('k') == 'var' and v.get('name') in derefs:
                derefs[v['name']] += 1
        return x
    for blk in g.blocks.values():
        for e in blk.events:
            if e['ev'] in ('enter', 'leave', 'decl'):
                continue
            if e['ev'] == 'load' and isinstance(_unwrap(e.get('e')), dict) and _unwrap(e['e']).get('k') == 'var':
                continue
            for key in _EXPR_KEYS:
                if key in e and isinstance(e[key], (dict, list)):
                    if key == 'lhs' and e['ev'] == 'store' and isinstance(_unwrap(e[key]), dict) and _unwrap(e[key]).get('k') == 'var':
                        continue
                    if key == 'lhs' and e['ev'] == 'store' and isinstance(_unwrap(e[key]), dict) and _unwrap(e[key]).get('k') == 'deref':
                        v = _unwrap(_unwrap(e[key]).get('e'))
                        if isinstance(v, dict) and v.get('k') == 'var' and v.get('name') in cands:
                            bad.add(v['name'])       # a store through the cursor
                    _map_expr(e[key], count)
        if blk.term and isinstance(blk.term.get('cond'), dict):
            _map_expr(blk.term['cond'], count)
    cands = {n for n in cands if n not in bad and occ[n] == derefs[n] and derefs[n] > 0}
    if not cands:
        return False
    # freshness of *L at its reads
    def transfer(e, S):
        if e['ev'] == 'store':
            l = _unwrap(e['lhs'])
            if isinstance(l, dict) and l.get('k') == 'var':
                if l['name'] in cands:
                    return S | {l['name']}
                return S
            return frozenset()
        if e['ev'] == 'call':
            return frozenset()
        return S
    _, ev_in = forward(g, frozenset(), transfer, lambda a, b: a & b)

    def stale_reads(x, S, out):
        for y in walk(x):
            if y.get('k') == 'deref':
                v = _unwrap(y.get('e'))
                if isinstance(v, dict) and v.get('k') == 'var' and v.get('name') in cands and v['name'] not in S:
                    out.add(v['name'])
    notfresh = set()
    for b, blk in g.blocks.items():
        for i, e in enumerate(blk.events):
            S = ev_in.get((b, i), frozenset())
            for key in _EXPR_KEYS:
                if key in e and isinstance(e[key], dict):
                    stale_reads(e[key], S, notfresh)
                elif key in e and isinstance(e[key], list):
                    for a in e[key]:
                        if isinstance(a, dict):
                            stale_reads(a, S, notfresh)
        if blk.term and isinstance(blk.term.get('cond'), dict):
            stale_reads(blk.term['cond'], ev_in.get((b, len(blk.events)), frozenset()), notfresh)
    cands -= notfresh
    if not cands:
        return False

    def shadow(v, like):
        t = (like.get('type') or '') if isinstance(like, dict) else ''
        out = {'k': 'var', 'name': v + '@deref', 'vk': 'local', 'type': t, 'ptr': True}
        if isinstance(like, dict) and like.get('trecord'):
            out['record'] = like['trecord']
        return out
    like = {}
    for n in cands:
        t = addr_tree(stores[n][0]['rhs'])
        while isinstance(t, dict) and t.get('k') == 'cond':
            t = t['a']
        like[n] = t['e'] if isinstance(t, dict) else {}

    def rw(x):
        if x.get('k') == 'deref':
            v = _unwrap(x.get('e'))
            if isinstance(v, dict) and v.get('k') == 'var' and v.get('name') in cands:
                return shadow(v['name'], like[v['name']])
        return x
    for blk in g.blocks.values():
        evs = []
        for e in blk.events:
            if e['ev'] == 'decl' and e.get('name') in cands:
                sv = shadow(e['name'], like[e['name']])
                evs.append(dict(e, name=sv['name'], type=sv['type'], ptr=True, record=sv.get('record')))
                continue
            if e['ev'] == 'load' and isinstance(_unwrap(e.get('e')), dict) and _unwrap(e['e']).get('k') == 'var' \
                    and _unwrap(e['e']).get('name') in cands:
                continue
            if e['ev'] == 'store':
                l = _unwrap(e['lhs'])
                if isinstance(l, dict) and l.get('k') == 'var' and l.get('name') in cands:
                    evs.append(dict(e, lhs=shadow(l['name'], like[l['name']]), rhs=_map_expr(addr_tree(e['rhs']), rw)))
                    continue
            upd = {}
            for key in _EXPR_KEYS:
                if key in e and isinstance(e[key], (dict, list)):
                    v2 = _map_expr(e[key], rw)
                    if v2 is not e[key]:
                        upd[key] = v2
            evs.append(dict(e, **upd) if upd else e)
        blk.events = evs
        if blk.term and isinstance(blk.term.get('cond'), dict):
            c2 = _map_expr(blk.term['cond'], rw)
            if c2 is not blk.term['cond']:
                blk.term = dict(blk.term, cond=c2)
    return True


def _renumber(g):
    for b in g.blocks.values():
        for i, e in enumerate(b.events):
            e['_b'] = b.id
            e['_i'] = i
    g._preds = None


def _rewrite_addr(prog, g):
    """Expression identities:
      * `*&x` is x, `(&x)->f` is `x.f`, `(&x)[0]` is x (what `*out = v` / `ctx->f` of a helper become once the inliner has
        substituted the argument `&x` for the parameter);
      * `*(T *)((char *)p + offsetof(R, f))` is `p->f` for p a pointer to record R;
      * an element of a const-qualified table of integers at a constant index is that integer; at a computed index of a
        table of at most 4 elements it is the conditional expression over the elements.
    True if anything changed."""
    def field_at(rec, off):
        for fl in prog.records.get(rec, {}).get('fields', []):
            if fl.get('offset') == off and not prog.records.get(rec, {}).get('union'):
                return fl
        return None

    def member_at(p, offs):
        """`p->f` for the member f of *p at the constant byte offset `offs` (a tree of conditional expressions over
        constants gives the same tree over members); None if some offset is not the start of a member"""
        o = _unwrap(offs)
        if isinstance(o, dict) and o.get('k') == 'cond':
            a, b = member_at(p, o['a']), member_at(p, o['b'])
            return dict(o, a=a, b=b) if a is not None and b is not None else None
        c = const_of(o) if isinstance(o, dict) else None
        fl = field_at(p['record'], c) if c is not None else None
        if fl is None:
            return None
        m = {'k': 'member', 'arrow': True, 'base': {'k': 'load', 'e': p}, 'field': fl['name'], 'record': p['record'],
             'type': fl.get('type', ''), 'tptr': bool(fl.get('ptr'))}
        if fl.get('record'):
            m['trecord'] = fl['record']
        return m

    static_inits = {e['name']: e for e in g.events() if e['ev'] == 'decl' and e.get('static') and isinstance(e.get('init'), dict)}

    def table_init(var):
        """initialiser of a const-qualified table (file-scope or static local) that nobody can write"""
        t = var.get('type', '')
        if 'const' not in t.split('[')[0].split('(')[0].split() and 'const' not in t.split('[')[0].split():
            return None
        if var.get('vk') == 'global':
            cands = [gl for gl in prog.globals.values() if gl.get('name') == var['name'] and not gl.get('extern_decl')
                     and isinstance(gl.get('init'), dict) and gl.get('type') == t]
            return cands[0]['init'] if len(cands) == 1 else None
        if var.get('vk') == 'staticlocal':
            d = static_inits.get(var['name'])
            return d['init'] if d is not None and d.get('type') == t else None
        return None

    def const_access(x):
        """the value of an access path `T[i].f[j]...` into a constant table: the integer at constant indices; the
        conditional expression over the alternatives (at most 8) where an index is computed; None if it is not a scalar
        integer of such a table"""
        steps = []
        m = x
        while isinstance(m, dict) and ((m.get('k') == 'index' and 'bound' in m) or (m.get('k') == 'member' and not m.get('arrow'))):
            steps.append(('idx', m['idx'], m['bound']) if m['k'] == 'index' else ('fld', m['field']))
            m = _unwrap(m['base']) if m['k'] == 'index' else m['base']
        if not steps or not (isinstance(m, dict) and m.get('k') == 'var' and m.get('vk') in ('global', 'staticlocal')):
            return None
        init = table_init(m)
        if init is None:
            return None
        steps.reverse()
        budget = [8]

        def descend(node, i):
            if i == len(steps):
                c = const_of(node) if isinstance(node, dict) and node.get('k') != 'init' else None
                return {'k': 'int', 'v': c, 'type': x.get('type', 'int')} if c is not None else None
            if not (isinstance(node, dict) and node.get('k') == 'init'):
                return None
            st = steps[i]
            if st[0] == 'fld':
                sub = (node.get('fields') or {}).get(st[1])
                return descend(sub, i + 1) if sub is not None else None
            elems = node.get('elems') or []
            c = const_of(st[1]) if isinstance(st[1], dict) else None
            if c is not None:
                return descend(elems[c], i + 1) if 0 <= c < len(elems) else None
            if not (isinstance(st[1], dict) and _pure_path(st[1])) or not elems or len(elems) != st[2]:
                return None
            budget[0] -= len(elems)
            if budget[0] < 0:
                return None
            alts = [descend(el, i + 1) for el in elems]
            if any(a is None for a in alts):
                return None
            out = alts[-1]
            for j in range(len(alts) - 2, -1, -1):
                out = {'k': 'cond', 'c': {'k': 'bin', 'op': '==', 'l': st[1], 'r': {'k': 'int', 'v': j}, 'type': 'int'},
                       'a': alts[j], 'b': out, 'type': x.get('type', 'int')}
            return out
        return descend(init, 0)

    def const_function(fe):
        """name of the function a member of a const-qualified file-scope struct / an element of a const table at a
        constant index designates"""
        fe = _unwrap(fe)
        while isinstance(fe, dict) and fe.get('k') == 'deref':
            fe = _unwrap(fe['e'])
        steps = []
        m = fe
        while isinstance(m, dict) and ((m.get('k') == 'index' and 'bound' in m) or (m.get('k') == 'member' and not m.get('arrow'))):
            steps.append(('idx', const_of(m['idx'])) if m['k'] == 'index' else ('fld', m['field']))
            m = _unwrap(m['base']) if m['k'] == 'index' else m['base']
        if not steps or not (isinstance(m, dict) and m.get('k') == 'var' and m.get('vk') in ('global', 'staticlocal')):
            return None
        node = table_init(m)
        for st in reversed(steps):
            if not (isinstance(node, dict) and node.get('k') == 'init'):
                return None
            if st[0] == 'fld':
                node = (node.get('fields') or {}).get(st[1])
            else:
                els = node.get('elems') or []
                node = els[st[1]] if st[1] is not None and 0 <= st[1] < len(els) else None
        node = strip(node) if isinstance(node, dict) else None
        if isinstance(node, dict) and node.get('k') == 'addr':
            node = strip(node['e'])
        return node['name'] if isinstance(node, dict) and node.get('k') == 'var' and node.get('vk') == 'func' else None

    def addr_deref(x):
        k = x.get('k')
        if k == 'deref':
            a = _unwrap(x.get('e'))
            if isinstance(a, dict) and a.get('k') == 'addr':
                return a['e']
            # *(T *)((char *)p + offsetof(R, f))  is  p->f
            if isinstance(a, dict) and a.get('k') == 'bin' and a.get('op') == '+':
                for pl, ol in ((a['l'], a['r']), (a['r'], a['l'])):
                    pv = _unwrap(pl)
                    if isinstance(pv, dict) and pv.get('k') == 'var' and pv.get('ptr') and pv.get('record') in prog.records:
                        inner = pl
                        while isinstance(inner, dict) and inner.get('k') == 'load':
                            inner = inner['e']
                        to = inner.get('to', '') if isinstance(inner, dict) and inner.get('k') == 'cast' else ''
                        if ' '.join(w for w in to.replace('*', ' * ').split() if w not in ('const', 'unsigned', 'signed')) not in ('char *', 'uint8_t *', 'void *'):
                            continue        # typed pointer arithmetic scales the offset
                        m = member_at(pv, ol)
                        if m is not None:
                            return m
        elif k == 'member' and x.get('arrow'):
            a = _unwrap(x.get('base'))
            if isinstance(a, dict) and a.get('k') == 'addr':
                return dict(x, arrow=False, base=a['e'])
        elif k == 'call' and x.get('callee') == 'iv_avl_tree_empty' and len(x.get('args') or []) == 1:
            # the header's definition: iv_avl_tree_empty(t) is t->root == NULL
            t = x['args'][0]
            a = _unwrap(t)
            root = {'k': 'member', 'field': 'root', 'record': TREE, 'tptr': True, 'trecord': NODE, 'type': 'struct %s *' % NODE}
            if isinstance(a, dict) and a.get('k') == 'addr':
                root.update(arrow=False, base=a['e'])
            else:
                root.update(arrow=True, base=t)
            return {'k': 'bin', 'op': '==', 'l': {'k': 'load', 'e': root}, 'r': {'k': 'null'}, 'type': 'int'}
        elif k == 'index' and 'bound' not in x:
            a = _unwrap(x.get('base'))
            if isinstance(a, dict) and a.get('k') == 'addr' and const_of(x.get('idx')) == 0:
                return a['e']
        if k in ('index', 'member'):
            v = const_access(x)
            if v is not None:
                return v
        if k == 'call' and 'callee' not in x and isinstance(x.get('fnexpr'), dict):
            f = const_function(x['fnexpr'])
            if f is not None:
                return dict({k2: v2 for k2, v2 in x.items() if k2 != 'fnexpr'}, callee=f)
        return x
    changed = _rewrite_cfg(g, addr_deref)
    for blk in g.blocks.values():
        for i, e in enumerate(blk.events):
            if e['ev'] == 'call' and 'callee' not in e and isinstance(e.get('fnexpr'), dict):
                f = const_function(e['fnexpr'])
                if f is not None:
                    blk.events[i] = dict({k2: v2 for k2, v2 in e.items() if k2 != 'fnexpr'}, callee=f)
                    changed = True
    return changed


def _sroa(prog, g):
    """Scalar replacement of aggregates: a local struct (not a union) that is only ever used through its members
    (`wk.inst`, `&wk.inst`, `cb.fn(...)`; never as a whole: no `&wk` that survives, no struct copy) is split into one
    local per member path, named `wk.inst`, carrying the member's type.  True if anything changed."""
    changed = False
    # candidates: local struct variables
    cands = {}
    for e in g.events():
        if e['ev'] == 'decl' and not e.get('ptr') and e.get('record') and 'bound' not in e and '[' not in e.get('type', '') \
                and not e.get('static') and not prog.records.get(e['record'], {}).get('union'):
            cands[e['name']] = e
    for e in g.events():
        for key in _EXPR_KEYS:
            if key in e and isinstance(e[key], (dict, list)):
                for x in ([y for a in e[key] if isinstance(a, dict) for y in walk(a)] if isinstance(e[key], list) else walk(e[key])):
                    if x.get('k') == 'var' and x.get('vk') == 'local' and str(x.get('name', '')).startswith('$ret') and x['name'] not in cands:
                        rec = _struct_record(prog, x)
                        if rec and not prog.records[rec].get('union'):
                            cands[x['name']] = {'ev': 'decl', 'name': x['name'], 'record': rec, 'type': x.get('type')}
    if cands and _tokenize_self_addresses(g, cands):
        changed = True
    if cands:
        uses = {n: 0 for n in cands}
        rooted = {n: 0 for n in cands}

        def count(x):
            if x.get('k') == 'var' and x.get('name') in uses:
                uses[x['name']] += 1
            elif x.get('k') == 'member' and not x.get('arrow'):
                m = x.get('base')
                if isinstance(m, dict) and m.get('k') == 'var' and m.get('name') in rooted:
                    rooted[m['name']] += 1
            return x
        def inert(e):
            """events that mention `&x` without using it: the record of an inlined call, the evaluation of an address"""
            if e['ev'] == 'enter' or (e['ev'] == 'ret' and e.get('chain')):
                return True         # (the return of an inlined helper: its value was stored into $retN just before)
            if e['ev'] == 'load':
                a = _unwrap(e.get('e'))
                if isinstance(a, dict) and a.get('k') == 'var':
                    return True
                return isinstance(a, dict) and a.get('k') == 'addr' and isinstance(a.get('e'), dict) and a['e'].get('k') == 'var'
            return False
        for blk in g.blocks.values():
            for e in blk.events:
                if not inert(e):
                    for key in _EXPR_KEYS:
                        if key in e and isinstance(e[key], (dict, list)):
                            _map_expr(e[key], count)
            if blk.term and isinstance(blk.term.get('cond'), dict):
                _map_expr(blk.term['cond'], count)
        for p in g.params:
            uses.pop(p['name'], None)
        split = {n for n in uses if uses[n] and uses[n] == rooted[n]}
        if split:
            def chain_of(x):
                names = []
                m = x
                while isinstance(m, dict) and m.get('k') == 'member' and not m.get('arrow'):
                    names.append(m['field'])
                    m = m['base']
                if isinstance(m, dict) and m.get('k') == 'var' and m.get('name') in split:
                    return m['name'], list(reversed(names))
                return None, None

            def as_var(x, root, names):
                t = x.get('type', '')
                v = {'k': 'var', 'name': '.'.join([root] + names), 'vk': 'local', 'type': t,
                     'ptr': bool(x.get('tptr')) or '*' in t}
                if x.get('trecord'):
                    v['record'] = x['trecord']
                return v

            def sroa(x):
                if x.get('k') == 'member' and not x.get('arrow'):
                    root, names = chain_of(x)
                    if root is not None:
                        return as_var(x, root, names)
                return x
            # outermost chains first: _map_expr works bottom-up, so rewrite only maximal chains by a top-down pass
            def top_down(x):
                if isinstance(x, list):
                    return [top_down(y) for y in x]
                if not isinstance(x, dict) or 'k' not in x:
                    return x
                y = sroa(x)
                if y is not x:
                    return y
                out = None
                for key, val in x.items():
                    if isinstance(val, (dict, list)) and not key.startswith('_') and key != 'sizeof':
                        v2 = top_down(val)
                        if v2 != val:
                            if out is None:
                                out = dict(x)
                            out[key] = v2
                return out if out is not None else x
            for blk in g.blocks.values():
                evs = []
                for e in blk.events:
                    if e['ev'] == 'decl' and e.get('name') in split:
                        flds = prog.records.get(e['record'], {}).get('fields', [])
                        for fl in flds:
                            d = {k: v for k, v in e.items() if k not in ('record', 'ptr', 'type', 'name')}
                            d.update(name='%s.%s' % (e['name'], fl['name']), type=fl.get('type', ''), ptr=bool(fl.get('ptr')))
                            if fl.get('record'):
                                d['record'] = fl['record']
                            evs.append(d)
                        if not flds:
                            evs.append(e)
                        continue
                    upd = {}
                    for key in _EXPR_KEYS:
                        if key in e and isinstance(e[key], (dict, list)):
                            v2 = top_down(e[key])
                            if v2 != e[key]:
                                upd[key] = v2
                    evs.append(dict(e, **upd) if upd else e)
                blk.events = evs
                if blk.term and isinstance(blk.term.get('cond'), dict):
                    c2 = top_down(blk.term['cond'])
                    if c2 != blk.term['cond']:
                        blk.term = dict(blk.term, cond=c2)
            changed = True
    if changed:
        _renumber(g)
    return changed


def fuse_result_copies(g):
    """`V = helper(..)` where the inlined helper returns a boolean expression and V is what gets tested
    (`alive = dispatch_one(..); ... while (alive && ..)`): the inliner leaves `$retN = <expr>; ...; V = $retN`, and
    $retN, never tested itself, is not recognised as a flag, nor is V (assigned a copy).  When the copy is the only
    read of $retN and directly follows the return from the helper, the helper's return stores are retargeted to V and
    the copy is dropped, so that flag partitioning sees `V = <boolean expr>`.  True if anything changed."""
    reads, copies, taken = {}, {}, set()
    for blk in g.blocks.values():
        prev = None
        for i, e in enumerate(blk.events):
            for key in _EXPR_KEYS:
                if key in e and isinstance(e[key], (dict, list)) and not (key == 'lhs' and isinstance(strip(e[key]), dict) and strip(e[key]).get('k') == 'var'):
                    for x in ([y for a in e[key] for y in walk(a)] if isinstance(e[key], list) else walk(e[key])):
                        if x.get('k') == 'var' and str(x.get('name', '')).startswith('$ret'):
                            reads.setdefault(x['name'], set()).add(e.get('loc'))
                        if x.get('k') == 'addr' and isinstance(strip(x.get('e')), dict) and strip(x['e']).get('k') == 'var':
                            taken.add(strip(x['e'])['name'])
            if e['ev'] == 'store' and e.get('op') == '=' and 'rhs' in e:
                l, r = strip(e['lhs']), strip(e['rhs'])
                if isinstance(l, dict) and l.get('k') == 'var' and l.get('vk') == 'local' and isinstance(r, dict) and r.get('k') == 'var' \
                        and str(r['name']).startswith('$ret') and prev is not None and prev['ev'] == 'leave' and prev.get('retvar') == r['name']:
                    copies.setdefault(r['name'], []).append((blk, e, e['lhs']))
            if e['ev'] != 'load':
                prev = e
        if blk.term and isinstance(blk.term.get('cond'), dict):
            for x in walk(blk.term['cond']):
                if x.get('k') == 'var' and str(x.get('name', '')).startswith('$ret'):
                    reads.setdefault(x['name'], set()).add('cond')
    changed = False
    for T, cs in copies.items():
        locs = {e.get('loc') for _, e, _ in cs}
        targets = {strip(l)['name'] for _, _, l in cs}
        if reads.get(T) != locs or len(targets) != 1 or T in taken or list(targets)[0] in taken:
            continue
        defs = [(blk, i, e) for blk in g.blocks.values() for i, e in enumerate(blk.events)
                if e['ev'] == 'store' and isinstance(strip(e['lhs']), dict) and strip(e['lhs']).get('k') == 'var' and strip(e['lhs'])['name'] == T]
        if not defs or not all(e.get('op') == '=' and 'rhs' in e and e.get('is_ret') for _, _, e in defs):
            continue
        if not all(isinstance(strip(e['rhs']), dict) and (strip(e['rhs']).get('k') == 'int' or _is_boolean_expr(strip(e['rhs'])))
                   for _, _, e in defs):
            continue            # only flags: a returned pointer / number keeps its temporary
        lhs = cs[0][2]
        for blk, i, e in defs:
            blk.events[i] = dict(e, lhs=lhs)
        for blk, e, _ in cs:
            blk.events = [x for x in blk.events if x is not e]
        changed = True
    if changed:
        for b in g.blocks.values():
            for i, e in enumerate(b.events):
                e['_b'] = b.id
                e['_i'] = i
    return changed


def prune_constant_branches(g):
    """Branches whose condition is a constant after the inliner substituted constant arguments (a merged entry
    point `ctl(w, 1)` / `ctl(w, 0)`, `switch (OP_ADD)`) keep only the edge that is taken; blocks that become
    unreachable are dropped.  Sound: only edges refuted by the constant itself are removed.  Mutates g (a private
    clone made by the inliner) and returns it."""
    changed = False
    for blk in g.blocks.values():
        t = blk.term
        if not t or t.get('cond') is None or len(blk.succ) < 2:
            continue
        v = const_of(t['cond'])
        if v is None:
            continue
        if t.get('cls') == 'SwitchStmt':
            cases = t.get('cases') or []
            if len(cases) != len(blk.succ):
                continue
            keep = [s for cv, s in zip(cases, blk.succ) if cv == v] or [s for cv, s in zip(cases, blk.succ) if cv == 'default']
            if len(keep) != 1:
                continue
            blk.succ = keep
            blk.term = {k: x for k, x in t.items() if k not in ('cond', 'cases')}
            blk.term.update(cls='Pruned', pruned='case %s' % v)
        elif t.get('cls') == 'MethodDispatch' or len(blk.succ) != 2:
            continue
        else:
            blk.succ = [blk.succ[0] if v else blk.succ[1]]
            blk.term = {k: x for k, x in t.items() if k != 'cond'}
            blk.term.update(cls='Pruned', pruned='true' if v else 'false')
        changed = True
    if changed:
        seen, todo = {g.entry}, [g.entry]
        while todo:
            b = todo.pop()
            for s in g.blocks[b].succ:
                if s is not None and s not in seen:
                    seen.add(s)
                    todo.append(s)
        for b in [b for b in g.blocks if b not in seen and b != g.exit]:
            del g.blocks[b]
        g._preds = None
    return g


def _func_of(prog, e, x):
    """Function a `func` variable node x mentioned by event e refers to."""
    owner = prog.funcs.get(e.get('fn')) if e.get('fn') else None
    u = prog.unit_of(owner) if owner is not None else None
    g = prog.resolve(u, x['name']) if u else None
    if g is None:
        c = [y for y in prog.all_funcs() if y.name == x['name']]
        g = c[0] if len(c) == 1 else None
    return g


def _installed(prog, reg, fields):
    g = inlined_local(prog, reg)
    out = []
    for e in g.events():
        if e['ev'] == 'store' and 'rhs' in e and last_member(e['lhs']) in fields:
            r = strip(e['rhs'])
            if isinstance(r, dict) and r.get('k') == 'addr':
                r = strip(r['e'])
            if isinstance(r, dict) and r.get('k') == 'var' and r.get('vk') == 'func':
                t = _func_of(prog, e, r)
                if t is not None and t not in out:
                    out.append(t)
    return out


def dispatcher(prog):
    """The function installed as handler_in of the instance's iv_fd during iv_inotify_register."""
    reg = prog.fn('iv_inotify_register')
    c = _installed(prog, reg, (('iv_fd', 'handler_in'), ('iv_fd_', 'handler_in')))
    if len(c) != 1:
        raise AnalysisBroken('inotify dispatcher: %d functions are installed as handler_in by iv_inotify_register (%s)'
                             % (len(c), ', '.join(x.q for x in c)))
    return c[0]


def comparator(prog):
    """The function stored into the compare slot of the instance's watch tree during iv_inotify_register."""
    reg = prog.fn('iv_inotify_register')
    c = _installed(prog, reg, ((TREE, 'compare'),))
    if len(c) != 1:
        raise AnalysisBroken('watch comparator: %d functions are stored into an iv_avl_tree compare slot by '
                             'iv_inotify_register (%s)' % (len(c), ', '.join(x.q for x in c)))
    return c[0]


# --------------------------------------------------------------------------
# small expression helpers
# --------------------------------------------------------------------------

def lvar(e):
    e = strip(e)
    if isinstance(e, dict) and e.get('k') == 'var' and e.get('vk') in ('local', 'param'):
        return e
    return None


def is_ptr_to(x, rec):
    return bool(x) and ((x.get('record') == rec and x.get('ptr')) or
                        x.get('type', '').replace('const ', '').strip() in ('struct %s *' % rec, 'struct %s *const' % rec))


def const_of(e):
    e = strip(fold(e)) if isinstance(e, dict) else e
    if isinstance(e, dict) and e.get('k') == 'int':
        return e['v']
    if isinstance(e, dict) and e.get('k') == 'null':
        return 0
    return None


def cond_arms(rhs, atoms=()):
    """[(atoms that hold, value expression)] of a (nested) conditional expression."""
    r = strip(rhs)
    if isinstance(r, dict) and r.get('k') == 'cond':
        out = []
        for pol, arm in ((True, r['a']), (False, r['b'])):
            out += cond_arms(arm, tuple(atoms) + (tuple(norm_cond(r['c'], pol)),))
        return out
    return [(tuple(atoms), rhs)]


def addr_keys(x):
    """for `&v->a.b` / `&v->a[i]`-free address computations: the variables read (no memory is read); else None"""
    s = strip(x)
    if not (isinstance(s, dict) and s.get('k') == 'addr'):
        return None
    m = strip(s['e'])
    arrows = 0
    while isinstance(m, dict) and m.get('k') == 'member':
        arrows += 1 if m['arrow'] else 0
        m = strip(m['base']) if m['arrow'] else m['base']
        if arrows and not (isinstance(m, dict) and m.get('k') == 'var'):
            return None
    if isinstance(m, dict) and m.get('k') == 'var' and arrows <= 1:
        return {('var', m['name'])}
    return None


def short(loc):
    return relpath(loc) if loc else '?'


def fn_target(e):
    """the function-pointer expression an indirect call goes through, `(*p)(...)` read as `p(...)`"""
    x = strip(e.get('fnexpr'))
    while isinstance(x, dict) and x.get('k') == 'deref':
        x = strip(x['e'])
    return x


# --------------------------------------------------------------------------
# Prov: provenance of the watch whose handler is called
# --------------------------------------------------------------------------

def _truth_valued(x):
    """the expression is a truth value (0/1) or a sum of truth values: never negative, zero iff all its terms are"""
    x = strip(x)
    if not isinstance(x, dict):
        return False
    if x.get('k') == 'un' and x.get('op') == '!':
        return True
    if x.get('k') == 'bin' and x.get('op') in CMPOPS + ('&&', '||'):
        return True
    if x.get('k') == 'bin' and x.get('op') == '+':
        return _truth_valued(x['l']) and _truth_valued(x['r'])
    return False


class Prov:
    """See module docstring.  State = (frozenset of (variable, value), frozenset of facts).

    values  ('obj', id)  tree element (node pointer or pointer to the watch containing it)
            ('null',) ('int', n)
            ('key', R)   the wd of the record variable R
            ('rec', R)   copy of the record variable R
            ('cookie', id) ('handler', id)  those fields of the watch id, read into a local
            ('expr', k)  a side-effect free expression (table self.exprs), e.g. a cached mask / tree address
    facts   ('found', id)  read out of the instance's tree since the last user callback (or NULL)
            ('cur', id)  ... and the tree was not modified since: its child pointers may be followed
            ('nn', id)   not NULL
            ('no', id, R, o)  ordering o in '<=>' of (R->wd, id.wd) is excluded by the branches taken
            ('del', id)  iv_avl_tree_delete(instance tree, id) was executed
            ('noone', id)  IN_ONESHOT is clear in id.mask;  ('noign', R)  IN_IGNORED is clear in R->mask
            ('phase', p)  none | defined (the record variable was assigned) | open (a field of the record was
                          read, nothing decided yet) | called | exhausted (a tree cursor was found NULL)
    """

    def __init__(self, prog, g, same_events=None):
        self.prog = prog
        self.g = g
        self.exprs = {}
        self.expr_keys = {}
        # stores to a record pointer that (Walk) only re-derive the pointer to the current record: not a new record
        self.same_events = same_events if same_events is not None else set()
        self.handler_locals = self._handler_locals()
        self.an_offset = next((f.get('offset') for f in prog.records.get(WATCH, {}).get('fields', []) if f['name'] == 'an'), None)
        self.sites = {}      # loc -> [dict per state]
        self.steps = {}      # (loc, dir) -> [(ok, detail)]
        self.miss = {}       # loc -> [ok]
        self.tree_reads = []  # locs at which the root / min / max of the instance tree is read
        self.run()

    # ---- site discovery (state independent) --------------------------------
    def _handler_locals(self):
        defs = {}
        for e in self.g.events():
            if e['ev'] == 'store':
                v = lvar(e['lhs'])
                if v is not None:
                    defs.setdefault(v['name'], []).append(e)
        out = set()
        for n, ds in defs.items():
            if all(d.get('op') == '=' and 'rhs' in d and last_member(d['rhs']) == (WATCH, 'handler') for d in ds):
                out.add(n)
        return out

    def is_watch_handler_call(self, e):
        if e['ev'] != 'call' or 'fnexpr' not in e:
            return False
        if callback_kind(e) == ('callback', 'inotify_watch') or last_member(fn_target(e)) == (WATCH, 'handler'):
            return True
        v = lvar(fn_target(e))
        return v is not None and v['name'] in self.handler_locals

    # ---- state helpers -------------------------------------------------------
    @staticmethod
    def freeze(vm, facts):
        return (frozenset(vm.items()), frozenset(facts))

    @staticmethod
    def thaw(st):
        return dict(st[0]), set(st[1])

    @staticmethod
    def phase(facts):
        for f in facts:
            if f[0] == 'phase':
                return f[1]
        return 'none'

    @staticmethod
    def set_phase(facts, p):
        for f in [f for f in facts if f[0] == 'phase']:
            facts.discard(f)
        facts.add(('phase', p))

    def rec_root(self, name, vm):
        v = vm.get(name)
        return v[1] if v and v[0] == 'rec' else name

    def kill_var(self, x, vm, facts):
        vm.pop(x, None)
        for y, v in list(vm.items()):
            if (v[0] in ('rec', 'key') and v[1] == x) or (v[0] == 'expr' and ('var', x) in self.expr_keys[v[1]]):
                del vm[y]
        for f in [f for f in facts if (f[0] == 'no' and f[2] == x) or (f[0] == 'noign' and f[1] == x)]:
            facts.discard(f)

    def forget_obj(self, oid, vm, facts, keep=None):
        """the site `oid` defines a new object: nothing known about the old one survives"""
        for y, v in list(vm.items()):
            if y != keep and v in (('obj', oid), ('cookie', oid), ('handler', oid)):
                del vm[y]
        for f in [f for f in facts if f[0] in ('cur', 'found', 'nn', 'no', 'del', 'noone') and f[1] == oid]:
            facts.discard(f)

    def excluded(self, oid, R, facts):
        return {f[3] for f in facts if f[0] == 'no' and f[1] == oid and f[2] == R}

    # ---- expression classification -------------------------------------------
    def resolve(self, e, vm):
        """expression a local stands for (cached pure expression), else the expression itself"""
        for _ in range(6):
            v = lvar(e)
            if v is None:
                return e
            val = vm.get(v['name'])
            if not val or val[0] != 'expr':
                return e
            e = self.exprs[val[1]]
        return e

    def var_value(self, v, vm):
        """value of a variable node; pointers to watches / tree nodes that were never assigned from the
        tree get an object of their own (so that copies of them stay recognisable)"""
        val = vm.get(v['name'])
        if val is None and (is_ptr_to(v, WATCH) or is_ptr_to(v, NODE)):
            val = ('obj', 'init:' + v['name'])
            vm[v['name']] = val
        return val

    def elem_id(self, p, vm):
        """tree element a pointer expression (node pointer or watch pointer) denotes"""
        s = strip(self.resolve(self.unwas(p, vm), vm))
        if not isinstance(s, dict):
            return None
        k = s.get('k')
        if k == 'var':
            if s.get('vk') not in ('local', 'param'):
                return None
            val = self.var_value(s, vm)
            return val[1] if val and val[0] == 'obj' else None
        if k == 'addr':
            m = strip(s['e'])
            if isinstance(m, dict) and m.get('k') == 'member' and (m.get('record'), m['field']) == (WATCH, 'an'):
                return self.elem_id(m['base'], vm) if m['arrow'] else None
            return None
        if k == 'container_of' and s.get('record') == WATCH and s.get('member') == 'an':
            return self.elem_id(s['e'], vm)
        if k == 'bin' and s['op'] == '-' and const_of(s['r']) is not None and const_of(s['r']) == self.an_offset:
            return self.elem_id(s['l'], vm)
        return None

    def is_inst_tree(self, p, vm):
        """pointer expression to the watch tree of an inotify instance"""
        s = strip(self.resolve(p, vm))
        return isinstance(s, dict) and s.get('k') == 'addr' and last_member(s['e']) == (INST, 'watches')

    def field_of_watch(self, x, field, vm):
        """object id if x is `<watch>->field`"""
        s = strip(x)
        if isinstance(s, dict) and s.get('k') == 'member' and (s.get('record'), s['field']) == (WATCH, field) and s['arrow']:
            return self.elem_id(s['base'], vm)
        return None

    def classify(self, x, vm):
        """('key', R) / ('node', id) / None for an operand of a comparison"""
        s = strip(self.resolve(x, vm))
        if not isinstance(s, dict):
            return None
        if s.get('k') == 'var':
            val = vm.get(s['name'])
            if val and val[0] == 'key':
                return ('key', val[1])
            return None
        if s.get('k') == 'member' and s['arrow']:
            lm = (s.get('record'), s['field'])
            if lm == (REC, 'wd'):
                b = lvar(s['base'])
                return ('key', self.rec_root(b['name'], vm)) if b is not None else None
            if lm == (WATCH, 'wd'):
                oid = self.elem_id(s['base'], vm)
                return ('node', oid) if oid else None
        return None

    # ---- branch facts ----------------------------------------------------------
    def unwas(self, x, vm):
        """A read that copy propagation replaced by the expression the local caches (`an == NULL` spelled
        `this->watches.root == NULL`, annotated `_was: an`) is read as the local again when that local holds a tree
        element here: the element is what the rules talk about, however its value is spelled."""
        w = x
        while isinstance(w, dict) and w.get('k') in ('load', 'cast'):
            n = w.get('_was')
            if n is not None:
                val = vm.get(n)
                if val and val[0] in ('obj', 'null'):
                    return {'k': 'var', 'name': n, 'vk': 'local'}
            w = w.get('e')
        return x

    def zero_fact(self, x, zero, vm, facts, depth=0):
        """x == 0 (zero) / x != 0 holds; False when that contradicts the state"""
        if depth > 8:
            return True
        s = strip(self.unwas(x, vm))
        if not isinstance(s, dict):
            return True
        k = s.get('k')
        if k == 'var' and s.get('vk') in ('local', 'param'):
            val = self.var_value(s, vm)
            if not val:
                return True
            if val[0] == 'null':
                return zero
            if val[0] == 'int':
                return (val[1] == 0) == zero
            if val[0] == 'obj':
                oid = val[1]
                if zero:
                    if ('nn', oid) in facts:
                        return False
                    if ('cur', oid) in facts and self.phase(facts) != 'called':
                        self.set_phase(facts, 'exhausted')
                    for y, v in list(vm.items()):
                        if v == val:
                            vm[y] = ('null',)
                else:
                    facts.add(('nn', oid))
                return True
            if val[0] == 'expr':
                return self.zero_fact(self.exprs[val[1]], zero, vm, facts, depth + 1)
            return True
        if k == 'member' and zero and (s.get('record'), s.get('field')) == (TREE, 'root') and last_member(s.get('base')) == (INST, 'watches'):
            # the root of the instance's tree tested in place (`iv_avl_tree_empty(&this->watches)`, `!this->watches.root`):
            # the cursor the lookup would start from was found NULL
            if self.phase(facts) != 'called':
                self.set_phase(facts, 'exhausted')
            return True
        if k == 'addr':
            return not zero          # the address of an object is not NULL
        if k == 'un' and s['op'] == '!':
            return self.zero_fact(s['e'], not zero, vm, facts, depth + 1)
        if k == 'bin':
            op = s['op']
            if op == '&':
                for a, b in ((s['l'], s['r']), (s['r'], s['l'])):
                    c = const_of(b)
                    if c is not None:
                        if zero:
                            self.mask_zero(a, c & 0xffffffff, vm, facts)
                        return True
                return True
            if op == '|' and zero:
                return self.zero_fact(s['l'], True, vm, facts, depth + 1) and self.zero_fact(s['r'], True, vm, facts, depth + 1)
            if op == '||' and zero:
                return self.zero_fact(s['l'], True, vm, facts, depth + 1) and self.zero_fact(s['r'], True, vm, facts, depth + 1)
            if op == '&&' and not zero:
                return self.zero_fact(s['l'], False, vm, facts, depth + 1) and self.zero_fact(s['r'], False, vm, facts, depth + 1)
            if op in ('!=', '==') and const_of(s['r']) == 0:
                return self.zero_fact(s['l'], zero == (op == '!='), vm, facts, depth + 1)
            # arithmetic on truth values: a sum of 0/1-valued terms is zero iff every term is; `sum > 0`, `sum >= 1` is `sum != 0`
            if op == '+' and zero and _truth_valued(self.resolve(s['l'], vm)) and _truth_valued(self.resolve(s['r'], vm)):
                return self.zero_fact(s['l'], True, vm, facts, depth + 1) and self.zero_fact(s['r'], True, vm, facts, depth + 1)
            if _truth_valued(self.resolve(s['l'], vm)) and ((op == '>' and const_of(s['r']) == 0) or (op == '>=' and const_of(s['r']) == 1)):
                return self.zero_fact(s['l'], not zero, vm, facts, depth + 1)
            if _truth_valued(self.resolve(s['l'], vm)) and ((op == '<' and const_of(s['r']) == 1) or (op == '<=' and const_of(s['r']) == 0)):
                return self.zero_fact(s['l'], zero, vm, facts, depth + 1)
            if op in CMPOPS:
                # the 0/1 value of a comparison: zero means the comparison is false
                return self.apply_atoms(norm_cond(s, not zero), vm, facts, depth + 1)
        return True

    def mask_zero(self, a, bits, vm, facts):
        """(a & bits) == 0 holds"""
        s = strip(self.resolve(a, vm))
        if not (isinstance(s, dict) and s.get('k') == 'member' and s['arrow']):
            return
        lm = (s.get('record'), s['field'])
        if lm == (REC, 'mask') and bits & IN_IGNORED:
            b = lvar(s['base'])
            if b is not None:
                facts.add(('noign', self.rec_root(b['name'], vm)))
        elif lm == (WATCH, 'mask') and bits & IN_ONESHOT:
            oid = self.elem_id(s['base'], vm)
            if oid:
                facts.add(('noone', oid))

    def refine(self, st, atoms):
        vm, facts = self.thaw(st)
        if not self.apply_atoms(atoms, vm, facts):
            return None
        return self.freeze(vm, facts)

    def int_value(self, x, vm):
        """(set of possible integer values) of x if it is a variable holding a constant or a 0/1-valued
        comparison result, else None"""
        v = lvar(x)
        val = vm.get(v['name']) if v is not None else None
        if not val:
            return None
        if val[0] == 'null':
            return {0}
        if val[0] == 'int':
            return {val[1]}
        if val[0] == 'expr':
            ex = strip(self.exprs[val[1]])
            if isinstance(ex, dict) and ((ex.get('k') == 'bin' and ex['op'] in CMPOPS + ('&&', '||')) or (ex.get('k') == 'un' and ex['op'] == '!')):
                return {0, 1}
        return None

    def order_fn(self, x, vm):
        """(R, oid, {ordering: value}) if the integer expression x is determined by the ordering of (wd of record R, wd of
        tree element oid): its only non-constant leaves are comparisons between those two keys; else None"""
        pair = []

        class Fail(Exception):
            pass

        def ev(e, o, depth=0):
            if depth > 24 or not isinstance(e, dict):
                raise Fail()
            k = e.get('k')
            if k in ('load', 'cast', 'paren', 'stmtexpr'):
                return ev(e.get('e'), o, depth + 1)
            c = const_of(e) if k in ('int', 'null') else None
            if c is not None:
                return c
            if k == 'var':
                val = vm.get(e['name']) if e.get('vk') in ('local', 'param') else None
                if val and val[0] == 'int':
                    return val[1]
                if val and val[0] == 'null':
                    return 0
                if val and val[0] == 'expr':
                    return ev(self.exprs[val[1]], o, depth + 1)
                raise Fail()
            if k == 'un' and e.get('op') in ('!', '-', '~'):
                v = ev(e['e'], o, depth + 1)
                return int(not v) if e['op'] == '!' else (-v if e['op'] == '-' else ~v)
            if k == 'cond':
                return ev(e['a'] if ev(e['c'], o, depth + 1) else e['b'], o, depth + 1)
            if k == 'bin':
                op = e['op']
                if op in CMPOPS:
                    a, b = self.classify(e['l'], vm), self.classify(e['r'], vm)
                    if a and b and {a[0], b[0]} == {'key', 'node'}:
                        if a[0] == 'node':
                            a, b, op = b, a, SWAPOP[op]
                        if not pair:
                            pair.append((a[1], b[1]))
                        elif pair[0] != (a[1], b[1]):
                            raise Fail()
                        return int(interp.cmp_holds(o, op))
                if op == '&&':
                    return int(bool(ev(e['l'], o, depth + 1)) and bool(ev(e['r'], o, depth + 1)))
                if op == '||':
                    return int(bool(ev(e['l'], o, depth + 1)) or bool(ev(e['r'], o, depth + 1)))
                l, r = ev(e['l'], o, depth + 1), ev(e['r'], o, depth + 1)
                if op in CMPOPS:
                    return int({'==': l == r, '!=': l != r, '<': l < r, '>': l > r, '<=': l <= r, '>=': l >= r}[op])
                if op in ('+', '-', '*', '&', '|', '^'):
                    return {'+': l + r, '-': l - r, '*': l * r, '&': l & r, '|': l | r, '^': l ^ r}[op]
                if op in ('<<', '>>') and 0 <= r < 32:
                    return (l << r) if op == '<<' else (l >> r)
            raise Fail()
        try:
            tab = {o: ev(x, o) for o in '<=>'}
        except Fail:
            return None
        if not pair:
            return None
        return pair[0][0], pair[0][1], tab

    def apply_atoms(self, atoms, vm, facts, depth=0):
        """add what the atoms (all of which hold) say to vm/facts; False when they contradict the state"""
        for (op, lc, rc, l, r) in atoms:
            if op == 'const':
                if lc == 'False':
                    return False
                continue
            if op not in CMPOPS or not isinstance(l, dict):
                continue
            cr = const_of(r) if isinstance(r, dict) else None
            if cr is not None:
                # an integer computed from comparisons of the record's wd with one node's wd (a three-way result, a packed
                # order code, an element of a sign table): a function of their ordering, tabulated over the three orderings
                of = self.order_fn(l, vm)
                if of is not None:
                    R, oid, tab = of
                    for o in '<=>':
                        n = tab[o]
                        if not {'==': n == cr, '!=': n != cr, '<': n < cr, '>': n > cr, '<=': n <= cr, '>=': n >= cr}[op]:
                            facts.add(('no', oid, R, o))
                    if len(self.excluded(oid, R, facts)) == 3:
                        return False
                    continue
                # a variable with known possible values (constant, or the 0/1 result of a comparison)
                poss = self.int_value(l, vm)
                if poss is not None:
                    ok = {n for n in poss if {'==': n == cr, '!=': n != cr, '<': n < cr, '>': n > cr, '<=': n <= cr, '>=': n >= cr}[op]}
                    if not ok:
                        return False
                    if len(poss) == 2 and len(ok) == 1:
                        if not self.zero_fact(l, 0 in ok, vm, facts, depth + 1):
                            return False
                    continue
            if cr == 0 and op in ('==', '!='):
                if not self.zero_fact(l, op == '==', vm, facts, depth + 1):
                    return False
                continue
            if cr is not None and (op, cr) in (('>', 0), ('>=', 1), ('<=', 0), ('<', 1)) and _truth_valued(self.resolve(l, vm)):
                # a count of conditions that hold, compared with zero
                if not self.zero_fact(l, (op, cr) in (('<=', 0), ('<', 1)), vm, facts, depth + 1):
                    return False
                continue
            if cr is not None and op in ('==', '!='):
                ls = strip(self.resolve(l, vm))
                # (x & BIT) == BIT  /  != BIT for a single bit
                if isinstance(ls, dict) and ls.get('k') == 'bin' and ls['op'] == '&' and cr and cr & (cr - 1) == 0 \
                        and cr in (const_of(ls['l']), const_of(ls['r'])):
                    if not self.zero_fact(ls, op == '!=', vm, facts, depth + 1):
                        return False
                continue
            if cr is not None:
                continue
            a, b = self.classify(l, vm), (self.classify(r, vm) if isinstance(r, dict) else None)
            if a and b and {a[0], b[0]} == {'key', 'node'}:
                if a[0] == 'node':
                    a, b, op = b, a, SWAPOP[op]
                R, oid = a[1], b[1]
                for o in '<=>':
                    if not interp.cmp_holds(o, op):
                        facts.add(('no', oid, R, o))
                if len(self.excluded(oid, R, facts)) == 3:
                    return False
        return True

    # ---- transfer ---------------------------------------------------------------
    def new_obj(self, e, x, vm, facts, cur):
        oid = short(e['loc'])
        self.forget_obj(oid, vm, facts, keep=None)
        vm[x] = ('obj', oid)
        if cur:
            facts.add(('cur', oid))
            facts.add(('found', oid))
        return oid

    def assign(self, e, x, xnode, rhs, vm, facts, obs):
        """x = rhs (rhs without conditional expression)"""
        s = strip(rhs)
        val = None
        newobj = None          # (cur?) when the rhs reads a fresh element out of the tree
        if isinstance(s, dict):
            k = s.get('k')
            c = const_of(s) if k in ('int', 'null', 'un', 'bin') else None
            if c is not None:
                val = ('null',) if c == 0 else ('int', c)
            elif k == 'var' and s.get('vk') in ('local', 'param'):
                if is_ptr_to(xnode, REC) and is_ptr_to(s, REC):
                    val = ('rec', self.rec_root(s['name'], vm))
                else:
                    val = self.var_value(s, vm)
            elif k == 'member':
                lm = (s.get('record'), s['field'])
                if lm == (TREE, 'root'):
                    base = s['base'] if s['arrow'] else {'k': 'addr', 'e': s['base']}
                    if self.is_inst_tree(base, vm):
                        newobj = True
                        if obs is not None:
                            obs.append(('tree', e['loc']))
                            # a lookup starts although the current record was already delivered / given up: the walk
                            # did not advance (the same record is dispatched again, or the loop spins on it)
                            if self.phase(facts) in ('called', 'exhausted'):
                                obs.append(('miss', e['loc'], False))
                elif lm in ((NODE, 'left'), (NODE, 'right')):
                    if s['arrow']:
                        oid0 = self.elem_id(s['base'], vm)
                    else:
                        oid0 = self.elem_id({'k': 'addr', 'e': s['base']}, vm)
                    need = {'=', '>'} if s['field'] == 'left' else {'=', '<'}
                    ok = bool(oid0) and ('cur', oid0) in facts and \
                        any(need <= self.excluded(oid0, f[2], facts) for f in facts if f[0] == 'no' and f[1] == oid0)
                    if obs is not None:
                        obs.append(('step', e['loc'], s['field'], ok, canon(rhs)))
                    newobj = bool(oid0) and ('cur', oid0) in facts
                elif lm == (REC, 'wd') and s['arrow'] and lvar(s['base']) is not None:
                    val = ('key', self.rec_root(lvar(s['base'])['name'], vm))
                elif lm in ((WATCH, 'cookie'), (WATCH, 'handler')) and s['arrow']:
                    oid0 = self.elem_id(s['base'], vm)
                    if oid0:
                        val = (s['field'], oid0)
            elif k == 'container_of' or (k == 'bin' and s['op'] == '-' and is_ptr_to(xnode, WATCH)):
                oid0 = self.elem_id(s, vm)
                if oid0:
                    val = ('obj', oid0)
            elif k == 'addr' and is_ptr_to(xnode, NODE) and self.elem_id(s, vm):
                val = ('obj', self.elem_id(s, vm))        # `victim = &w->an`: the node of that watch
            elif k == 'call' and s.get('callee') in ('iv_avl_tree_min', 'iv_avl_tree_max') and s.get('args'):
                newobj = self.is_inst_tree(s['args'][0], vm)
                if newobj and obs is not None:
                    obs.append(('tree', e['loc']))
            elif k == 'call' and s.get('callee') in ('iv_avl_tree_next', 'iv_avl_tree_prev') and s.get('args'):
                oid0 = self.elem_id(s['args'][0], vm)
                newobj = bool(oid0) and ('cur', oid0) in facts
            if val is None and newobj is None and k not in ('var', 'int', 'null') and _pure_path(rhs) \
                    and not any(y.get('k') == 'var' and y.get('name') == x for y in walk(rhs)):
                key = '%s@%s' % (canon(rhs), short(e['loc']))
                self.exprs[key] = rhs
                self.expr_keys[key] = frozenset(addr_keys(rhs) or _keys_read(rhs))
                val = ('expr', key)
        self.kill_var(x, vm, facts)
        if is_ptr_to(xnode, REC) and not (val and val[0] == 'rec') and id(e) in self.same_events:
            # the pointer to the current record computed once more (`it->base + it->pos` again, to read ->len): another
            # name of the current record
            cur = [y for y, v in vm.items() if v[0] == 'rec']
            roots = {vm[y][1] for y in cur}
            if len(roots) == 1:
                vm[x] = ('rec', roots.pop())
                return
            if not cur and self.phase(facts) != 'none':
                # the record variable itself went out of scope: x takes over as the record
                vm[x] = ('rec', x)
                return
        if is_ptr_to(xnode, REC) and not (val and val[0] == 'rec'):
            # a new record: the previous one must have been delivered or its lookup exhausted
            if obs is not None:
                obs.append(('miss', e['loc'], self.phase(facts) != 'open'))
            self.set_phase(facts, 'defined')
            src = lvar(rhs)
            if src is not None and src['name'] != x:
                self.kill_var(src['name'], vm, facts)
                vm[src['name']] = ('rec', x)
            return
        if newobj is not None:
            self.new_obj(e, x, vm, facts, cur=bool(newobj))
        elif val is not None:
            vm[x] = val
        elif is_ptr_to(xnode, WATCH) or is_ptr_to(xnode, NODE):
            self.new_obj(e, x, vm, facts, cur=False)

    def after_user_code(self, vm, facts):
        ph = self.phase(facts)
        facts.clear()
        facts.add(('phase', ph))
        for y, v in list(vm.items()):
            if v[0] in ('key', 'cookie', 'handler') or (v[0] == 'expr' and any(kk[0] != 'var' for kk in self.expr_keys[v[1]])):
                del vm[y]

    def call_obs(self, e, vm, facts):
        """what is known at a watch handler call"""
        fx = fn_target(e)
        oid, wname = None, canon(e['fnexpr'])
        if isinstance(fx, dict) and fx.get('k') == 'member' and fx['arrow']:
            oid = self.elem_id(fx['base'], vm)
            wname = canon(fx['base'])
        elif lvar(fx) is not None:
            val = vm.get(lvar(fx)['name'])
            oid = val[1] if val and val[0] == 'handler' else None
        args = e.get('args', [])
        R = None
        if len(args) >= 2 and lvar(args[1]) is not None:
            a1 = lvar(args[1])
            if is_ptr_to(a1, REC) or (vm.get(a1['name']) or ('',))[0] == 'rec':
                R = self.rec_root(a1['name'], vm)
        cookie = False
        if args and oid:
            a0 = lvar(args[0])
            cookie = self.field_of_watch(args[0], 'cookie', vm) == oid or \
                (a0 is not None and vm.get(a0['name']) == ('cookie', oid))
        ex = self.excluded(oid, R, facts) if oid and R else set()
        return {
            'watch': wname, 'rec': R, 'obj': oid,
            'found': bool(oid) and ('found', oid) in facts,
            'match': {'<', '>'} <= ex,
            'nonnull': bool(oid) and ('nn', oid) in facts,
            'cookie': cookie, 'recarg': R is not None,
            'dropped': bool(oid) and (('del', oid) in facts or (('noone', oid) in facts and R is not None and ('noign', R) in facts)),
            'why': 'deleted' if oid and ('del', oid) in facts else
                   ('IN_IGNORED %s, IN_ONESHOT %s' % ('known clear' if R and ('noign', R) in facts else 'possibly set',
                                                      'known clear' if oid and ('noone', oid) in facts else 'possibly set')),
        }

    @staticmethod
    def touches_record(e):
        for key in ('e', 'rhs', 'lhs', 'args', 'value', 'init'):
            if key in e:
                for x in walk(e[key]):
                    if x.get('k') == 'member' and x.get('record') == REC and x.get('arrow'):
                        return True
        return False

    def tr_one(self, e, st, obs=None):
        ev = e['ev']
        if ev in ('enter', 'leave'):
            return [st]
        if self.phase(st[1]) in ('none', 'defined') and self.touches_record(e):
            vm, facts = self.thaw(st)
            self.set_phase(facts, 'open')
            st = self.freeze(vm, facts)
        if ev in ('load', 'ret'):
            return [st]
        vm, facts = self.thaw(st)
        if ev == 'decl':
            self.kill_var(e['name'], vm, facts)
            return [self.freeze(vm, facts)]
        if ev == 'store':
            xn = lvar(e['lhs']) if strip(e['lhs']).get('k') == 'var' else None
            if xn is not None:
                x = xn['name']
                if e.get('op') != '=' or 'rhs' not in e:
                    self.kill_var(x, vm, facts)
                    if is_ptr_to(xn, WATCH) or is_ptr_to(xn, NODE):
                        self.new_obj(e, x, vm, facts, cur=False)
                    return [self.freeze(vm, facts)]
                out = []
                for atoms, arm in cond_arms(e['rhs']):
                    st2 = self.freeze(vm, facts)
                    for at in atoms:
                        st2 = self.refine(st2, at) if st2 is not None else None
                    if st2 is None:
                        continue
                    vm2, f2 = self.thaw(st2)
                    self.assign(e, x, xn, arm, vm2, f2, obs)
                    out.append(self.freeze(vm2, f2))
                return out
            # store to memory
            steps = set(lvalue_steps(e['lhs']))
            lm = last_member(e['lhs'])
            if lm:
                steps.add(lm)
            top = strip(e['lhs'])
            if top.get('k') in ('deref', 'index'):
                steps.add(('mem', '*'))
            if steps & {(WATCH, 'wd'), (REC, 'wd')}:
                for f in [f for f in facts if f[0] == 'no']:
                    facts.discard(f)
                for y, v in list(vm.items()):
                    if v[0] == 'key':
                        del vm[y]
            if (WATCH, 'mask') in steps:
                for f in [f for f in facts if f[0] == 'noone']:
                    facts.discard(f)
            if (REC, 'mask') in steps:
                for f in [f for f in facts if f[0] == 'noign']:
                    facts.discard(f)
            if steps & {(NODE, 'left'), (NODE, 'right'), (TREE, 'root')}:
                for f in [f for f in facts if f[0] == 'cur']:
                    facts.discard(f)
            if (WATCH, 'cookie') in steps or (WATCH, 'handler') in steps:
                for y, v in list(vm.items()):
                    if v[0] in ('cookie', 'handler'):
                        del vm[y]
            for y, v in list(vm.items()):
                if v[0] == 'expr' and self.expr_keys[v[1]] & steps:
                    del vm[y]
            return [self.freeze(vm, facts)]
        if ev == 'call':
            if 'fnexpr' in e:
                if self.is_watch_handler_call(e):
                    if obs is not None:
                        obs.append(('site', e['loc'], self.call_obs(e, vm, facts)))
                    self.set_phase(facts, 'called')
                self.after_user_code(vm, facts)
                return [self.freeze(vm, facts)]
            nm = e.get('callee')
            args = e.get('args', [])
            if nm in ('iv_avl_tree_delete', 'iv_avl_tree_insert') and len(args) >= 2 and self.is_inst_tree(args[0], vm):
                oid = self.elem_id(args[1], vm)
                for f in [f for f in facts if f[0] == 'cur']:
                    facts.discard(f)
                if oid:
                    if nm == 'iv_avl_tree_delete':
                        facts.add(('del', oid))
                    else:
                        facts.discard(('del', oid))
            for a in args:
                a = strip(a)
                if isinstance(a, dict) and a.get('k') == 'addr' and lvar(a['e']) is not None:
                    self.kill_var(lvar(a['e'])['name'], vm, facts)
            return [self.freeze(vm, facts)]
        return [st]

    def gc(self, st, live):
        """forget dead variables and what is known about objects / records nothing refers to any more
        (keeps the number of distinct states small; no obligation can depend on what is dropped)"""
        vm, facts = self.thaw(st)
        if live is not None:
            keep = set(live)
            work = list(keep)
            while work:
                y = work.pop()
                v = vm.get(y)
                if not v:
                    continue
                refs = set()
                if v[0] in ('rec', 'key'):
                    refs.add(v[1])
                elif v[0] == 'expr':
                    refs |= {kk[1] for kk in self.expr_keys[v[1]] if kk[0] == 'var'}
                for z in refs - keep:
                    keep.add(z)
                    work.append(z)
            for y in [y for y in vm if y not in keep]:
                del vm[y]
        else:
            keep = None
        held = {v[1] for v in vm.values() if v[0] in ('obj', 'cookie', 'handler')}
        for f in list(facts):
            if f[0] in ('cur', 'found', 'nn', 'no', 'del', 'noone') and f[1] not in held:
                facts.discard(f)
            elif keep is not None and ((f[0] == 'no' and f[2] not in keep) or (f[0] == 'noign' and f[1] not in keep)):
                facts.discard(f)
        return self.freeze(vm, facts)

    def transfer(self, e, S):
        out = set()
        live = self.live_after.get((e.get('_b'), e.get('_i')))
        for st in S:
            for st2 in self.tr_one(e, st):
                out.add(self.gc(st2, live))
        if len(out) > MAXSTATES:
            raise AnalysisBroken('state explosion in the provenance analysis of %s' % self.g.name)
        return frozenset(out)

    def edge(self, blk, si, S):
        if blk.term and blk.term.get('cls') == 'SwitchStmt' and isinstance(blk.term.get('cond'), dict):
            # `switch (x)`: x == v on the edge of `case v`, x != every case value on the default edge
            cases = blk.term.get('cases') or []
            c = blk.term['cond']
            if si >= len(cases) or len(cases) != len(blk.succ) or not _pure_path(c):
                return S
            same = [cv for j, cv in enumerate(cases) if blk.succ[j] == blk.succ[si]]
            if len(same) != 1:
                return S
            if isinstance(cases[si], int):
                atoms = [('==', canon(c), str(cases[si]), c, {'k': 'int', 'v': cases[si]})]
            elif cases[si] == 'default':
                atoms = [('!=', canon(c), str(cv), c, {'k': 'int', 'v': cv}) for cv in cases if isinstance(cv, int)]
            else:
                return S
            out = set()
            for st in S:
                r = self.refine(st, atoms)
                if r is not None:
                    out.add(r)
            return frozenset(out) if out else None
        if not blk.term or len(blk.succ) != 2 or blk.term.get('cond') is None \
                or blk.term.get('cls') in ('SwitchStmt', 'MethodDispatch'):
            return S
        atoms = norm_cond(blk.term['cond'], si == 0)
        out = set()
        for st in S:
            r = self.refine(st, atoms)
            if r is not None:
                out.add(r)
        return frozenset(out) if out else None

    def run(self):
        from ..analyses import liveness
        g = self.g
        names = {x['name'] for e in g.events() for x in walk(e) if x.get('k') == 'var' and x.get('vk') in ('local', 'param')}
        names |= {e['name'] for e in g.events() if e['ev'] == 'decl'}
        for blk in g.blocks.values():
            if blk.term and blk.term.get('cond') is not None:
                names |= {x['name'] for x in walk(blk.term['cond']) if x.get('k') == 'var' and x.get('vk') in ('local', 'param')}
        # variables whose address is taken may be read through the pointer: never considered dead
        taken = {lvar(x['e'])['name'] for e in g.events() for x in walk(e) if x.get('k') == 'addr' and lvar(x['e']) is not None}
        la = liveness(g, names)
        self.live_after = {k: (v | taken) for k, v in la.items()}
        init = frozenset([self.freeze({}, {('phase', 'none')})])
        _, ev_in = forward(g, init, self.transfer, lambda a, b: a | b, edge=self.edge)
        self.ev_in = ev_in
        obs = []
        for b, blk in g.blocks.items():
            for i, e in enumerate(blk.events):
                for st in ev_in.get((b, i), ()):
                    self.tr_one(e, st, obs)
                if e['ev'] == 'ret' and not e.get('chain'):
                    for st in ev_in.get((b, i), ()):
                        obs.append(('miss', e['loc'], self.phase(st[1]) != 'open'))
        for st in ev_in.get((g.exit, 0), ()):
            obs.append(('miss', g.endloc or g.loc, self.phase(st[1]) != 'open'))
        for o in obs:
            if o[0] == 'site':
                self.sites.setdefault(o[1], []).append(o[2])
            elif o[0] == 'step':
                self.steps.setdefault((o[1], o[2]), []).append((o[3], o[4]))
            elif o[0] == 'miss':
                self.miss.setdefault(o[1], []).append(o[2])
            elif o[0] == 'tree' and o[1] not in self.tree_reads:
                self.tree_reads.append(o[1])
        self.handler_sites = sorted({e['loc'] for e in g.events() if self.is_watch_handler_call(e)})


def with_address_copies_resolved(g):
    """Clone of g in which a store of a local that only ever holds `&var` (`self = (void **)&this; x->term = self`)
    stores that address expression itself, so that address publication is seen whichever way it is spelled."""
    defs = _single_defs(g)
    addr = {}
    for n, d in defs.items():
        r = strip(d['rhs'])
        if isinstance(r, dict) and r.get('k') == 'addr' and lvar(r['e']) is not None:
            addr[n] = d['rhs']
    if not addr:
        return g
    g2 = clone_cfg(g)
    for blk in g2.blocks.values():
        evs = []
        for e in blk.events:
            v = lvar(e['rhs']) if e['ev'] == 'store' and e.get('op') == '=' and 'rhs' in e else None
            if v is not None and v['name'] in addr and strip(e['lhs']).get('k') != 'var':
                e = dict(e, rhs=addr[v['name']])
            evs.append(e)
        blk.events = evs
    return g2


# --------------------------------------------------------------------------
# Stale: what may be touched after a handler ran
# --------------------------------------------------------------------------

def pointer_sources(rhs):
    """Names of the variables a pointer value is a copy of or is derived from without reading memory
    (casts, `&v->a.b`, `&v->a[i]`, iv_container_of(v, ..), `v +/- k`, arms of a conditional expression);
    empty when the value is fresh (read from memory, returned by a call, a constant)."""
    s = strip(rhs)
    if not isinstance(s, dict):
        return set()
    k = s.get('k')
    if k == 'var':
        return {s['name']} if s.get('vk') != 'func' else set()
    if k == 'addr':
        m = strip(s['e'])
        arrow = False
        while isinstance(m, dict) and m.get('k') in ('member', 'index'):
            if m['k'] == 'member':
                if m['arrow']:
                    if arrow:
                        return set()            # &v->a->b reads memory: a fresh value
                    arrow = True
                m = strip(m['base'])
            else:
                m = strip(m['base']) if 'bound' in m else None
        if isinstance(m, dict) and m.get('k') == 'var' and arrow:
            return {m['name']}
        return set()
    if k == 'container_of':
        return pointer_sources(s['e'])
    if k == 'bin' and s['op'] in ('+', '-'):
        out = pointer_sources(s['l'])
        if s['op'] == '+':
            out = out | pointer_sources(s['r'])
        return out
    if k == 'cond':
        return pointer_sources(s['a']) | pointer_sources(s['b'])
    return set()


def stale_after_handler(g, is_callback, records, term):
    """Forward may-analysis of the (inlined) dispatcher g: which pointers may refer to an object a user callback
    has unregistered / freed.

    Tracked are the pointer variables to user-owned records (`records`) *and every variable that is a copy of one
    or is derived from one without reading memory* (the void * the instance came in as, `t = &inst->watches`,
    `an`/iv_container_of(an), helper parameters): the classes of the relation "v is assigned a copy/derivation of u".
    After a callback every tracked variable is stale.  An assignment makes its target as stale as its sources
    (fresh when the value is read from memory or returned by a call).  The only thing that vouches for an object
    after user code ran is the library's own liveness protocol: `X->term = &P` (store to the record/field `term`)
    publishes the local P as the slot iv_inotify_unregister() nulls; while that publication is in place and P was
    not written by the dispatcher itself, the edge `P != NULL` revives X (the instance the slot was published for), the
    variables X was copied from and those only ever derived from them, whatever P is (the instance pointer itself, a
    dedicated flag word, a member of a context struct, ...).

    Returns (reports [(event, variable, access, callback loc)], {tracked variable: record kind}, {P: [X...]})."""
    from ..analyses import derefs_by_event, _top_deref
    objvars = {}
    for e in g.events():
        for x in walk(e):
            if x.get('k') == 'var' and x.get('vk') in ('local', 'param') and x.get('ptr') and x.get('record') in records:
                objvars[x['name']] = x['record']
        if e['ev'] == 'decl' and e.get('ptr') and e.get('record') in records:
            objvars[e['name']] = e['record']
    for p in g.params:
        if p.get('ptr') and p.get('record') in records:
            objvars[p['name']] = p['record']
    # classes of the copy/derivation relation
    parent = {}

    def find(a):
        parent.setdefault(a, a)
        while parent[a] != a:
            parent[a] = parent[parent[a]]
            a = parent[a]
        return a
    for e in g.events():
        if e['ev'] == 'store' and e.get('op') == '=' and 'rhs' in e:
            l = strip(e['lhs'])
            lname = l['name'] if isinstance(l, dict) and l.get('k') == 'var' else None
            if lname is not None:
                for u in pointer_sources(e['rhs']):
                    parent[find(u)] = find(lname)
    cls = {}
    for n in list(parent):
        cls.setdefault(find(n), set()).add(n)
    for n in objvars:
        cls.setdefault(find(n), set()).add(n)
    order = list(records)
    kind = {}
    for root, members in cls.items():
        recs = sorted({objvars[m] for m in members if m in objvars}, key=order.index)
        if recs:
            for m in members:
                kind[m] = recs[0]
    tracked = set(kind)
    # definitions per variable: {loc: sources or None (fresh value)}
    defs_of = {}
    for e in g.events():
        if e['ev'] == 'store' and e.get('op') == '=' and 'rhs' in e:
            l = strip(e['lhs'])
            if isinstance(l, dict) and l.get('k') == 'var':
                src = pointer_sources(e['rhs'])
                defs_of.setdefault(l['name'], {})[e.get('loc')] = frozenset(src) if src else None

    def vouched(X):
        """the variables that hold (a pointer into) the object X points to whenever they hold anything: the variables X
        was copied / derived from through single definitions, and every variable all of whose definitions copy or
        derive from those (flow-insensitive, so a temporary that is also used for something else is excluded)"""
        G, todo = {X}, [X]
        while todo:
            v = todo.pop()
            ds = defs_of.get(v, {})
            if len(ds) == 1 and list(ds.values())[0]:
                for u in list(ds.values())[0]:
                    if u not in G:
                        G.add(u)
                        todo.append(u)
        grew = True
        while grew:
            grew = False
            for v, ds in defs_of.items():
                if v not in G and ds and all(srcs and srcs <= G for srcs in ds.values()):
                    G.add(v)
                    grew = True
        return G
    # publications of a liveness slot
    pubs = {}            # id(event) -> P
    markers = {}         # P -> variables vouched for
    for e in g.events():
        if e['ev'] == 'store' and last_member(e['lhs']) == term and 'rhs' in e:
            r = strip(e['rhs'])
            if isinstance(r, dict) and r.get('k') == 'addr' and lvar(r['e']) is not None:
                P = lvar(r['e'])['name']
                pubs[id(e)] = P
                X = _top_deref(e['lhs'])
                markers.setdefault(P, set())
                if X is not None:
                    markers[P] |= vouched(X['name'])

    def stale_of(S, n):
        for x in S:
            if x[0] == 's' and x[1] == n:
                return x[2]
        return None

    def transfer(e, S):
        if e['ev'] == 'store':
            l = strip(e['lhs'])
            if isinstance(l, dict) and l.get('k') == 'var':
                n = l['name']
                if n in markers and ('u', n) not in S and id(e) not in pubs:
                    S = S | {('u', n)}        # the dispatcher itself overwrote the published slot
                if n in tracked and e.get('op') == '=' and 'rhs' in e:
                    src = [stale_of(S, u) for u in pointer_sources(e['rhs'])]
                    src = [x for x in src if x is not None]
                    S = frozenset(x for x in S if not (x[0] == 's' and x[1] == n))
                    if src:
                        S = S | {('s', n, src[0])}
            elif last_member(e['lhs']) == term:
                P = pubs.get(id(e))
                S = frozenset(x for x in S if not (x[0] == 'u' and x[1] == P)) | {('u', q) for q in markers if q != P}
        elif e['ev'] == 'decl':
            if stale_of(S, e['name']) is not None:
                S = frozenset(x for x in S if not (x[0] == 's' and x[1] == e['name']))
        elif e['ev'] == 'call':
            if is_callback(e):
                S = frozenset(x for x in S if x[0] != 's') | {('s', v, e.get('loc')) for v in tracked}
        return S

    def edge(blk, si, S):
        if not S or not blk.term or blk.term.get('cond') is None or len(blk.succ) != 2:
            return S
        if blk.term.get('cls') in ('SwitchStmt', 'MethodDispatch'):
            return S
        for (op, lc, rc, l, r) in norm_cond(blk.term['cond'], si == 0):
            v = lvar(l) if isinstance(l, dict) else None
            if op == '!=' and rc == '0' and v is not None and v['name'] in markers and ('u', v['name']) not in S:
                alive = markers[v['name']]
                S = frozenset(x for x in S if not (x[0] == 's' and x[1] in alive))
        return S

    init = frozenset(('u', P) for P in markers)
    _, ev_in = forward(g, init, transfer, lambda a, b: a | b, edge=edge)
    reports = []
    for b, blk in g.blocks.items():
        for i, e in enumerate(blk.events):
            S = ev_in.get((b, i))
            if not S or not any(x[0] == 's' for x in S):
                continue
            names = {x[1]: x[2] for x in S if x[0] == 's'}
            seen = set()
            for (v, acc) in derefs_by_event(e):
                if v['name'] in names and (v['name'], acc) not in seen:
                    seen.add((v['name'], acc))
                    reports.append((e, v['name'], acc, names[v['name']]))
            if e['ev'] == 'call':
                # a stale pointer handed to a function that is not analysed inline
                for a in e.get('args', []):
                    v = lvar(a)
                    if v is not None and v['name'] in names and v.get('ptr', True) and (v['name'], v['name']) not in seen:
                        seen.add((v['name'], v['name']))
                        reports.append((e, v['name'], '%s (passed to %s)' % (v['name'], e.get('callee') or 'the callee'), names[v['name']]))
    return reports, kind, {P: sorted(vs) for P, vs in markers.items()}


def prov(prog):
    c = _cache(prog)
    if 'prov' not in c:
        g = inlined_local(prog, dispatcher(prog))
        # the walk analysis first (it only needs to know which calls are watch handler calls): it tells which stores to a
        # record pointer merely re-derive the current record
        p0 = Prov.__new__(Prov)
        p0.prog, p0.g, p0.exprs, p0.expr_keys = prog, g, {}, {}
        p0.handler_locals = p0._handler_locals()
        w = Walk(prog, g, p0.is_watch_handler_call)
        c['walk'] = w
        c['prov'] = Prov(prog, g, same_events=w.same_events)
    return c['prov']


# --------------------------------------------------------------------------
# Walk: the record pointer sequence
# --------------------------------------------------------------------------

_BYTE = {'void', 'char', 'unsigned char', 'signed char', 'uint8_t', 'int8_t', '__u8', 'u_int8_t'}


class Walk:
    """Values are linear forms (base, bytes, k): base + bytes + k * REC->len with base one of
    ('arr', local array A), 'REC' (the record most recently defined), None (an integer),
    ('off', A) (an integer: the offset of REC within the array A; A + that = REC)."""

    def __init__(self, prog, g, is_handler_call):
        self.prog = prog
        self.g = g
        self.is_handler_call = is_handler_call
        self.recsize = prog.records.get(REC, {}).get('size')
        if not self.recsize:
            raise AnalysisBroken('size of struct inotify_event unknown')
        self.recdefs = {}       # loc -> [(value, ok-candidate)]
        self.delivered = {}     # loc -> [ok]
        self.readbufs = set()
        self.same_events = set()    # id(store event): in every state it re-derives the pointer to the current record
        self._kinds = {}            # id(store event) -> set of observation kinds
        self.run()
        self.same_events = {i for i, ks in self._kinds.items() if ks == {'same'}}

    # ---- types ---------------------------------------------------------------
    def typeof(self, x):
        if not isinstance(x, dict):
            return None
        k = x.get('k')
        if k in ('load', 'stmtexpr', 'paren'):
            return self.typeof(x.get('e'))
        if k == 'cast':
            return x.get('to') or self.typeof(x.get('e'))
        if k in ('var', 'member', 'call', 'index'):
            return x.get('type')
        if k == 'addr':
            t = self.typeof(x['e'])
            return (t + ' *') if t else None
        if k == 'bin' and x['op'] in ('+', '-'):
            for s in ('l', 'r'):
                t = self.typeof(x[s])
                if t and (t.rstrip().endswith('*') or t.rstrip().endswith(']')):
                    return t
            return self.typeof(x['l'])
        return x.get('type')

    @staticmethod
    def unqual(t):
        """type string without trailing qualifiers of the outermost level (`uint8_t *const` -> `uint8_t *`)"""
        t = (t or '').strip()
        while True:
            for q in ('const', 'volatile', 'restrict', '__restrict'):
                if t.endswith(q) and (len(t) == len(q) or not (t[-len(q) - 1].isalnum() or t[-len(q) - 1] == '_')):
                    t = t[:-len(q)].rstrip()
                    break
            else:
                return t

    def pointee_size(self, t):
        if not t:
            return None
        t = self.unqual(t)
        if t.endswith(']'):
            el = t[:t.index('[')].strip()
        elif t.endswith('*'):
            el = t[:-1].strip()
        else:
            return None
        el = ' '.join(w for w in el.split() if w not in ('const', 'volatile', 'restrict'))
        if el in _BYTE:
            return 1
        if el.startswith('struct '):
            r = self.prog.records.get(el[7:].strip())
            return r.get('size') if r else None
        return {'short': 2, 'unsigned short': 2, 'uint16_t': 2, 'int': 4, 'unsigned int': 4, 'uint32_t': 4,
                'int32_t': 4, 'long': 8, 'unsigned long': 8, 'uint64_t': 8, 'int64_t': 8, 'size_t': 8, 'ssize_t': 8}.get(el)

    def scale_of(self, x):
        """what 1 is worth in bytes when added to the expression x: the size of its pointee, 1 for an address kept in an
        integer (uintptr_t)"""
        t = self.typeof(x)
        return self.pointee_size(t) if self.is_ptr_type(t) else 1

    def is_ptr_type(self, t):
        t = self.unqual(t)
        return bool(t) and (t.endswith('*') or t.endswith(']'))

    # ---- values ----------------------------------------------------------------
    # (base, c, k, r, o) = base + c + k*LEN + r*RET + o*OFF
    #   base  None (an integer) or ('arr', A) (the address of the local array A)
    #   LEN   the len field of the current record, RET the value read() returned, OFF the offset of the current
    #         record in its array (REC = A + OFF).  While OFF is a known constant ('#rec' = (A, c0)) no value
    #         carries an OFF term (canonical form); after `rec = A + c + LEN` it is symbolic.
    @staticmethod
    def is_ptr(v):
        return v[0] is not None

    @classmethod
    def add(cls, a, b, scale=1, sign=1):
        """a + sign * scale * b; scale applies to the integer operand of pointer arithmetic"""
        if a is None or b is None or scale is None:
            return None
        if b[0] is not None:
            if a[0] is None and sign > 0:
                a, b = b, a
            elif a[0] == b[0] and sign < 0 and scale == 1:
                return (None, a[1] - b[1], a[2] - b[2], a[3] - b[3], a[4] - b[4])
            else:
                return None
        s = sign * scale
        return (a[0], a[1] + s * b[1], a[2] + s * b[2], a[3] + s * b[3], a[4] + s * b[4])

    @staticmethod
    def rec_val(vm):
        """canonical value of the pointer to the current record, None before the first record"""
        r = vm.get('#rec')
        if not r:
            return None
        return (('arr', r[0]), r[1], 0, 0, 0) if r[1] is not None else (('arr', r[0]), 0, 0, 0, 1)

    @staticmethod
    def fold_off(v, vm):
        r = vm.get('#rec')
        if v is not None and v[4] != 0 and r and r[1] is not None:
            return (v[0], v[1] + v[4] * r[1], v[2], v[3], 0)
        return v

    def lin(self, x, vm):
        return self.fold_off(self.lin1(x, vm), vm)

    def lin1(self, x, vm):
        if not isinstance(x, dict):
            return None
        k = x.get('k')
        if k in ('load', 'cast', 'stmtexpr', 'paren'):
            return self.lin(x.get('e'), vm)
        c = const_of(x) if k in ('int', 'null') else None
        if c is not None:
            return (None, c, 0, 0, 0)
        if k == 'var':
            if x.get('vk') not in ('local', 'param'):
                return None
            if x.get('type', '').rstrip().endswith(']'):
                return (('arr', x['name']), 0, 0, 0, 0)
            return vm.get(x['name'])
        if k == 'call':
            return (None, 0, 0, 1, 0) if x.get('callee') == 'read' else None
        if k == 'un' and x.get('op') == '-':
            v = self.lin(x.get('e'), vm)
            return (None, -v[1], -v[2], -v[3], -v[4]) if v is not None and v[0] is None else None
        if k == 'member':
            lm = (x.get('record'), x['field'])
            if not x['arrow']:
                # an array member of a local struct / union (`union { uint8_t bytes[N]; struct inotify_event align; } q`)
                m = x
                while isinstance(m, dict) and m.get('k') == 'member' and not m.get('arrow'):
                    m = m['base']
                if isinstance(m, dict) and m.get('k') == 'var' and m.get('vk') == 'local' and self.unqual(x.get('type', '')).endswith(']'):
                    return (('arr', canon(x)), 0, 0, 0, 0)
                return None
            b = self.lin(x['base'], vm)
            if lm == (REC, 'len'):
                return (None, 0, 1, 0, 0) if b is not None and b == self.rec_val(vm) else None
            if x.get('type', '').rstrip().endswith(']'):      # array member decays to its address
                off = self.offset(lm)
                return self.add(b, (None, off, 0, 0, 0)) if off is not None else None
            return None
        if k == 'addr':
            m = x['e']
            while isinstance(m, dict) and m.get('k') in ('paren',):
                m = m['e']
            if isinstance(m, dict) and m.get('k') == 'index':
                b = self.lin(m['base'], vm)
                i = self.lin(m['idx'], vm)
                return self.add(b, i, self.pointee_size(self.typeof(m['base']))) if b and self.is_ptr(b) and i and not self.is_ptr(i) else None
            if isinstance(m, dict) and m.get('k') == 'member' and m['arrow']:
                off = self.offset((m.get('record'), m['field']))
                return self.add(self.lin(m['base'], vm), (None, off, 0, 0, 0)) if off is not None else None
            if isinstance(m, dict) and m.get('k') == 'var' and m.get('type', '').rstrip().endswith(']'):
                return (('arr', m['name']), 0, 0, 0, 0)
            if isinstance(m, dict) and m.get('k') == 'deref':
                return self.lin(m['e'], vm)
            return None
        if k == 'bin' and x['op'] in ('+', '-'):
            l, r = self.lin(x['l'], vm), self.lin(x['r'], vm)
            if l is None or r is None:
                return None
            sgn = 1 if x['op'] == '+' else -1
            if self.is_ptr(l) and not self.is_ptr(r):
                return self.add(l, r, self.scale_of(x['l']), sgn)
            if self.is_ptr(r) and not self.is_ptr(l) and sgn > 0:
                return self.add(r, l, self.scale_of(x['r']))
            if self.is_ptr(l) and self.is_ptr(r):
                return self.add(l, r, self.scale_of(x['l']), sgn)
            return self.add(l, r, 1, sgn)
        if k == 'bin' and x['op'] == '*':
            for a, b in ((x['l'], x['r']), (x['r'], x['l'])):
                c = const_of(b)
                v = self.lin(a, vm)
                if c is not None and v is not None and v[0] is None:
                    return (None, v[1] * c, v[2] * c, v[3] * c, v[4] * c)
            return None
        return None

    def offset(self, lm):
        for f in self.prog.records.get(lm[0], {}).get('fields', []):
            if f['name'] == lm[1]:
                return f.get('offset')
        return None

    # ---- transfer -----------------------------------------------------------------
    def rebase(self, vm, v, x):
        """state after `x = v` made v the current record: every other value is re-expressed over the new record's
        OFF (and loses its meaning if it still needs the old record's LEN)"""
        old = vm.get('#rec')
        new = {}
        A = v[0][1]
        if old is None or old[0] != A or old[1] is not None:
            # no OFF terms around (first record of this array, or OFF was a known constant)
            cv, kv, rv = v[1], v[2], v[3]
            if v[4] != 0:
                kv = None
            if kv == 0 and rv == 0:
                new['#rec'] = (A, cv)
                for y, u in vm.items():
                    if y != '#rec' and u[2] == 0 and u[4] == 0:
                        new[y] = u
            else:
                new['#rec'] = (A, None)
                for y, u in vm.items():
                    if y == '#rec' or u[4] != 0:
                        continue
                    if u[2] == 0:
                        new[y] = u
                    elif kv in (1, -1):
                        m = u[2] * kv
                        new[y] = (u[0], u[1] - m * cv, 0, u[3] - m * rv, m)
        else:
            cv, kv, rv, ov = v[1], v[2], v[3], v[4]
            if ov == 1:
                new['#rec'] = (A, None)
                for y, u in vm.items():
                    if y == '#rec':
                        continue
                    w = (u[0], u[1] - u[4] * cv, u[2] - u[4] * kv, u[3] - u[4] * rv, u[4])
                    if w[2] == 0:
                        new[y] = w
            else:
                new['#rec'] = (A, cv if (ov == 0 and kv == 0 and rv == 0) else None)
                for y, u in vm.items():
                    if y != '#rec' and u[2] == 0 and u[4] == 0:
                        new[y] = u
        new[x] = self.rec_val(new)
        return new

    def tr_one(self, e, st, obs=None):
        ev = e['ev']
        if ev == 'decl':
            vm = dict(st)
            vm.pop(e['name'], None)
            return frozenset(vm.items())
        if ev == 'call':
            vm = dict(st)
            if obs is not None and e.get('callee') == 'read' and len(e.get('args', [])) >= 2:
                v = self.lin(e['args'][1], vm)
                if v and isinstance(v[0], tuple) and v[1:] == (0, 0, 0, 0):
                    self.readbufs.add(v[0][1])
            if obs is not None and self.is_handler_call(e):
                a = e.get('args', [])
                R = self.rec_val(vm)
                # the record passed is the current one, and it was not handed to a handler before (the walk advanced
                # since the previous delivery)
                obs.append(('deliver', e['loc'], len(a) >= 2 and R is not None and self.lin(a[1], vm) == R and '#delivered' not in vm))
            if self.is_handler_call(e):
                vm['#delivered'] = (None, 1, 0, 0, 0)
                ch = True
            else:
                ch = False
            for a in e.get('args', []):
                a = strip(a)
                if isinstance(a, dict) and a.get('k') == 'addr' and lvar(a['e']) is not None and lvar(a['e'])['name'] in vm:
                    del vm[lvar(a['e'])['name']]
                    ch = True
            return frozenset(vm.items()) if ch else st
        if ev != 'store':
            return st
        xn = lvar(e['lhs']) if strip(e['lhs']).get('k') == 'var' else None
        if xn is None:
            return st
        vm = dict(st)
        x = xn['name']
        op = e.get('op')
        if op == '=' and 'rhs' in e:
            v = self.lin(e['rhs'], vm)
        elif op in ('+=', '-=') and 'rhs' in e:
            cur = vm.get(x)
            scale = self.pointee_size(xn.get('type')) if self.is_ptr_type(xn.get('type')) else 1
            v = self.add(cur, self.lin(e['rhs'], vm), scale, 1 if op == '+=' else -1) if cur and (self.is_ptr(cur) or not self.is_ptr_type(xn.get('type'))) else None
        elif op in ('++', '--'):
            cur = vm.get(x)
            scale = self.pointee_size(xn.get('type')) if self.is_ptr_type(xn.get('type')) else 1
            v = self.add(cur, (None, 1, 0, 0, 0), scale, 1 if op == '++' else -1)
        else:
            v = None
        v = self.fold_off(v, vm)
        src = lvar(e['rhs']) if op == '=' and 'rhs' in e else None
        R = self.rec_val(vm)
        if op == '=' and 'rhs' in e and v is not None and v == R and not (src is not None and is_ptr_to(src, REC)):
            # copy propagation replaced the read of a local by the expression it caches and left the local's name
            # (`_was`): `event = $ret3` reads `event = cur.pos`.  A copy of a variable holding the current record.
            w = e['rhs']
            while isinstance(w, dict) and w.get('k') in ('load', 'cast'):
                if w.get('_was') is not None and vm.get(w['_was']) == R:
                    src = {'k': 'var', 'name': w['_was'], 'vk': 'local', 'type': 'struct %s *' % REC, 'record': REC, 'ptr': True}
                    break
                w = w.get('e')
        if is_ptr_to(xn, REC) and not (src is not None and is_ptr_to(src, REC)):
            # definition of a record: the obligation is about where it lies relative to the previous one
            if v is None or not self.is_ptr(v):
                if obs is not None:
                    obs.append(('recdef', e['loc'], None))
                    self._kinds.setdefault(id(e), set()).add('unknown')
                new = {y: u for y, u in vm.items() if y != '#rec' and u[2] == 0 and u[4] == 0}
                return frozenset(new.items())
            if R is None or R[0] != v[0]:
                o = ('first', v)
            elif v == R:
                # the pointer to the current record computed once more: another name for it, nothing advances
                if obs is not None:
                    obs.append(('recdef', e['loc'], ('same',)))
                    self._kinds.setdefault(id(e), set()).add('same')
                vm[x] = R
                return frozenset(vm.items())
            else:
                o = ('next', (None, v[1] - R[1], v[2] - R[2], v[3] - R[3], v[4] - R[4]))
            if obs is not None:
                obs.append(('recdef', e['loc'], o))
                self._kinds.setdefault(id(e), set()).add(o[0])
            new = self.rebase(vm, v, x)
            new.pop('#delivered', None)
            return frozenset(new.items())
        if v is None:
            vm.pop(x, None)
        else:
            vm[x] = v
        return frozenset(vm.items())

    def run(self):
        g = self.g

        def transfer(e, S):
            out = frozenset(self.tr_one(e, st) for st in S)
            # widening: a variable that takes many values at one point (a counter in a loop) is not tracked there
            if len(out) > 6:
                vals = {}
                for st in out:
                    for y, u in st:
                        vals.setdefault(y, set()).add(u)
                wide = {y for y, us in vals.items() if len(us) > 6 and y != '#rec'}
                if wide:
                    out = frozenset(frozenset((y, u) for y, u in st if y not in wide) for st in out)
            if len(out) > MAXSTATES:
                raise AnalysisBroken('state explosion in the record walk analysis of %s' % g.name)
            return out
        _, ev_in = forward(g, frozenset([frozenset()]), transfer, lambda a, b: a | b)
        obs = []
        for b, blk in g.blocks.items():
            for i, e in enumerate(blk.events):
                for st in ev_in.get((b, i), ()):
                    self.tr_one(e, st, obs)
        for o in obs:
            if o[0] == 'recdef':
                self.recdefs.setdefault(o[1], []).append(o[2])
            else:
                self.delivered.setdefault(o[1], []).append(o[2])

    def recdef_ok(self, o):
        if o is None:
            return False
        if o[0] == 'same':
            return True
        if o[0] == 'next':
            return o[1] == (None, self.recsize, 1, 0, 0)
        v = o[1]
        return isinstance(v[0], tuple) and v[0][0] == 'arr' and v[0][1] in self.readbufs and v[1:] == (0, 0, 0, 0)

    def show(self, o):
        def terms(v):
            ts = ['%d' % v[1]] + ['%d*%s' % (c, n) for c, n in ((v[2], 'len'), (v[3], '(bytes read)'), (v[4], '(offset of the previous record)')) if c]
            return ' + '.join(ts)
        if o is None:
            return 'unknown'
        if o[0] == 'same':
            return 'the current record'
        if o[0] == 'next':
            return 'previous record + ' + terms(o[1])
        v = o[1]
        return 'start of %s + %s (no record defined before)' % (v[0][1], terms(v))


def the_walk(prog):
    c = _cache(prog)
    if 'walk' not in c:
        prov(prog)
    return c['walk']


# --------------------------------------------------------------------------
# comparator
# --------------------------------------------------------------------------

def _single_defs(g):
    """{local: its only assignment} (one source location; block duplication by flag partitioning ignored)"""
    defs = {}
    for e in g.events():
        if e['ev'] == 'store':
            v = lvar(e['lhs']) if strip(e['lhs']).get('k') == 'var' else None
            if v is not None:
                defs.setdefault(v['name'], {})[e.get('loc')] = e
    out = {}
    for n, ds in defs.items():
        d = list(ds.values())[0]
        if len(ds) == 1 and d.get('op') == '=' and 'rhs' in d:
            out[n] = d
    return out


def comparator_signs(prog, f, rec, node_member, field):
    """([(ordering of (key of 1st argument, key of 2nd argument), returned value)] for the three orderings,
    problem or None) by evaluating the comparator (helpers inlined) with the finite interpreter."""
    from ..core import subst
    g0 = inlined_local(prog, f)
    g = clone_cfg(g0)
    if len(f.params) < 2:
        raise AnalysisBroken('comparator %s does not take two nodes' % f.q)
    pidx = {f.params[0]['name']: 0, f.params[1]['name']: 1}
    defs = _single_defs(g)
    node_off = next((fl.get('offset') for fl in prog.records.get(rec, {}).get('fields', []) if fl['name'] == node_member), None)

    def side(x, depth=0):
        """0/1 if x is the key of the container of parameter 0/1"""
        s = strip(x)
        if not isinstance(s, dict) or depth > 6:
            return None
        if s.get('k') == 'var':
            d = defs.get(s['name'])
            return side(d['rhs'], depth + 1) if d is not None else None
        if s.get('k') == 'member' and (s.get('record'), s['field']) == (rec, field) and s['arrow']:
            return owner(s['base'], depth + 1)
        return None

    def owner(p, depth):
        s = strip(p)
        if not isinstance(s, dict) or depth > 6:
            return None
        if s.get('k') == 'container_of' and s.get('record') == rec and s.get('member') == node_member:
            v = lvar(s['e'])
            if v is not None and v['name'] in pidx:
                return pidx[v['name']]
            return owner_node(s['e'], depth + 1)
        if s.get('k') == 'bin' and s['op'] == '-' and node_off is not None and const_of(s['r']) == node_off:
            return owner_node(s['l'], depth + 1)        # open-coded container_of: (T *)((char *)p - offsetof(T, member))
        if s.get('k') == 'var':
            d = defs.get(s['name'])
            return owner(d['rhs'], depth + 1) if d is not None else None
        return None

    def owner_node(p, depth):
        v = lvar(p)
        if v is None or depth > 6:
            return None
        if v['name'] in pidx:
            return pidx[v['name']]
        d = defs.get(v['name'])
        return owner_node(d['rhs'], depth + 1) if d is not None else None

    def three_way(n):
        # `key(a) - key(b)` is the three-way comparison of the keys
        if n.get('k') == 'bin' and n.get('op') == '-' and None not in (side(n['l']), side(n['r'])) and side(n['l']) != side(n['r']):
            def c(op):
                return {'k': 'bin', 'op': op, 'l': n['l'], 'r': n['r'], 'type': 'int'}
            return {'k': 'cond', 'c': c('<'), 'a': {'k': 'int', 'v': -1},
                    'b': {'k': 'cond', 'c': c('>'), 'a': {'k': 'int', 'v': 1}, 'b': {'k': 'int', 'v': 0}}}
        return None
    for b, blk in g.blocks.items():
        evs = []
        for e in blk.events:
            if e['ev'] == 'ret' and e.get('chain'):
                continue
            e2 = dict(e)
            for key in ('value', 'rhs'):
                if key in e2:
                    e2[key] = subst(e2[key], three_way)
            evs.append(e2)
        blk.events = evs
    # every comparison in the comparator must be between the two keys
    cmps = []

    def visit(c):
        c = strip(c)
        if not isinstance(c, dict):
            return
        for x in walk(c):
            if x.get('k') == 'bin' and x['op'] in CMPOPS:
                if const_of(x['l']) is not None or const_of(x['r']) is not None:
                    continue
                cmps.append(x)
    for blk in g.blocks.values():
        if blk.term and blk.term.get('cond') is not None:
            visit(blk.term['cond'])
    for e in g.events():
        for key in ('value', 'rhs'):
            if key in e:
                visit(e[key])
    pairs = {}
    for x in cmps:
        a, b = side(x['l']), side(x['r'])
        if a is None or b is None or a == b:
            return [(o, None) for o in '<=>'], 'it compares `%s`, which is not the %s of its two arguments' % (canon(x), field)
        pairs[(canon(x['l']), canon(x['r']))] = (a, b)
    if not pairs:
        return [(o, None) for o in '<=>'], 'it contains no comparison of the %s of its two arguments' % field
    res = []
    for o in '<=>':
        orders = {}
        for (lc, rc), (a, b) in pairs.items():
            orders[(lc, rc)] = o if a == 0 else {'<': '>', '>': '<', '=': '='}[o]
        r = interp.run(g, interp.Assignment(orders=orders))
        res.append((o, r['ret'] if r['end'] == 'ret' else None))
    return res, None


# --------------------------------------------------------------------------
# INIT-COMPLETE for the two inotify object kinds (local, path-sensitive variant of generic.init_complete)
# --------------------------------------------------------------------------

OPAQUE_RECORDS = {'iv_avl_node', 'iv_list_head'}      # initialised as a whole by their primitives


def private_leaves(prog, rec, user, kind_records):
    """leaf field paths of the library-private part of `rec` (user fields and embedded object kinds excluded)"""
    out = []

    def expand(r, prefix, top):
        for f in prog.records.get(r, {}).get('fields', []):
            if top and (f['name'] in user or f.get('record') in kind_records):
                continue
            p = prefix + f['name']
            sub = f.get('record')
            if sub and not f.get('ptr') and sub not in OPAQUE_RECORDS and prog.records.get(sub, {}).get('fields'):
                expand(sub, p + '.', False)
            else:
                out.append(p)
    expand(rec, '', True)
    return out


def object_path(x, objvars, defs, depth=0):
    """'a.b' if the lvalue x is <obj>->a.b for the object under registration (possibly through a local that
    holds the address of a sub-object: t = &obj->a; t->b), else None"""
    x = strip(x)
    chain = []
    while isinstance(x, dict) and x.get('k') == 'member':
        chain.append(x['field'])
        if x['arrow']:
            break
        x = strip(x['base'])
    else:
        return None
    if not chain:
        return None
    b = lvar(x['base'])
    if b is None or depth > 4:
        return None
    path = '.'.join(reversed(chain))
    if b['name'] in objvars:
        return path
    d = defs.get(b['name'])
    if d is not None:
        r = strip(d['rhs'])
        if isinstance(r, dict) and r.get('k') == 'addr':
            pre = object_path(r['e'], objvars, defs, depth + 1)
            return (pre + '.' + path) if pre else None
        if lvar(r) is not None and lvar(r)['name'] in objvars:
            return path
    return None


def live_written(prog, f, goes_live, write_via_addr, initially_live=False):
    """(leaf paths written on every path on which the object goes live, number of such paths' exits, marker found)
    for the (inlined) registration function f of the object passed as its first parameter.
    goes_live(e, path_of) tells whether call event e publishes the object."""
    g = inlined_local(prog, f)
    if not f.params:
        raise AnalysisBroken('%s takes no object' % f.q)
    objvars = {f.params[0]['name']}
    defs = _single_defs(g)

    def path_of(x):
        return object_path(x, objvars, defs)

    def arg_path(a):
        a = strip(a)
        if isinstance(a, dict) and a.get('k') == 'addr':
            return path_of(a['e'])
        v = lvar(a)
        if v is not None and v['name'] in defs:
            return arg_path(defs[v['name']]['rhs'])
        return None

    def tr_one(e, st):
        live, written = st
        if e['ev'] == 'store':
            p = path_of(e['lhs'])
            if p and e.get('op') == '=':
                written = written | {p}
        elif e['ev'] == 'call':
            nm = e.get('callee')
            for i, a in enumerate(e.get('args', [])):
                p = arg_path(a)
                if p and ((nm in write_via_addr and i in write_via_addr[nm]) or
                          (nm is not None and nm.startswith('IV_') and nm.endswith('_INIT'))):
                    written = written | {p}
            if goes_live(e, arg_path):
                live = True
        return (live, written)

    def transfer(e, S):
        return frozenset(tr_one(e, st) for st in S)

    def join(a, b):
        # per liveness flag: intersection of the written sets
        out = {}
        for (lv, w) in list(a) + list(b):
            out[lv] = w if lv not in out else (out[lv] & w)
        return frozenset(out.items())
    _, ev_in = forward(g, frozenset([(bool(initially_live), frozenset())]), transfer, join)
    from ..analyses import exits_of
    pts = [(pb, pi) for (pb, pi, _) in exits_of(g)] + [(g.exit, 0)]
    res, n = None, 0
    for pt in pts:
        for (lv, w) in ev_in.get(pt, ()):
            if lv:
                n += 1
                res = w if res is None else (res & w)
    marker = any(e['ev'] == 'call' and goes_live(e, arg_path) for e in g.events())
    return (res or frozenset()), n, marker


def covered(written, path):
    parts = path.split('.')
    return any('.'.join(parts[:i]) in written for i in range(1, len(parts) + 1))
