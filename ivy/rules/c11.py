"""C11 — iv_wait: child statuses reach the right interest once; strangers harmless.

Decided statically: NULL-contradiction in the anchored files, lock regions of
fork+insert and of the reaper, the kill gate, dead-flag pairing, status-record
ownership, order of the statuses of one child (queue insertion end against
delivery end, R-C11g).  Not decided: pid reuse races, routing multiplicities
over schedules.

Formulation (see h11.py): nothing is anchored on the name of a static function,
local, parameter or file-scope variable.  The roots of iv_wait.c (exported API,
installed handlers) are analysed with the helpers of the unit inlined; sites are
found by role (the call of waitpid/wait4, fork, kill, the insertion/deletion of
&X->avl_node, the queueing into X->events_pending, the store to X->flags, ...).
Path-shaped clauses (kill gate, delete-iff-flag-clear, "deletes and flags iff the
status is terminal", routing of the lookup, record ownership) are decided by a
finite path-sensitive abstract execution (h11.Explorer) instead of matching the
branch structure; lock clauses by forward must-analyses.
"""
from ..core import names_of, AnalysisBroken, canon, strip, last_member, relpath, norm_cond, walk, forward, root_var
from .. import generic, roles
from ..analyses import is_call, path_to, describe
from . import h11 as h

ANCHOR_FILES = ('iv_wait.c', 'iv_signal.c')


def _feasible_null_derefs(f, reps):
    """generic.null_contradiction is a may-analysis over the CFG: it also follows paths that a value computed from
    the same test rules out (`what = p == NULL ? STRANGER : ...; switch (what) { case ROUTED: p->...`).  Keep the
    reports that a path-sensitive abstract execution of the function (h11.Explorer: integers concrete, pointers
    NULL / non-NULL, every branch it cannot decide followed both ways) reaches with the pointer NULL.  When the
    exploration is not conclusive every report is kept."""
    want = {}
    for (e, v, acc) in reps:
        want.setdefault((e['_b'], e['_i']), set()).add(v)

    seen = set()

    def observe(e, env, facts, val):
        for v in want.get((e.get('_b'), e.get('_i')), ()):
            if env.get(v) == 0:
                seen.add((e['_b'], e['_i'], v))
        return None
    try:
        h.Explorer(f, max_states=20000).run((f.entry, 0), [({}, frozenset())], observe)
    except AnalysisBroken:
        return reps
    return [(e, v, acc) for (e, v, acc) in reps if (e['_b'], e['_i'], v) in seen]


def null_rule(ctx, rid, files):
    n = 0
    for f in sorted(ctx.prog.all_funcs(), key=lambda f: f.q):
        if not f.file.endswith(files):
            continue
        f = f.pristine()      # the rule is about what the source says of a local, not of the value it caches
        reps, ncand = generic.null_contradiction(f)
        if not ncand:
            continue
        if reps:
            reps = _feasible_null_derefs(f, reps)
        byvar = {}
        for (e, v, acc) in reps:
            byvar.setdefault(v, []).append((e, acc))
        # one obligation per tested pointer variable
        tested = set()
        for b in f.blocks.values():
            c = b.term.get('cond') if b.term else None
            if c is None:
                continue
            for pol in (True, False):
                for (op, lc, rc, l, r) in norm_cond(c, pol):
                    lv = strip(l)
                    if op in ('==', '!=') and rc == '0' and isinstance(lv, dict) and lv.get('k') == 'var' \
                            and lv.get('vk') in ('local', 'param') and '*' in lv.get('type', ''):
                        tested.add(lv['name'])
        for v in sorted(tested):
            bad = byvar.get(v, [])
            e0 = bad[0][0] if bad else None
            ctx.ob(rid, '%s:%s' % (f.name, v), not bad, loc=e0['loc'] if e0 else f.loc,
                   detail=('pointer `%s` is tested against NULL, yet dereferenced on a path where the NULL edge '
                           'was taken: %s' % (v, ', '.join(sorted({a for _, a in bad})))) if bad else
                          'tested pointer is never dereferenced on its NULL path',
                   path=path_to(f, e0) if e0 else None, fn=f.q)
            n += 1
    return n




def run(ctx):
    ctx.rule('R-C11a', 'NULL-CONTRADICTION: a pointer the function itself tests against NULL is not dereferenced '
                       'on a path where the NULL edge was taken (iv_wait.c, iv_signal.c)', floor=4)
    ctx.rule('R-C11b', 'fork and the insertion of the new interest into the pid set happen without the set\'s lock being released in '
                       'between; every insertion is under that lock; the reaper reaps, looks up, queues, deletes and flags without '
                       'releasing it between the reap call and each of these steps', floor=6)
    ctx.rule('R-C11c', 'kill() is called only with the set\'s lock held and never while the dead flag of the signalled interest is (or may '
                       'have become) set: the flag is re-read inside the lock region of the kill', floor=2)
    ctx.rule('R-C11d', 'the pid leaves the set exactly when a terminating status is reaped: for each kind of wait status the reaper deletes '
                       'and flags the found interest iff the status is terminal; unregister deletes iff the flag is clear (read under '
                       'the lock); registration clears the flag before the pid enters the set', floor=10)
    ctx.rule('R-C11e', 'every reaped status record is queued to an interest or freed, never both; delivered and purged records are freed', floor=4)
    ctx.rule('R-C11.cmp', 'writer and reader of the pid set agree: one tree, its comparator orders by pid, and the reaper\'s hand-rolled lookup '
                          'descends left iff the reaped pid is smaller, right iff larger, and routes the status to the node on equality', floor=8)
    ctx.section(cmp_rules)
    ctx.section(lambda c: null_rule(c, 'R-C11a', ANCHOR_FILES))
    ctx.section(regions)
    ctx.section(kill_gate)
    ctx.section(status_table)
    ctx.section(dead_pairing)
    ctx.section(unregister_gate)
    ctx.section(records)
    ctx.rule('R-C11f', 'nothing is delivered after unregistration: the delivery loop re-tests the per-thread handled-interest marker before '
                       'each handler call and touches the interest afterwards only behind it; unregister clears that marker when it '
                       'designates the interest (shared with C01)', floor=2)
    ctx.section(delivery)
    ctx.rule('R-C11g', 'the statuses of one child reach the handler in the order they were reaped: every way a status record enters the '
                       'pending queue of an interest puts it at the end opposite to the end the delivery takes records from (seen through '
                       'every list the records are moved to on the way, order-preserving or reversing), never into the middle', floor=2)
    ctx.section(status_order)
    ctx.rule('R-C11h', 'a child is found under the pid it was filed under: the pid field is the key the set is ordered by, so an interest enters '
                       'the set with its key final (after fork(): on every path from fork() to the insertion the pid field of the inserted interest '
                       'was stored the value fork() returned), and no store to the pid of an interest that is in the set (inserted by the same '
                       'root, or reached by walking the tree) is still in effect when the order of the set is relied upon (the set\'s lock is '
                       'released, the tree is searched, another node is inserted, the function returns) without the node having been deleted or filed anew', floor=3)
    ctx.section(key_final)
    ctx.rule('R-C11i', 'statuses still due to the interest being handled survive the unregistration of another interest from its handler: '
                       'the unregister call overwrites the per-thread handled-interest marker only on paths where the marker was tested '
                       'equal to the interest being unregistered (the delivery loop stops when it finds the marker cleared)', floor=1)
    ctx.section(marker_own)


# --------------------------------------------------------------------------
# anchors by role
# --------------------------------------------------------------------------

def reaper_contexts(prog):
    cs = h.contexts(prog, 'is_reap')
    if not cs:
        raise AnalysisBroken('reaper: no waitpid/wait4 call reachable from a root of iv_wait.c')
    return cs


def _agg(sites, pred):
    """(ok, first failing or first event): the obligation holds for a source construct iff it
    holds for every copy that flag partitioning / inlining made of it"""
    bad = [e for e in sites if not pred(e)]
    return (not bad), (bad[0] if bad else sites[0])


# --------------------------------------------------------------------------
# R-C11.cmp
# --------------------------------------------------------------------------

def cmp_rules(ctx):
    prog = ctx.prog
    rid = 'R-C11.cmp'
    ins = h.contexts(prog, 'is_insert')
    if not ins:
        raise AnalysisBroken('no insertion of an interest node into a tree found in iv_wait.c')
    trees = {}
    for v, sites in ins + h.contexts(prog, 'is_delete'):
        for e in sites:
            trees.setdefault(v.tree_of(e), e)
    tname = sorted(trees)[0]
    ctx.ob(rid, 'tree:one-set', len(trees) == 1 and tname.startswith('&'), loc=trees[tname]['loc'],
           detail='every insertion and deletion of an interest node operates on the same tree object (%s)' % ', '.join(sorted(trees)))
    gname = tname.lstrip('&')
    g = prog.global_for(h.UNIT, gname.split('.')[0].split('[')[0])
    comp = None
    if g is not None and isinstance(g.get('init'), dict):
        # the (possibly nested) static initialiser of the tree object
        inits = [x for x in walk(g['init']) if x.get('k') == 'init' and 'compare' in (x.get('fields') or {})]
        cs = set()
        for x in inits:
            c = strip(x['fields']['compare'])
            if isinstance(c, dict) and c.get('k') == 'addr':
                c = strip(c['e'])
            if isinstance(c, dict) and c.get('k') == 'var' and c.get('vk') == 'func':
                cs.add(c['name'])
        if len(cs) == 1:
            comp = prog.resolve(h.UNIT, cs.pop())
    if comp is None:
        cands = [f for f in roles.installed_in(prog, 'iv_avl_tree', 'compare') if f.file.endswith('/' + h.UNIT)]
        comp = cands[0] if len(cands) == 1 else None
    ctx.ob(rid, 'tree:comparator', comp is not None, loc=g['loc'] if g else trees[tname]['loc'],
           detail='the interest tree is initialised with a comparator function (%s)' % (comp.name if comp else 'none found'))
    if comp is None:
        raise AnalysisBroken('comparator of the interest tree not found')
    comparator_table(ctx, rid, comp)
    descent(ctx, rid, gname)


def _param_index(v, x, depth=8):
    """index of the root's parameter an expression is derived from through copies and container_of"""
    x = strip(x)
    if not isinstance(x, dict) or depth <= 0:
        return None
    if x.get('k') == 'container_of':
        return _param_index(v, x['e'], depth - 1)
    if x.get('k') == 'var':
        for i, p in enumerate(v.root.params):
            if p['name'] == x['name'] and x['name'] not in v.defs:
                return i
        idx = {_param_index(v, d.get('rhs'), depth - 1) for d in v.defs.get(x['name'], []) if d.get('op') == '=' and 'rhs' in d}
        return idx.pop() if len(idx) == 1 else None
    return None


def comparator_table(ctx, rid, comp):
    """The comparator evaluated under the three orderings of (pid of first node, pid of second node)."""
    from .. import interp
    v = h.view(ctx.prog, comp)
    g = v.g
    pairs, diffs = [], []
    for blk in g.blocks.values():
        srcs = [blk.term['cond']] if blk.term and blk.term.get('cond') is not None else []
        for e in blk.events:
            srcs += [e[k] for k in ('rhs', 'value', 'init') if k in e]
        for s_ in srcs:
            for n in walk(s_):
                if n.get('k') != 'bin' or n.get('op') not in h.CMPOPS + ('-',):
                    continue
                # an operand is "the pid of a node" when it reads X->pid or a local that caches X->pid
                lb, rb = h.pid_source(v, n['l']), h.pid_source(v, n['r'])
                if lb is not None and rb is not None:
                    li = _param_index(v, lb)
                    ri = _param_index(v, rb)
                    if {li, ri} != {0, 1}:
                        raise AnalysisBroken('%s: a pid comparison does not compare the two argument nodes' % comp.name)
                    if n['op'] == '-':
                        diffs.append((canon(n), li))       # pid(x) - pid(y): its sign is the order of the two pids
                    else:
                        pairs.append((canon(n['l']), canon(n['r']), li))
    if not pairs and not diffs:
        raise AnalysisBroken('%s is no longer a comparator on the pid of its two nodes' % comp.name)
    for o in '<=>':
        orders = {(l, r): (o if li == 0 else h.FLIP[o]) for (l, r, li) in pairs}
        sg = {'<': -1, '=': 0, '>': 1}
        ints = {c: (sg[o] if li == 0 else -sg[o]) for (c, li) in diffs}
        ex = h.Explorer(g, asg=interp.Assignment(orders=orders, ints=ints))
        finals = ex.run((g.entry, 0), [({}, frozenset())])
        rets = [(ex.value(e.get('value'), env) if e is not None else None) for (kind, env, facts, e) in finals if kind in ('ret', 'exit')]
        want = {'<': -1, '=': 0, '>': 1}[o]
        ok = bool(rets) and all(isinstance(r, int) and ((r > 0) - (r < 0)) == want for r in rets)
        ctx.ob(rid, 'comparator:pid(a)%spid(b)' % o, ok, loc=comp.loc,
               detail='returns %s, expected sign %d on every path' % (sorted(set(map(str, rets))), want), fn=comp.q)


def descent(ctx, rid, tree_name):
    """The reaper's lookup, evaluated in the reaper itself (helpers inlined): all pid comparisons
    decided as sought < / = / > node."""
    prog = ctx.prog
    lock = h.wait_lock(prog)
    stopped = [c for c in h.STATUS_CASES if c[2] == 0][0][1]
    n = 0
    for v, reaps in reaper_contexts(prog):
        g = v.g
        keys = h.key_nodes(g, v)
        reads = [e for e in g.events() if v.is_lookup_read(e)]
        if not keys or not reads:
            raise AnalysisBroken('reaper: lookup step not found')
        n += 1
        # the sought key is the pid the reap call returned
        # ... through copies and through fields of a record that groups what was reaped (`r->pid = pid; ... r->pid < p->pid`)
        rg, rf = set(), set()
        stores = [e for e in g.events() if e['ev'] == 'store' and e.get('op') == '=' and 'rhs' in e]

        def from_reap(x):
            x = strip(x)
            if not isinstance(x, dict):
                return False
            if x.get('k') == 'call':
                return x.get('callee') in h.REAP
            if x.get('k') == 'var':
                return v.group(x['name']) in rg
            if x.get('k') == 'member':
                return last_member(x) in rf
            return False
        for _ in range(6):
            n0 = (len(rg), len(rf))
            for e in stores:
                if not from_reap(e['rhs']):
                    continue
                l = h.lval(e['lhs'])
                if l.get('k') == 'var':
                    rg.add(v.group(l['name']))
                elif l.get('k') == 'member' and last_member(l) != h.PID and l.get('record') != h.REC:
                    rf.add(last_member(l))
            if (len(rg), len(rf)) == n0:
                break
        bad = [s for (nd, s, side) in keys if not from_reap(s)]
        ctx.ob(rid, 'lookup:sought-is-reaped-pid', not bad, loc=(bad[0] if bad else keys[0][1]).get('loc') or reaps[0]['loc'],
               detail='the key the tree is searched for is the value waitpid/wait4 returned', fn=v.root.q)
        # the tree read is the tree written
        roots_read = [e for e in reads if last_member(e['e']) == ('iv_avl_tree', 'root')]
        def same_tree(e):
            m = strip(e['e'])
            b = m['base']
            return canon(v.origin(b)) == '&' + tree_name if m.get('arrow') else canon(b) == tree_name
        ok, e0 = _agg(roots_read, same_tree) if roots_read else (False, reads[0])
        ctx.ob(rid, 'lookup:reads-the-insert-tree', ok, loc=e0['loc'],
               detail='the lookup starts at the root of the tree the interests are inserted into (%s)' % tree_name, fn=v.root.q)
        for o in '<=>':
            paths = []
            for r in reaps:
                paths += h.reaper_scenario(v, r, stopped, lock=lock, order=o)
            tags = lambda fa: {f for f in fa if isinstance(f, str)}
            queued = lambda fa: any(isinstance(f, tuple) and f[0] == 'Q' for f in fa)
            if o == '=':
                ok = any(queued(fa) for _, fa in paths) and not any(tags(fa) & {'left', 'right'} for _, fa in paths) \
                    and all(queued(fa) for _, fa in paths if 'K' in fa)
                exp = 'no further descent; the status is queued to the node on every path that compared'
            else:
                want, other = ('left', 'right') if o == '<' else ('right', 'left')
                ok = any(want in fa for _, fa in paths) and not any(other in fa for _, fa in paths) and not any(queued(fa) for _, fa in paths)
                exp = 'descends %s only, nothing is queued' % want
            seen = sorted({t for _, fa in paths for t in tags(fa) & {'left', 'right', 'K'}} | ({'queued'} if any(queued(fa) for _, fa in paths) else set()))
            ctx.ob(rid, 'lookup:sought%snode' % o, ok, loc=keys[0][0].get('loc') or reads[0]['loc'],
                   detail='over all paths: %s; expected: %s' % (seen, exp), fn=v.root.q)
    if not n:
        raise AnalysisBroken('reaper: lookup step not found')


# --------------------------------------------------------------------------
# R-C11b
# --------------------------------------------------------------------------

def regions(ctx):
    prog = ctx.prog
    rid = 'R-C11b'
    lock = h.wait_lock(prog)
    ln = lock or 'any lock'
    forks = h.contexts(prog, 'is_fork')
    if not forks:
        raise AnalysisBroken('spawn helper: no fork() call reachable from a root of iv_wait.c')
    for v, fks in forks:
        g = v.g
        nm = h.role_name(prog, v)
        ok, e0 = _agg(fks, lambda e: lock in v.held_at(e))
        ctx.ob(rid, '%s:fork-under-lock' % nm, ok, loc=e0['loc'], detail='fork() is called with %s held' % ln, fn=v.root.q)
        inserts = [e for e in g.events() if v.is_insert(e)]
        reach, good = set(), True
        for fk in fks:
            st = h.held_since(g, fk, lock)
            for i in inserts:
                if (i['_b'], i['_i']) in st:
                    reach.add(id(i))
                    if not (st[(i['_b'], i['_i'])] and lock in v.held_at(fk)):
                        good = False
        first = ([i for i in inserts if id(i) in reach] or fks)[0]
        ctx.ob(rid, '%s:insert-same-region' % nm, bool(reach) and good, loc=first['loc'],
               detail=('the interest is inserted into the pid set after fork() without %s being released in between' % ln) if reach else
                      'no insertion of the interest follows fork()', fn=v.root.q)
    # every insertion is under the lock
    for v, inserts in h.contexts(prog, 'is_insert'):
        ok, e0 = _agg(inserts, lambda e: lock in v.held_at(e))
        ctx.ob(rid, '%s:insert-under-lock' % h.role_name(prog, v), ok, loc=e0['loc'], detail='tree insertion with %s held' % ln, fn=v.root.q)
    # reaper: reap .. lookup .. queue .. delete .. flag atomically
    for v, reaps in reaper_contexts(prog):
        g = v.g
        steps = {'lookup': [e for e in g.events() if v.is_lookup_read(e)],
                 'queue': [e for e in g.events() if v.is_queue(e)],
                 'delete': [e for e in g.events() if v.is_delete(e)],
                 'flag': [e for e in g.events() if v.is_flag_store(e)]}
        for need in ('lookup', 'queue', 'delete'):
            if not steps[need]:
                raise AnalysisBroken('reaper: %s step not found' % need)
        ok, e0 = _agg(reaps, lambda e: lock in v.held_at(e))
        ctx.ob(rid, 'reaper:reap-under-lock', ok, loc=e0['loc'], detail='%s with %s held' % (describe(e0), ln), fn=v.root.q)
        since = [h.held_since(g, r, lock, again=v.is_reap) for r in reaps]
        for kind in ('lookup', 'queue', 'delete', 'flag'):
            if not steps[kind]:
                continue
            def atomic(e):
                p = (e['_b'], e['_i'])
                hit = [st[p] for st in since if p in st]
                return lock in v.held_at(e) and bool(hit) and all(hit)
            ok, e0 = _agg(steps[kind], atomic)
            ctx.ob(rid, 'reaper:%s-in-reap-region' % kind, ok, loc=e0['loc'],
                   detail='%s: %s held, and not released since the reap call that produced the status' % (describe(e0), ln), fn=v.root.q)


# --------------------------------------------------------------------------
# R-C11c
# --------------------------------------------------------------------------

def kill_gate(ctx):
    prog = ctx.prog
    rid = 'R-C11c'
    lock = h.wait_lock(prog)
    dead = h.dead_values(prog)
    n = 0
    others = [f for f in prog.all_funcs() if not f.file.endswith('/' + h.UNIT) and any(is_call(e, 'kill') for e in f.events())]
    for f in others:
        # a kill() outside iv_wait.c cannot be tied to an interest at all
        e = [e for e in f.events() if is_call(e, 'kill')][0]
        n += 1
        ctx.ob(rid, '%s:kill-gated' % f.name, False, loc=e['loc'], detail='kill() outside the unit that owns the dead flag and its lock', fn=f.q)
    for v, kills in h.contexts(prog, 'is_kill'):
        n += 1
        nm = h.role_name(prog, v)
        ok, e0 = _agg(kills, lambda e: lock in v.held_at(e))
        ctx.ob(rid, '%s:kill-under-lock' % nm, ok, loc=e0['loc'], detail='kill() with %s held' % (lock or 'any lock'), fn=v.root.q)
        # the signalled pid is the pid of the interest whose flag is read
        objs = set()
        for e in kills:
            a = strip(v.value_origin(e['args'][0]))
            objs.add(v.group_of(a['base']) if isinstance(a, dict) and a.get('k') == 'member' and last_member(a) == h.PID else None)
        tested = {v.group_of(strip(e['e'])['base']) for e in v.g.events() if e['ev'] == 'load' and last_member(e['e']) == h.FLAGS}
        same = None not in objs and len(objs) == 1 and tested == objs
        paths = h.flag_scenario(v, lock, dead, v.is_kill)
        viol = sorted({relpath(f[1]) for (_, _, fa) in paths for f in fa if isinstance(f, tuple) and f[0] == 'site-dead'})
        live = any(isinstance(f, tuple) and f[0] == 'site-live' for (_, _, fa) in paths for f in fa)
        ctx.ob(rid, '%s:kill-gated' % nm, same and not viol and live, loc=kills[0]['loc'],
               detail=('kill(%s): ' % canon(kills[0]['args'][0])) +
                      ('the dead flag is never read' if not tested else
                       'the pid is not the pid of the one interest whose dead flag is read' if not same else
                       'reached while the dead flag of the interest is or may have become set (flag not tested, or tested outside the lock region of the kill)'
                       if viol else 'never reached with the dead flag set; reached when it is clear' if live else 'never reached'),
               path=path_to(v.g, kills[0]) if (viol or not same) else None, fn=v.root.q)
    if n == 0:
        raise AnalysisBroken('no kill() call found')


# --------------------------------------------------------------------------
# R-C11d
# --------------------------------------------------------------------------

def _reaper_paths(prog, status):
    lock = h.wait_lock(prog)
    out = []
    for v, reaps in reaper_contexts(prog):
        if not any(v.is_queue(e) for e in v.g.events()):
            raise AnalysisBroken('reaper: queue step not found')
        byloc = {}
        for r in reaps:             # copies of one source call (inlined twice, partitioned) are one site
            byloc.setdefault(r['loc'], (r, []))[1].extend(h.reaper_scenario(v, r, status, lock=lock))
        for loc in sorted(byloc):
            out.append((v, byloc[loc][0], byloc[loc][1]))
    return out


def _grp(fa, tag):
    return {f[1] for f in fa if isinstance(f, tuple) and f[0] == tag}


def status_table(ctx, rid='R-C11d'):
    """The terminating-status predicate evaluated on the four kinds of wait
    status (Linux encodings): exited and killed-by-signal are terminal, stopped
    and continued are not.  The predicate is whatever the reaper's dead-marking
    (tree deletion / dead-flag store of the interest the status was queued to)
    depends on: the reaper is executed abstractly from its waitpid/wait4 call
    with each status value."""
    prog = ctx.prog
    reaper_contexts(prog)                 # the anchor itself: ANALYSIS-BROKEN when there is no reap call at all
    for name, val, want in h.STATUS_CASES:
        try:
            res = _reaper_paths(prog, val)
        except AnalysisBroken as ex:
            ctx.ob(rid, 'status_dead:%s' % name, False, detail=str(ex))
            continue
        for v, r, paths in res:
            routed = [fa for (_, fa) in paths if _grp(fa, 'Q')]
            marked = [bool(_grp(fa, 'D') | _grp(fa, 'F')) for fa in routed]
            got = '1' if marked and all(marked) else '0' if marked and not any(marked) else 'mixed' if marked else 'never routed'
            ctx.ob(rid, 'status_dead:%s' % name, bool(marked) and all(m == bool(want) for m in marked), loc=r['loc'],
                   detail='classified %s, expected %s (a terminating status that is not recognised leaves the pid in the set and the dead flag '
                          'clear: the kill helper would signal a reaped pid)' % (got, want), fn=v.root.q)


def dead_pairing(ctx):
    prog = ctx.prog
    rid = 'R-C11d'
    allp = {}
    for name, val, want in h.STATUS_CASES:
        for v, r, paths in _reaper_paths(prog, val):
            allp.setdefault((v.root.q, r['loc']), (v, r, []))[2].extend(paths)
    for (q, loc), (v, r, paths) in sorted(allp.items()):
        unpaired = [fa for (_, fa) in paths if _grp(fa, 'D') != _grp(fa, 'F')]
        ctx.ob(rid, 'reaper:delete-and-flag-paired', not unpaired, loc=loc,
               detail='on every path of a reaper pass the pid is deleted from the set iff the dead flag of the same interest is stored '
                      '(before the next reap / the return)', fn=q)
        stray = [fa for (_, fa) in paths if not (_grp(fa, 'D') | _grp(fa, 'F')) <= _grp(fa, 'Q')]
        ctx.ob(rid, 'reaper:marks-the-routed-interest', not stray, loc=loc,
               detail='only the interest the status was queued to is deleted / flagged (a stranger child marks nothing)', fn=q)
        cleared = [fa for (_, fa) in paths if _grp(fa, 'F0')]
        ctx.ob(rid, 'reaper:never-clears-flag', not cleared, loc=loc, detail='the reaper never resets a dead flag', fn=q)
    # registration clears the flag before the pid enters the set
    dead = h.dead_values(prog)
    for v, inserts in h.contexts(prog, 'is_insert'):
        def tr(e, s):
            if v.is_flag_store(e):
                return True if h.clears_dead(e, dead) else (False if e.get('op') != '&=' else s)
            return s
        _, ev_in = forward(v.g, False, tr, lambda a, b: a and b)
        ok, e0 = _agg(inserts, lambda e: bool(ev_in.get((e['_b'], e['_i']))))
        ctx.ob(rid, '%s:flag-cleared-before-insert' % h.role_name(prog, v), ok, loc=e0['loc'],
               detail='on every path to the insertion the dead flag was reset (an interest object re-used after its child died would '
                      'otherwise refuse kill and never leave the set)', fn=v.root.q)


def unregister_gate(ctx):
    prog = ctx.prog
    rid = 'R-C11d'
    lock = h.wait_lock(prog)
    dead = h.dead_values(prog)
    cs = [(v, s) for (v, s) in h.contexts(prog, 'is_delete') if not any(v.is_reap(e) for e in v.g.events())]
    if not cs:
        raise AnalysisBroken('unregistration: no tree deletion outside the reaper found')
    for v, dels in cs:
        nm = h.role_name(prog, v)
        ok, e0 = _agg(dels, lambda e: lock in v.held_at(e))
        ctx.ob(rid, '%s:delete-under-lock' % nm, ok, loc=e0['loc'], detail='tree deletion with %s held' % (lock or 'any lock'), fn=v.root.q)
        paths = h.flag_scenario(v, lock, dead, v.is_delete)
        viol = sorted({relpath(f[1]) for (_, _, fa) in paths for f in fa if isinstance(f, tuple) and f[0] == 'site-dead'})
        ctx.ob(rid, '%s:delete-iff-not-dead' % nm, not viol, loc=dels[0]['loc'],
               detail='the node is deleted only while the dead flag is clear, the flag being read in the lock region of the deletion '
                      '(no double delete of a pid the reaper already removed)', path=path_to(v.g, dels[0]) if viol else None, fn=v.root.q)
        missing = [1 for (kind, c, fa) in paths if c == 0 and not any(isinstance(f, tuple) and f[0] == 'site-live' for f in fa)]
        ctx.ob(rid, '%s:not-dead-deletes' % nm, not missing and bool(paths), loc=dels[0]['loc'],
               detail='every path on which the flag stays clear deletes the node before returning', fn=v.root.q)


# --------------------------------------------------------------------------
# R-C11e
# --------------------------------------------------------------------------

def records(ctx):
    prog = ctx.prog
    rid = 'R-C11e'
    # reaper: the freshly allocated record
    for v, reaps in reaper_contexts(prog):
        if not any(v.is_alloc(e) for e in v.g.events()):
            raise AnalysisBroken('reaper: status record allocation not found')
    leak, dbl, loc0, q0 = False, False, None, None
    for v, reaps in reaper_contexts(prog):
        a = [e for e in v.g.events() if v.is_alloc(e)][0]
        loc0, q0 = a['loc'], v.root.q
        paths = h.reaper_scenario(v, reaps[0], None, lock=h.wait_lock(prog), whole=True)
        leak = leak or any('LEAK' in fa for (_, fa) in paths)
        dbl = dbl or any('DOUBLE' in fa for (_, fa) in paths)
    ctx.ob(rid, 'reaper:record-queued-or-freed', not leak, loc=loc0,
           detail='the status record is linked into an interest queue or freed on every path to the next allocation / the return of the handler', fn=q0)
    ctx.ob(rid, 'reaper:record-not-freed-once-queued', not dbl, loc=loc0,
           detail='a record is consumed once: never freed after it was queued, never queued or freed twice', fn=q0)
    # records taken off a queue
    need = {}         # roots that must take records off a queue: role -> [root names] / roots in which an unlink was found
    have = set()
    for v, _ in h.contexts(prog, 'is_wait_callback'):
        need.setdefault('delivery', []).append(v.root.q)              # hands the queued statuses to the handler
    for v, _ in h.contexts(prog, 'is_delete'):
        if not any(v.is_reap(e) for e in v.g.events()) and v.root.q not in need.get('delivery', []):
            need.setdefault('purge', []).append(v.root.q)             # unregistration drops what is still queued
    for v in h.views(prog):
        g = v.g
        conts = [e for e in g.events() if e['ev'] == 'store' and 'rhs' in e and h.lval(e['lhs']).get('k') == 'var'
                 and isinstance(strip(e['rhs']), dict) and strip(e['rhs']).get('k') == 'container_of'
                 and (strip(e['rhs']).get('record'), strip(e['rhs']).get('member')) == h.EVLINK]
        # a root owns a status record from the moment it designates it (`we = container_of(link, wait_event, list)`:
        # the first / next element of a queue) or unlinks it; whether the record is also unlinked is not this
        # rule's business (a stolen local list may be walked and freed without unlinking)
        cls = {}
        for c in conts:
            cls[id(c)] = ('take', v.group(h.lval(c['lhs'])['name']))
        for d in g.events():
            if not is_call(d, ('iv_list_del', 'iv_list_del_init')) or not d.get('args'):
                continue
            grp = None
            if v.addr_member(d['args'][0]) == h.EVLINK:
                grp = v.group_of(v.addr_base(d['args'][0]))
            else:
                for c in conts:
                    if names_of(strip(c['rhs'])['e']) & names_of(d['args'][0]) or canon(v.origin(strip(c['rhs'])['e'])) == canon(v.origin(d['args'][0])):
                        grp = v.group(h.lval(c['lhs'])['name'])
            if grp is not None:
                cls[id(d)] = ('unlink', grp)
        sites = {}
        for d in g.events():
            # `free(container_of(link, wait_event, list))`: taken and freed in one expression
            if is_call(d, 'free') and d.get('args') and v.reached(d):
                a = strip(d['args'][0])
                if isinstance(a, dict) and a.get('k') == 'container_of' and (a.get('record'), a.get('member')) == h.EVLINK:
                    sites.setdefault(d['loc'], []).append(True)
        if cls:
            leaked = h.unlink_scenario(v, lambda e: cls.get(id(e)))
            for d in g.events():
                if id(d) in cls and v.reached(d):
                    sites.setdefault(d['loc'], []).append(d['loc'] not in leaked)
        if sites:
            have.add(v.root.q)
            what = h.role_name(prog, v)
            bad = sorted(l for l, oks in sites.items() if not all(oks))
            ctx.ob(rid, '%s:unlinked-record-freed' % what, not bad, loc=bad[0] if bad else sorted(sites)[0],
                   detail='each status record taken off a queue is freed before the next one is taken / the function returns', fn=v.root.q)
    # the anchor: records are taken off a queue where they are delivered and where they are purged (the same
    # source statement may serve both, e.g. a shared dequeue helper: count per role, not per location)
    for role in ('delivery', 'purge'):
        if not need.get(role):
            raise AnalysisBroken('status records: no %s root found' % role)
        missing = [q for q in need[role] if q not in have]
        if missing:
            raise AnalysisBroken('status records: no queued record (container_of / iv_list_del of a wait_event) is taken in the %s root %s'
                                 % (role, missing[0].split(':')[-1]))


# --------------------------------------------------------------------------
# R-C11f
# --------------------------------------------------------------------------

def _stale_local(prog, emit):
    """Fallback for the borrowed stale-after-callback rule when its owner cannot be run on this tree because of
    objects of *other* kinds: the same core analysis (analyses.stale_after_callback), on the roots of iv_wait.c only."""
    from ..analyses import stale_after_callback, callback_kind
    for v in h.views(prog):
        if not any(v.is_wait_callback(e) for e in v.g.events()):
            continue
        is_cb = lambda e: (callback_kind(e) or (None, None))[1] if (callback_kind(e) or (None,))[0] == 'callback' else None
        reps, objvars, markers = stale_after_callback(v.g, is_cb)
        byvar = {}
        for (e, var, acc, cb) in reps:
            byvar.setdefault(var, []).append((e, acc, cb))
        for var in sorted(objvars):
            bad = byvar.get(var, [])
            e0 = bad[0][0] if bad else None
            emit('R-C01a', '%s:%s' % (v.root.name, var), not bad, loc=e0['loc'] if e0 else v.root.loc,
                 detail=('`%s` (%s) is used after the callback at %s without reassignment or marker test: %s'
                         % (var.split('@')[0], objvars[var], relpath(bad[0][2]), ', '.join(sorted({a for _, a, _ in bad})))) if bad else
                        '%s *%s: never used after a callback site without reassignment / marker test' % (objvars[var], var.split('@')[0]),
                 path=path_to(v.g, e0) if e0 else None, fn=v.root.q)


def delivery(ctx):
    """Borrowed from C01 (c01.holders / c01.stale), restricted to the child-wait kind: the holders table is
    narrowed to the marker holder(s) of iv_wait_interest before c01.holders runs, so a holder of another kind
    (descriptor, inotify, popen, ...) that a refactoring moved cannot break this rule; c01.stale is run as a whole
    but only the contexts that call a wait handler are kept, and an ANALYSIS-BROKEN it raises for another kind is
    answered by running the same analysis on the roots of iv_wait.c alone."""
    import types
    from . import c01
    prog = ctx.prog
    # functions whose (inlined) body calls a wait handler: by role, not by name
    names = set()
    for f in prog.all_funcs():
        if f.file.endswith('/' + h.UNIT) and any(e['ev'] == 'call' and 'fnexpr' in e and last_member(e['fnexpr']) == (h.REC, 'handler')
                                                  for e in f.events()):
            names.add(f.name)
            for c in roles.callers_closure(prog, f):
                names.add(c.name)
    if not names:
        raise AnalysisBroken('no call through iv_wait_interest.handler found')
    sub = []
    emit = lambda rid, inst, ok, **kw: sub.append((rid, inst, ok, kw))
    proxy = types.SimpleNamespace(prog=prog, ob=emit, exempt=lambda *a, **k: None)
    mine = lambda sig: isinstance(sig, tuple) and len(sig) == 3 and sig[0] == 'marker' and sig[1] == h.REC
    table = getattr(c01, 'HOLDERS', None)
    broken = []
    if isinstance(table, dict) and any(mine(k) for k in table):
        for sig in sorted(k for k in table if mine(k)):
            c01.HOLDERS = {sig: table[sig]}
            try:
                c01.holders(proxy)
            except AnalysisBroken as ex:
                broken.append(str(ex))
            finally:
                c01.HOLDERS = table
    else:
        try:
            c01.holders(proxy)
        except AnalysisBroken as ex:
            broken.append(str(ex))
    # a root in which no abstract execution reaches a handler call is not a delivery context (a drain helper shared by
    # delivery and purge, `drain(.., deliver = 0)` inlined into unregister): "used after the callback" is vacuous there
    idle = set()
    for v in h.views(prog):
        cbs = [e for e in v.g.events() if v.is_wait_callback(e)]
        if cbs and not any(v.reached(e) for e in cbs):
            idle.add(v.root.name)
    wanted = lambda rid, inst: rid == 'R-C01a' and inst.split(':')[0] in names and inst.split(':')[0] not in idle
    try:
        c01.stale(proxy)
    except AnalysisBroken as ex:
        # raised for the library as a whole (a handler field of another kind vanished, a foreign root does not inline)
        if not any(wanted(rid, inst) for rid, inst, ok, kw in sub):
            _stale_local(prog, emit)
    n, seen = 0, set()
    for rid, inst, ok, kw in sub:
        if (rid == 'R-C01c' and inst.startswith('holder:marker ' + h.REC)) or wanted(rid, inst):
            if (inst, ok) in seen:
                continue
            seen.add((inst, ok))
            n += 1
            ctx.ob('R-C11f', inst, ok, **kw)
    if broken:
        raise AnalysisBroken('; '.join(broken))
    if n < 2:
        raise AnalysisBroken('wait delivery marker rules not found')


def marker_own(ctx):
    from . import c01
    if not c01.marker_own(ctx, 'R-C11i', {h.REC}):
        raise AnalysisBroken('no store into the handled-interest marker found in the unregister call')


# --------------------------------------------------------------------------
# R-C11g
# --------------------------------------------------------------------------

def status_order(ctx):
    """FIFO as a parity condition.  Every insertion of a status record into an interest's pending queue has an
    orientation (+1: at the tail, the queue holds the oldest status first; -1: at the head).  Every designation of a
    record that is handed to the handler needs an orientation of the queue (+1: the first element of the queue, or
    of a list that received the queue's elements in order, or the last of a reversed copy; -1 the other way round).
    The handler sees the statuses in the order they occurred iff all of these agree.  When they do not, the
    constructs that deviate from the orientation most of the others have (on a tie: from append-at-tail /
    take-from-head) fail."""
    prog = ctx.prog
    rid = 'R-C11g'
    ins = h.queue_inserts(prog)
    if not ins:
        raise AnalysisBroken('no insertion of a status record into the pending queue of an interest found')
    dels = h.deliveries(prog)
    if not dels:
        raise AnalysisBroken('delivery: no status record handed to a wait handler found')
    orient = {'tail': 1, 'head': -1, 'middle': 0}
    cost = {c: sum(1 for (_, _, end) in ins if orient[end] != c) + sum(1 for (_, _, need, _) in dels if need != c) for c in (1, -1)}
    c = 1 if cost[1] <= cost[-1] else -1
    takes = sorted({how for (_, _, _, how) in dels})
    by_root = {}
    for (v, e, end) in ins:
        by_root.setdefault(h.role_name(prog, v), []).append((v, e, end))
    for nm in sorted(by_root):
        sites = by_root[nm]
        bad = [(v, e, end) for (v, e, end) in sites if orient[end] != c]
        v0, e0, end0 = (bad or sites)[0]
        ends = sorted({'%s at %s' % (end, relpath(e['loc'])) for (_, e, end) in sites})
        ctx.ob(rid, '%s:status-queued-behind-older-ones' % nm, not bad, loc=e0['loc'],
               detail=('%s: the record becomes the %s element of the interest\'s queue, but the delivery %s: statuses of one child reaped '
                       'in separate passes reach the handler out of order' %
                       (describe(e0), {'head': 'first', 'tail': 'last', 'middle': 'second / last but one'}[end0], '; '.join(takes))) if bad else
                      'every insertion into an interest\'s queue (%s) puts the record at the end the delivery reaches last (the delivery %s)'
                      % ('; '.join(ends), '; '.join(takes)),
               path=path_to(v0.g, e0) if bad else None, fn=v0.root.q)
    by_root = {}
    for (v, e, need, how) in dels:
        by_root.setdefault(h.role_name(prog, v), []).append((v, e, need, how))
    where = sorted({'%s at %s' % (end, relpath(e['loc'])) for (_, e, end) in ins})
    for nm in sorted(by_root):
        sites = by_root[nm]
        bad = [x for x in sites if x[2] != c]
        v0, e0, need0, how0 = (bad or sites)[0]
        ctx.ob(rid, '%s:oldest-status-first' % nm, not bad, loc=e0['loc'],
               detail=('the record handed to the handler: the delivery %s, while the queue is filled at its %s: the newest status is '
                       'delivered first' % (how0, '; '.join(where))) if bad else
                      'the record handed to the handler is the oldest one still queued (the delivery %s; queue filled: %s)'
                      % ('; '.join(takes), '; '.join(where)),
               path=path_to(v0.g, e0) if bad else None, fn=v0.root.q)


# --------------------------------------------------------------------------
# R-C11h
# --------------------------------------------------------------------------

def key_final(ctx):
    """The pid set is a search tree: a node is found only where the comparator put it when it was inserted.  Two
    necessary conditions of "a child spawned through the library is never missed" and of "every reaped status is
    delivered to that interest": (1) in a root that forks, the interest inserted after fork() carries, at the insertion,
    the pid fork() returned (must-analysis from the fork call, value flow of fork's result through locals / records);
    (2) in every root, a store to the pid of an interest that is in the set (may-analysis: inserted by the root or
    reached through the tree links, not deleted since) is undone by deleting the node / filing it anew before anybody
    can rely on the order: before the lock is released, the tree is searched, a node is inserted, the root returns."""
    prog = ctx.prog
    rid = 'R-C11h'
    lock = h.wait_lock(prog)
    forks = h.contexts(prog, 'is_fork')
    if not forks:
        raise AnalysisBroken('spawn helper: no fork() call reachable from a root of iv_wait.c')
    for v, fks in forks:
        nm = h.role_name(prog, v)
        res = h.keyed_by_fork(v, fks)
        if not res:
            raise AnalysisBroken('%s: no insertion of an interest follows fork()' % nm)
        bad = [e for (e, ok) in res if not ok]
        e0 = (bad or [e for (e, ok) in res])[0]
        ctx.ob(rid, '%s:inserted-under-the-child-pid' % nm, not bad, loc=e0['loc'],
               detail=('%s: on some path from fork() the pid field of the inserted interest does not hold the value fork() returned at this '
                       'point: the node is filed under a stale key and the reaper, which searches for the pid it reaped, does not find it '
                       '(the status of the child is dropped as a stranger\'s)' % describe(e0)) if bad else
                      'on every path from fork() to the insertion the pid field of the inserted interest was stored the value fork() returned',
               path=path_to(v.g, e0) if bad else None, fn=v.root.q)
    n = 0
    for v in h.views(prog):
        nst, nins, viol = h.key_changes(v, lock)
        if not nst and not nins:
            continue
        n += 1
        ctx.ob(rid, '%s:key-final-while-in-set' % h.role_name(prog, v), not viol, loc=viol[0][0] if viol else v.root.loc,
               detail=('the pid of an interest that is in the set is stored to, and the node is neither deleted nor filed anew before %s at %s: '
                       'the tree is no longer ordered by the keys its nodes carry, lookups of this and of other pids go astray'
                       % (viol[0][2], relpath(viol[0][1]))) if viol else
                      '%d insertion(s), %d store(s) to a pid field: none to an interest that is in the set at that moment' % (nins, nst),
               fn=v.root.q)
    if not n:
        raise AnalysisBroken('no insertion into the pid set and no store to a pid field found in the roots of iv_wait.c')
