"""Helpers of C19: a small symbolic machine for the popen life cycle.

The rules of C19 do not match statements.  They *run* the functions of the
popen module (whatever they are called and however they are cut into static
helpers) on an abstract state and look at what happened:

  * values are concrete integers, string literals, function addresses,
    addresses of locations, named descriptors, or opaque terms;
  * memory is a map location -> value (a location is a base -- local of a
    frame, heap object, global, object behind an unknown pointer -- followed by
    field/index steps), so caching a field in a local, renaming, index
    arithmetic, flag variables, if/switch/table shapes all evaluate to the same
    values;
  * calls of functions that have a body in the analysed .c file (or in a header)
    are executed; the calls that constitute the environment (malloc, pipe, open,
    dup2, close, exec*, free, the iv_wait / iv_timer API, strcmp) are *modelled*
    as type-state transitions (descriptor table, heap, set of registered loop
    objects) and may have several outcomes (malloc fails, pipe fails, the
    spawn fails, the kill helper reports the child gone);
  * a branch the state does not decide, and every modelled outcome, is a
    *choice*; all combinations are enumerated by re-execution (functions are
    tiny), a scenario can pin choices.

No repository code is executed; this is abstract interpretation over the CFG
facts (same substrate as ivy/interp.py, extended with memory, calls and
nondeterministic environment outcomes).
"""
import os

from ..core import AnalysisBroken, canon
from ..analyses import LOCK_FUNCS

MAX_STEPS = 20000
MAX_PATHS = 700
MAX_DEPTH = 12


class PathEnd(Exception):
    def __init__(self, why):
        Exception.__init__(self, why)
        self.why = why


# ----------------------------------------------------------------------------
# values
# ----------------------------------------------------------------------------

def I(n):
    return ('int', int(n))


NULL = I(0)
NEG = ('neg', 'ERR')            # some negative error code


def is_i(v, n=None):
    return isinstance(v, tuple) and v[0] == 'int' and (n is None or v[1] == n)


def nonnull(v):
    return isinstance(v, tuple) and v[0] in ('addr', 'fn', 'str')


def show(v):
    if not isinstance(v, tuple):
        return str(v)
    t = v[0]
    if t == 'int':
        return str(v[1])
    if t == 'str':
        return '"%s"' % v[1]
    if t == 'fn':
        return v[1].split(':')[-1]
    if t == 'fd':
        return '<%s>' % v[1]
    if t == 'neg':
        return '<negative>'
    if t == 'pos':
        return '<%s>' % v[1]
    if t == 'sym':
        return v[1]
    if t == 'addr':
        return '&' + show_loc(v[1])
    if t == 'init':
        return 'initial(%s)' % show_loc(v[1])
    if t == 'op':
        return '(%s %s %s)' % (show(v[2]), v[1], show(v[3]))
    if t == 'un':
        return '%s%s' % (v[1], show(v[2]))
    if t == 'fld':
        return '%s%s' % (show(v[1]), ''.join(show_step(s) for s in v[2]))
    if t == 'ret':
        return '%s()#%d' % (v[1], v[2])
    if t == 'agg':
        return '{%s}' % ', '.join('%s: %s' % (''.join(show_step(x) for x in sfx), show(x)) for sfx, x in v[2])
    return '<%s>' % ' '.join(str(x) for x in v)


def show_step(s):
    return ('.%s' % s[1]) if s[0] == 'f' else ('[%s]' % show(s[1]))


def show_loc(loc):
    b = loc[0]
    if b[0] == 'L':
        s = b[2]
    elif b[0] == 'H':
        s = 'heap#%d' % b[1]
    elif b[0] in ('G', 'X'):
        s = b[1]
    elif b[0] == 'O':
        s = '*' + show(b[1])
    else:
        s = str(b)
    return s + ''.join(show_step(x) for x in loc[1:])


def mentions(v, pred):
    """does value v contain a sub-value satisfying pred?"""
    if not isinstance(v, tuple):
        return False
    if pred(v):
        return True
    return any(mentions(x, pred) for x in v if isinstance(x, tuple))


def garbage(v, m):
    """v depends on the never-written content of a heap object or of a local (uninitialised memory)"""
    return mentions(v, lambda x: x[0] == 'init' and x[1][0][0] in ('H', 'L'))


# ----------------------------------------------------------------------------
# choices
# ----------------------------------------------------------------------------

class Oracle:
    def __init__(self, prefix, fixed):
        self.prefix = list(prefix)
        self.fixed = fixed or {}
        self.trail = []          # (key, chosen index, number of options, label)

    def choose(self, key, options):
        """options: list of labels; returns the index chosen"""
        if key in self.fixed and self.fixed[key] in options:
            return options.index(self.fixed[key])
        kind = key[0] if isinstance(key, tuple) else key
        if kind in self.fixed and self.fixed[kind] in options:
            return options.index(self.fixed[kind])
        i = len(self.trail)
        c = self.prefix[i] if i < len(self.prefix) else 0
        if c >= len(options):
            raise AnalysisBroken('C19 machine: replay diverged at %s' % (key,))
        self.trail.append((key, c, len(options), options[c]))
        return c


def explore(scenario, fixed=None):
    """Run scenario(machine-factory oracle) for every combination of open choices.
    scenario(oracle) -> result; returns [(trail, result)]."""
    out = []
    todo = [[]]
    while todo:
        prefix = todo.pop()
        orc = Oracle(prefix, fixed)
        res = scenario(orc)
        out.append((list(orc.trail), res))
        if len(out) > MAX_PATHS:
            raise AnalysisBroken('C19 machine: more than %d paths through the popen life cycle' % MAX_PATHS)
        for i in range(len(prefix), len(orc.trail)):
            key, c, n, _ = orc.trail[i]
            for alt in range(c + 1, n):
                todo.append([t[1] for t in orc.trail[:i]] + [alt])
    return out


def trail_text(trail):
    out = []
    for (key, c, n, label) in trail:
        if isinstance(key, tuple) and key[0] == 'branch':
            out.append('%s is %s' % (show(key[1]), label))
        else:
            out.append('%s: %s' % (key[0] if isinstance(key, tuple) else key, label))
    return out


# ----------------------------------------------------------------------------
# the machine
# ----------------------------------------------------------------------------

EXEC_CALLS = {'execvp': (0, 1), 'execv': (0, 1), 'execve': (0, 1), 'execvpe': (0, 1)}
QUIET = ('perror', 'fprintf', 'printf', 'fputs', 'puts', 'syslog', 'strerror', '__errno_location', 'iv_validate_now',
         '__iv_now_location_valid', 'iv_invalidate_now', 'IV_WAIT_INTEREST_INIT', 'abort', 'iv_fatal', 'exit', '_exit')


# environment calls whose effect on processes, descriptors or loop objects the model does not follow
UNMODELLED = ('fork', 'vfork', 'posix_spawn', 'posix_spawnp', 'clone', 'popen', 'system', 'iv_wait_interest_register', 'socketpair', 'dup', 'fcntl',
              'waitpid', 'wait4', 'wait', 'waitid', 'realloc', 'reallocarray', 'iv_task_register', 'iv_fd_register', 'iv_event_register',
              'iv_signal_register', 'signal', 'sigaction', 'longjmp', 'setjmp', 'pthread_create', 'creat', 'openat', 'dup2_noerr')


class Machine:
    def __init__(self, prog, oracle, home_files):
        self.prog = prog
        self.orc = oracle
        self.home = tuple(home_files)
        self.mem = {}
        self.heap = {}            # id -> 'live' | 'freed'
        self.fds = {I(0): ('std', 0), I(1): ('std', 1), I(2): ('std', 2)}
        self.reg = {}             # location of a registered loop object -> dict(kind, handler, cookie)
        self.log = []             # observable events, in order
        self.viol = []            # type-state violations: dict(what, loc)
        self.children = []        # machines of spawned children
        self.frames = 0
        self.depth = 0
        self.steps = 0
        self.callres = {}
        self.seq = 0
        self.role = 'parent'
        self.phase = ''
        self.released = []        # (base, why): objects the caller may have released: no access allowed
        self.cur_fn = None
        self.undecided = []       # branches decided by the oracle: (term, loc, fn)
        self.memo = {}
        self.ginit = set()
        self.locks = []           # lock objects (values) currently held
        self.on_lock = None       # hook(lock value, loc): the environment acts when a lock is acquired (R-C19f)
        self.on_kill = None       # hook(event) -> value of a raw kill()
        self.on_unlock = None     # hook(lock value, loc): after a lock was released (R-C19g)
        self.env = {}             # name -> model: environment calls of one particular run (take precedence over MODELLED)

    # -- cloning (fork) -------------------------------------------------------
    def fork(self):
        c = Machine(self.prog, self.orc, self.home)
        c.mem = dict(self.mem)
        c.heap = dict(self.heap)
        c.fds = dict(self.fds)
        c.reg = {}
        c.frames = self.frames + 1000
        c.role = 'child'
        c.phase = self.phase
        c.memo = self.memo
        c.ginit = set(self.ginit)
        c.seq = self.seq + 1000
        return c

    # -- bookkeeping ----------------------------------------------------------
    def violation(self, what, loc, kind='typestate'):
        self.viol.append({'what': what, 'loc': loc, 'fn': self.cur_fn, 'phase': self.phase, 'kind': kind})

    def note(self, kind, name, args, loc, **kw):
        d = {'kind': kind, 'name': name, 'args': args, 'loc': loc, 'fn': self.cur_fn, 'phase': self.phase}
        d.update(kw)
        self.log.append(d)
        return d

    def fresh(self, what):
        self.seq += 1
        return ('ret', what, self.seq)

    # -- memory -----------------------------------------------------------------
    def _check_access(self, loc, srcloc, how):
        b = loc[0]
        if b[0] == 'H' and self.heap.get(b[1]) == 'freed':
            self.violation('%s of %s after the object was freed' % (how, show_loc(loc)), srcloc, 'use-after-free')
        for (rb, why) in self.released:
            if b == rb:
                self.violation('%s of %s %s' % (how, show_loc(loc), why), srcloc, 'released')

    def read(self, loc, srcloc=None):
        self._check_access(loc, srcloc, 'read')
        b = loc[0]
        if b[0] == 'O' and isinstance(b[1], tuple) and b[1][0] == 'str':
            s = b[1][1]
            i = 0
            if len(loc) == 2 and loc[1][0] == 'i' and is_i(loc[1][1]):
                i = loc[1][1][1]
            elif len(loc) != 1:
                return ('init', loc)
            return I(ord(s[i])) if 0 <= i < len(s) else I(0)
        if b[0] == 'G' and b not in self.ginit:
            self.materialise_global(b)
        n = len(loc)
        parts = [(k[n:], v) for k, v in self.mem.items() if len(k) > n and k[:n] == loc]
        if parts:
            # a struct / array read as a whole (struct assignment, by-value argument, returned struct): the value is
            # what the location holds as a whole plus the members written individually
            return ('agg', self._read_whole(loc), tuple(sorted(parts, key=repr)))
        return self._read_whole(loc)

    def _read_whole(self, loc):
        if loc in self.mem:
            return self.mem[loc]
        for k in range(len(loc) - 1, 0, -1):
            if loc[:k] in self.mem:
                v = self.mem[loc[:k]]
                if is_i(v, 0):
                    return v          # part of a zero-filled aggregate
                if v[0] == 'init':
                    return ('init', v[1] + loc[k:])
                if v[0] == 'fld':
                    return ('fld', v[1], v[2] + loc[k:])
                return ('fld', v, loc[k:])
        return ('init', loc)

    def write(self, loc, v, srcloc=None, quiet=False):
        self._check_access(loc, srcloc, 'write')
        self.put(loc, v)
        if not quiet and loc[0][0] != 'L':
            self.note('store', show_loc(loc), [v], srcloc, target=loc)

    def put(self, loc, v):
        """raw store; an aggregate value is laid out member by member"""
        for k in [k for k in self.mem if len(k) > len(loc) and k[:len(loc)] == loc]:
            del self.mem[k]
        if isinstance(v, tuple) and v and v[0] == 'agg':
            self.mem[loc] = v[1]
            for sfx, x in v[2]:
                self.mem[loc + sfx] = x
        else:
            self.mem[loc] = v

    def materialise_global(self, b):
        """a global that is never written keeps its initialiser (lookup tables)"""
        self.ginit.add(b)
        g = None
        for hf in self.home:
            g = g or self.prog.global_for(os.path.basename(hf), b[1])
        if not isinstance(g, dict) or g.get('extern_decl') or g.get('tls'):
            return
        if self.prog.global_writers(b[1]):
            return
        if isinstance(g.get('init'), dict):
            self.init_store((b,), g['init'], 0)
        else:
            self.mem[(b,)] = I(0)

    def init_store(self, loc, ie, fr):
        """store an initialiser (scalar, {fields}, {elems}) at loc"""
        if isinstance(ie, dict) and ie.get('k') == 'init':
            for k in [k for k in self.mem if len(k) > len(loc) and k[:len(loc)] == loc]:
                del self.mem[k]
            self.mem[loc] = I(0)             # members not mentioned are zero
            if 'fields' in ie:
                for fld, x in ie['fields'].items():
                    self.init_store(loc + (('f', fld),), x, fr)
            for i, x in enumerate(ie.get('elems', [])):
                self.init_store(loc + (('i', I(i)),), x, fr)
            return
        self.put(loc, self.rvalue(ie, fr))

    def covered(self, loc):
        """has loc been written (as a whole, as part of an enclosing aggregate, or member by member)?"""
        n = len(loc)
        return any(k[:n] == loc or loc[:len(k)] == k for k in self.mem)

    def deref(self, v):
        """location a pointer value points to"""
        if v[0] == 'addr':
            return v[1]
        return (('O', v),)

    # -- expressions ------------------------------------------------------------
    def lvalue(self, e, fr):
        k = e.get('k')
        if k in ('cast', 'stmtexpr', 'compound', 'paren') and 'e' in e:
            return self.lvalue(e['e'], fr)
        if k == 'var':
            if e.get('vk') in ('local', 'param'):
                return (('L', fr, e['name']),)
            return (('G', e['name']),)
        if k == 'member':
            if e['arrow']:
                base = self.deref(self.rvalue(e['base'], fr))
            else:
                base = self.lvalue(e['base'], fr)
            return base + (('f', e['field']),)
        if k == 'index':
            b = e['base']
            bs = b
            while isinstance(bs, dict) and bs.get('k') in ('cast', 'paren') and 'e' in bs:
                bs = bs['e']
            idx = self.rvalue(e['idx'], fr)
            if isinstance(bs, dict) and bs.get('k') in ('var', 'member', 'index', 'deref') and not (bs.get('k') == 'var' and bs.get('vk') == 'func'):
                base = self.lvalue(bs, fr)       # an array lvalue
                return base + (('i', idx),)
            pv = self.rvalue(b, fr)
            return self.ptr_add(pv, idx)
        if k == 'deref':
            return self.deref(self.rvalue(e['e'], fr))
        if k == 'load':
            # load used as lvalue: the loaded pointer's pointee is addressed elsewhere; treat as its own location
            return self.lvalue(e['e'], fr)
        raise AnalysisBroken('C19 machine: no location for expression %s' % canon(e))

    def decay(self, loc):
        """value of an array designator: its address; a char array that holds a string constant as a whole (initialised
        from a literal, no element written since) is that string"""
        if loc[0][0] == 'G' and loc[0] not in self.ginit:
            self.materialise_global(loc[0])
        v = self.mem.get(loc)
        if isinstance(v, tuple) and v[0] == 'str' and not any(len(k) > len(loc) and k[:len(loc)] == loc for k in self.mem):
            return v
        return ('addr', loc + (('i', I(0)),))

    def ptr_add(self, pv, idx):
        if pv[0] == 'addr':
            loc = pv[1]
            if loc and loc[-1][0] == 'i' and is_i(loc[-1][1]) and is_i(idx):
                return loc[:-1] + (('i', I(loc[-1][1][1] + idx[1])),)
            return loc + (('i', idx),)
        base = (('O', pv),)
        if is_i(idx, 0):
            return base
        return base + (('i', idx),)

    def rvalue(self, e, fr):
        if not isinstance(e, dict):
            return self.fresh('?')
        k = e.get('k')
        if k == 'int':
            return I(e['v'])
        if k == 'null':
            return NULL
        if k == 'str':
            return ('str', e['v'])
        if k == 'load':
            inner = e['e']
            loc = self.lvalue(inner, fr)
            return self.read(loc, e.get('loc'))
        if k in ('stmtexpr', 'compound', 'paren') and 'e' in e:
            return self.rvalue(e['e'], fr)
        if k == 'cast':
            v = self.rvalue(e['e'], fr)
            to = str(e.get('to', e.get('type', '')))
            if is_i(v) and to in ('signed char', 'char', 'int8_t'):
                n = v[1] & 0xff
                return I(n - 256 if n >= 128 else n)
            if is_i(v) and to in ('unsigned char', 'uint8_t'):
                return I(v[1] & 0xff)
            if to in ('_Bool', 'bool'):
                t = self.truth_static(v)
                return I(int(t)) if t is not None else ('op', '!=', v, I(0))
            return v
        if k == 'var':
            if e.get('vk') == 'func':
                f = self._resolve(e['name'])
                return ('fn', f.q if f is not None else e['name'])
            # array (or function) designator in value context: decays to its address
            return self.decay(self.lvalue(e, fr)) if '[' in str(e.get('type', '')) else self.read(self.lvalue(e, fr))
        if k in ('member', 'index', 'deref'):
            loc = self.lvalue(e, fr)
            if '[' in str(e.get('type', '')):
                return self.decay(loc)
            return self.read(loc, e.get('loc'))
        if k == 'addr':
            inner = e['e']
            si = inner
            while isinstance(si, dict) and si.get('k') in ('cast', 'paren') and 'e' in si:
                si = si['e']
            if isinstance(si, dict) and si.get('k') == 'var' and si.get('vk') == 'func':
                return self.rvalue(si, fr)
            return ('addr', self.lvalue(inner, fr))
        if k == 'call':
            key = (fr, e.get('loc'), e.get('callee') or canon(e.get('fnexpr')))
            if key in self.callres:
                return self.callres[key]
            if e.get('callee') == 'iv_list_empty' and len(e.get('args', [])) == 1:
                # no call event has produced this value: the core writes an open-coded emptiness test (`h->next == h`,
                # `X.next != &X`) as a call expression of the list predicate.  It is a pure function of memory: evaluate it
                # where it stands, through the run's model of the predicate if there is one, else by its definition
                hv = self.rvalue(e['args'][0], fr)
                h = self.env.get('iv_list_empty')
                if h is not None:
                    return h(self, 'iv_list_empty', [hv], e.get('loc'))
                return self.binop('==', self.read(_obj_loc(self, hv) + (('f', 'next'),), e.get('loc')), hv)
            return self.fresh(e.get('callee') or 'call')
        if k == 'un':
            v = self.rvalue(e['e'], fr)
            op = e['op']
            if op == '!':
                t = self.truth_static(v)
                if t is not None:
                    return I(int(not t))
                return ('un', '!', v)
            if is_i(v):
                if op == '-':
                    return I(-v[1])
                if op == '~':
                    return I(~v[1])
                if op == '+':
                    return v
            return ('un', op, v)
        if k == 'bin':
            op = e['op']
            if op in ('&&', '||'):
                a = self.truth(self.rvalue(e['l'], fr), e.get('loc'))
                if op == '&&' and not a:
                    return I(0)
                if op == '||' and a:
                    return I(1)
                return I(int(self.truth(self.rvalue(e['r'], fr), e.get('loc'))))
            if op == ',':
                return self.rvalue(e['r'], fr)
            return self.binop(op, self.rvalue(e['l'], fr), self.rvalue(e['r'], fr))
        if k == 'cond':
            c = self.truth(self.rvalue(e['c'], fr), e.get('loc'))
            return self.rvalue(e['a'] if c else e['b'], fr)
        if k == 'incdec':
            # the store event of the side effect has already been executed
            cur = self.read(self.lvalue(e['e'], fr))
            if e.get('prefix'):
                return cur
            return self.binop('-' if e['op'] == '++' else '+', cur, I(1))
        if k == 'assign':
            return self.read(self.lvalue(e['l'], fr))
        if k == 'sizeof':
            return I(e['v']) if 'v' in e else self.fresh('sizeof')
        if k == 'container_of':
            v = self.rvalue(e['e'], fr)
            steps = tuple(('f', x) for x in str(e['member']).split('.'))       # the member may be a path (kill.timer)
            if v[0] == 'addr' and len(v[1]) > len(steps) and v[1][-len(steps):] == steps:
                return ('addr', v[1][:-len(steps)])
            return ('op', 'container_of', v, ('str', '%s.%s' % (e.get('record'), e.get('member'))))
        return self.fresh(k or '?')

    def binop(self, op, a, b):
        if is_i(a) and is_i(b):
            x, y = a[1], b[1]
            try:
                if op in ('+', '-', '*', '&', '|', '^', '<<', '>>'):
                    return I(eval('%d %s %d' % (x, op, y)))
                if op == '/':
                    return I(int(x / y)) if y else self.fresh('div0')
                if op == '%':
                    return I(x - int(x / y) * y) if y else self.fresh('div0')
                if op in ('<', '>', '<=', '>=', '==', '!='):
                    return I(int(eval('%d %s %d' % (x, op, y))))
            except Exception:
                return ('op', op, a, b)
        if op in ('<', '>', '<=', '>=', '==', '!='):
            r = self.compare(op, a, b)
            if r is not None:
                return I(int(r))
            return ('op', op, a, b)
        # (x + 1) - 1, (x - 1) + 1
        if op in ('+', '-') and is_i(b) and a[0] == 'op' and a[1] in ('+', '-') and is_i(a[3]):
            n = (a[3][1] if a[1] == '+' else -a[3][1]) + (b[1] if op == '+' else -b[1])
            if n == 0:
                return a[2]
            return ('op', '+', a[2], I(n)) if n > 0 else ('op', '-', a[2], I(-n))
        if op in ('+', '-') and is_i(b, 0):
            return a
        if op == '+' and a[0] == 'addr' and is_i(b):
            return ('addr', self.ptr_add(a, b))
        if op == '-' and a[0] == 'addr' and is_i(b):
            return ('addr', self.ptr_add(a, I(-b[1])))
        if op == '-' and a[0] == 'addr' and b[0] == 'addr':
            d = self.elem_distance(a, b)
            if d is not None:
                return I(d)
        if op == '+' and is_i(a) and not is_i(b):
            return self.binop('+', b, a)
        return ('op', op, a, b)

    @staticmethod
    def elem_distance(a, b):
        """a - b for two addresses of elements of the same array (an object itself counts as element 0 of an array of one)"""
        def split(v):
            loc = v[1]
            if loc and loc[-1][0] == 'i' and is_i(loc[-1][1]):
                return loc[:-1], loc[-1][1][1]
            return loc, 0
        (pa, ia), (pb, ib) = split(a), split(b)
        if pa == pb:
            return ia - ib
        return None

    def compare(self, op, a, b):
        """decided comparisons of abstract values, else None"""
        SW = {'<': '>', '>': '<', '<=': '>=', '>=': '<=', '==': '==', '!=': '!='}
        if a[0] == 'addr' and b[0] == 'addr' and op in ('<', '>', '<=', '>='):
            d = self.elem_distance(a, b)
            if d is not None:
                return {'<': d < 0, '>': d > 0, '<=': d <= 0, '>=': d >= 0}[op]
        if is_i(a) and not is_i(b):
            return self.compare(SW[op], b, a)
        if a == b and a[0] in ('addr', 'fn', 'str', 'fd', 'sym', 'int', 'pos'):
            return op in ('==', '<=', '>=')
        if a[0] == 'pos' and is_i(b):          # some positive integer (the process id fork() returns in the parent)
            if b[1] <= 0:
                return {'==': False, '!=': True, '<': False, '<=': False, '>': True, '>=': True}[op]
            return None
        if nonnull(a) and is_i(b, 0):
            return {'==': False, '!=': True, '<': False, '<=': False, '>': True, '>=': True}[op]
        if nonnull(a) and nonnull(b) and a[0] in ('addr', 'fn') and b[0] in ('addr', 'fn'):
            if op in ('==', '!='):
                return (a == b) == (op == '==')
        if a[0] == 'fd' and is_i(b):           # a descriptor is some integer >= 3 here (0..2 are the standard streams)
            n = b[1]
            if n <= 2:
                return {'==': False, '!=': True, '<': False, '<=': False, '>': True, '>=': True}[op]
            return None
        if a[0] == 'neg' and is_i(b):
            n = b[1]
            if n >= 0:
                return {'==': False, '!=': True, '<': True, '<=': True, '>': False, '>=': False}[op]
            return None
        if a[0] == 'fd' and b[0] == 'fd':
            if op in ('==', '!='):
                return (a == b) == (op == '==')
        return None

    def truth_static(self, v):
        if is_i(v):
            return v[1] != 0
        if nonnull(v) or v[0] in ('fd', 'neg', 'pos'):
            return True
        if v[0] == 'un' and v[1] == '!':
            t = self.truth_static(v[2])
            return None if t is None else (not t)
        return None

    def truth(self, v, srcloc=None):
        t = self.truth_static(v)
        if t is not None:
            return t
        if v[0] == 'un' and v[1] == '!':
            return not self.truth(v[2], srcloc)
        if v[0] == 'op' and v[1] in ('==', '!=') and is_i(v[3], 0) and v[2][0] not in ('fd',):
            inner = v[2]
            if inner[0] in ('op', 'un') and (inner[1] in ('<', '>', '<=', '>=', '==', '!=', '!')):
                t = self.truth(inner, srcloc)
                return t if v[1] == '!=' else (not t)
        # normalise negated comparison operators so that x < 0 and x >= 0 share one decision
        NEGOP = {'>=': '<', '<=': '>', '!=': '=='}
        flip = False
        key = v
        if v[0] == 'op' and v[1] in NEGOP:
            key = ('op', NEGOP[v[1]], v[2], v[3])
            flip = True
        k = ('branch', key)
        if k not in self.memo_local():
            c = self.orc.choose(k, ['true', 'false'])
            self.memo_local()[k] = (c == 0)
            self.undecided.append({'term': key, 'loc': srcloc, 'fn': self.cur_fn, 'phase': self.phase, 'role': self.role})
        r = self.memo_local()[k]
        return (not r) if flip else r

    def memo_local(self):
        return self.memo

    # -- functions ---------------------------------------------------------------
    def _resolve(self, name):
        for hf in self.home:
            f = self.prog.resolve(os.path.basename(hf), name)
            if f is not None:
                return f
        return self.prog.funcs.get(name)

    def steps_into(self, f):
        if f is None or not f.blocks:
            return False
        if f.name in MODELLED or f.name in self.env:
            return False
        if f.file.endswith(self.home):
            return True
        return not f.file.endswith('.c')     # inline function of a header

    def call(self, f, args, srcloc=None):
        """execute function f (a core.Func) on argument values; returns its value"""
        self.depth += 1
        if self.depth > MAX_DEPTH:
            raise AnalysisBroken('C19 machine: call depth exceeded in %s' % f.name)
        self.frames += 1
        fr = self.frames
        saved_fn = self.cur_fn
        self.cur_fn = f.q
        g = f.pristine()
        for p, a in zip(g.params, args):
            self.put((('L', fr, p['name']),), a)
        b = g.entry
        rv = None
        try:
            while True:
                blk = g.blocks[b]
                for e in blk.events:
                    self.steps += 1
                    if self.steps > MAX_STEPS:
                        raise AnalysisBroken('C19 machine: %s does not terminate on the abstract state' % f.name)
                    ev = e['ev']
                    if ev == 'load':
                        continue
                    if ev == 'decl':
                        if e.get('static'):
                            sl = (('G', e['name']),)
                            if sl[0] not in self.ginit:
                                self.ginit.add(sl[0])
                                if isinstance(e.get('init'), dict):
                                    self.init_store(sl, e['init'], fr)
                                else:
                                    self.mem[sl] = I(0)
                            continue
                        loc = (('L', fr, e['name']),)
                        for k in [k for k in self.mem if k[:1] == loc]:
                            del self.mem[k]
                        if isinstance(e.get('init'), dict):
                            self.init_store(loc, e['init'], fr)
                        continue
                    if ev == 'store':
                        self.do_store(e, fr)
                        continue
                    if ev == 'call':
                        self.do_call(e, fr)
                        continue
                    if ev == 'ret':
                        rv = self.rvalue(e['value'], fr) if 'value' in e else None
                        return rv
                if blk.noreturn:
                    raise PathEnd('fatal')
                if not blk.succ:
                    return rv
                if len(blk.succ) == 1:
                    b = blk.succ[0]
                    if b is None:
                        return rv
                    continue
                t = blk.term or {}
                if t.get('cls') == 'SwitchStmt':
                    v = self.rvalue(t['cond'], fr)
                    cases = t.get('cases', [])
                    nxt = None
                    if is_i(v):
                        for i, cv in enumerate(cases):
                            if cv == v[1]:
                                nxt = blk.succ[i]
                        if nxt is None:
                            for i, cv in enumerate(cases):
                                if cv == 'default':
                                    nxt = blk.succ[i]
                        if nxt is None and len(blk.succ) > len(cases):
                            nxt = blk.succ[-1]
                    else:
                        labels = [str(c) for c in cases] + (['after'] if len(blk.succ) > len(cases) else [])
                        # case labels the abstract value cannot equal (a positive pid against 0 / -1) are not taken
                        cand = [i for i, cv in enumerate(cases) if cv == 'default' or not isinstance(cv, int) or self.compare('==', v, I(cv)) is not False]
                        if len(blk.succ) > len(cases) and 'default' not in cases:
                            cand.append(len(cases))
                        if len(cand) == 1:
                            nxt = blk.succ[cand[0]]
                            if nxt is None:
                                return rv
                            b = nxt
                            continue
                        c = self.orc.choose(('switch', v), labels)
                        self.undecided.append({'term': v, 'loc': t.get('loc'), 'fn': self.cur_fn, 'phase': self.phase, 'role': self.role})
                        nxt = blk.succ[c]
                    if nxt is None:
                        return rv
                    b = nxt
                    continue
                c = t.get('cond')
                if c is None:
                    raise AnalysisBroken('C19 machine: branch without condition in %s' % f.name)
                v = self.truth(self.rvalue(c, fr), t.get('loc'))
                b = blk.succ[0] if v else blk.succ[1]
                if b is None:
                    return rv
        finally:
            self.depth -= 1
            self.cur_fn = saved_fn

    def do_store(self, e, fr):
        lhs = e['lhs']
        loc = self.lvalue(lhs, fr)
        op = e.get('op', '=')
        if op == '=':
            r = e.get('rhs')
            while isinstance(r, dict) and r.get('k') in ('compound', 'cast', 'load', 'paren') and isinstance(r.get('e'), dict) and r.get('k') != 'init':
                if r['e'].get('k') in ('compound', 'cast', 'init', 'paren'):
                    r = r['e']
                else:
                    break
            if isinstance(r, dict) and r.get('k') == 'init':
                self.init_store(loc, r, fr)
                self.note('store', show_loc(loc), [I(0)], e.get('loc'), target=loc)
                return
            v = self.rvalue(e['rhs'], fr) if 'rhs' in e else self.fresh('?')
        elif op in ('++', '--'):
            v = self.binop('+' if op == '++' else '-', self.read(loc, e.get('loc')), I(1))
        else:
            v = self.binop(op[:-1], self.read(loc, e.get('loc')), self.rvalue(e['rhs'], fr))
        self.write(loc, v, e.get('loc'))

    def do_call(self, e, fr):
        args = [self.rvalue(a, fr) for a in e.get('args', [])]
        name = e.get('callee')
        target = None
        if name:
            target = self._resolve(name)
        else:
            fv = self.rvalue(e['fnexpr'], fr)
            if fv[0] == 'fn':
                target = self.prog.funcs.get(fv[1])
                name = fv[1].split(':')[-1]
            else:
                name = '(*%s)' % show(fv)
        key = (fr, e.get('loc'), e.get('callee') or canon(e.get('fnexpr')))
        if self.steps_into(target):
            rv = self.call(target, args, e.get('loc'))
            if rv is None:
                rv = self.fresh(name)
        else:
            rv = self.external(name, args, e)
        self.callres[key] = rv
        if e.get('noreturn'):
            raise PathEnd('fatal')

    # -- the environment model ----------------------------------------------------
    def external(self, name, args, e):
        loc = e.get('loc')
        h = self.env.get(name) or MODELLED.get(name)
        if h is not None:
            return h(self, name, args, loc)
        if name in UNMODELLED:
            raise AnalysisBroken('C19 machine: %s() is called in the popen module; the environment model does not cover it' % name)
        if name not in QUIET:
            self.note('call', name, args, loc)
        return self.fresh(name)


def _outcome(m, what, loc, options):
    return options[m.orc.choose((what, loc, m.role), options)]


def m_malloc(m, name, args, loc):
    if _outcome(m, 'malloc', loc, ['ok', 'fails']) == 'fails':
        m.note('call', name, args, loc, outcome='fails')
        return NULL
    hid = len(m.heap) + 1 + (1000 if m.role == 'child' else 0)
    m.heap[hid] = 'live'
    m.note('call', name, args, loc, outcome='ok', obj=hid)
    if name == 'calloc':
        m.mem[(('H', hid),)] = I(0)
    return ('addr', (('H', hid),))


def m_free(m, name, args, loc):
    p = args[0] if args else NULL
    d = m.note('call', 'free', args, loc, registered_inside=[], obj=None)
    if is_i(p, 0):
        return None
    if p[0] == 'addr' and len(p[1]) == 1 and p[1][0][0] == 'H':
        hid = p[1][0][1]
        d['obj'] = hid
        if m.heap.get(hid) != 'live':
            m.violation('object freed twice', loc, 'free')
        inside = [r for r in m.reg if r[0] == p[1][0]]
        d['registered_inside'] = [dict(m.reg[r], where=show_loc(r)) for r in inside]
        for r in inside:
            m.violation('object freed while its %s %s is still registered with the loop' % (m.reg[r]['kind'], show_loc(r)), loc, 'free')
        m.heap[hid] = 'freed'
    else:
        m.violation('free of %s, which is not the start of an allocated object' % show(p), loc, 'free')
    return None


def m_pipe(m, name, args, loc):
    if _outcome(m, 'pipe', loc, ['ok', 'fails']) == 'fails':
        m.note('call', name, args, loc, outcome='fails')
        return I(-1)
    a = args[0]
    base = m.deref(a) if a[0] != 'addr' else a[1]
    if base and base[-1] == ('i', I(0)):
        base = base[:-1]
    n = sum(1 for x in m.fds.values() if x[0] == 'pipe') // 2
    sfx = '' if n == 0 else '#%d' % (n + 1)
    r, w = ('fd', 'pipe-read-end' + sfx), ('fd', 'pipe-write-end' + sfx)
    m.write(base + (('i', I(0)),), r, loc, quiet=True)
    m.write(base + (('i', I(1)),), w, loc, quiet=True)
    m.fds[r] = ('pipe', 'r', n)
    m.fds[w] = ('pipe', 'w', n)
    m.note('call', name, args, loc, outcome='ok')
    return I(0)


def m_open(m, name, args, loc):
    if _outcome(m, 'open', loc, ['ok', 'fails']) == 'fails':
        m.note('call', name, args, loc, outcome='fails')
        return I(-1)
    path = args[0][1] if args and args[0][0] == 'str' else show(args[0]) if args else '?'
    flags = args[1][1] if len(args) > 1 and is_i(args[1]) else None
    n = sum(1 for x in m.fds if x[0] == 'fd' and x[1].startswith('open'))
    fd = ('fd', 'open(%s)%s' % (path, '' if n == 0 else '#%d' % (n + 1)))
    m.fds[fd] = ('file', path, flags)
    m.note('call', name, args, loc, outcome='ok')
    return fd


def m_dup2(m, name, args, loc):
    src, dst = args[0], args[1]
    m.note('call', name, args, loc)
    if src not in m.fds:
        m.violation('dup2 of %s, which is not an open descriptor here' % show(src), loc)
        return I(-1)
    m.fds[dst] = m.fds[src]
    return dst


def m_close(m, name, args, loc):
    fd = args[0]
    m.note('call', 'close', args, loc)
    if fd not in m.fds:
        m.violation('close of %s, which is not an open descriptor here' % show(fd), loc)
        return I(-1)
    del m.fds[fd]
    return I(0)


def m_exec(m, name, args, loc):
    m.note('exec', name, args, loc, table=dict(m.fds))
    return I(-1)        # only returns on failure


def m_strcmp(m, name, args, loc):
    a, b = args[0], args[1]
    if a[0] == 'str' and b[0] == 'str':
        x, y = a[1], b[1]
        if name in ('strncmp', 'strncasecmp') and len(args) > 2 and is_i(args[2]):
            x, y = x[:args[2][1]], y[:args[2][1]]
        if 'case' in name:
            x, y = x.lower(), y.lower()
        return I((x > y) - (x < y))
    return ('op', name, a, b)


def m_memset(m, name, args, loc):
    p = args[0]
    if p[0] == 'addr' and len(args) > 1 and is_i(args[1], 0):
        base = p[1]
        if base and base[-1] == ('i', I(0)):
            base = base[:-1]
        m.write(base, I(0), loc, quiet=True)
    elif p[0] == 'addr':
        m.write(p[1], m.fresh('memset'), loc, quiet=True)
    return p


def m_memcpy(m, name, args, loc):
    """copy of one object (struct, array) onto another of the same type; the byte count is taken to cover the object"""
    d, s_ = args[0], args[1]
    if d[0] != 'addr' or s_[0] not in ('addr', 'str'):
        raise AnalysisBroken('C19 machine: %s() between %s and %s; the environment model does not cover it' % (name, show(d), show(s_)))
    def whole(v):
        l = v[1]
        return l[:-1] if l and l[-1] == ('i', I(0)) else l
    if s_[0] == 'str':
        m.write(whole(d), s_, loc, quiet=True)
    else:
        m.write(whole(d), m.read(whole(s_), loc), loc, quiet=True)
    return d


def m_expect(m, name, args, loc):
    return args[0]


def m_strlen(m, name, args, loc):
    if args and args[0][0] == 'str':
        return I(len(args[0][1]))
    return ('op', 'strlen', args[0], I(0))


def _obj_loc(m, p):
    return p[1] if p[0] == 'addr' else m.deref(p)


def m_spawn(m, name, args, loc):
    wi, fn, cookie = args[0], args[1], args[2]
    w = _obj_loc(m, wi)
    out = _outcome(m, 'spawn', loc, ['ok', 'fails'])
    d = m.note('spawn', name, args, loc, outcome=out, interest=w, child=None,
               handler=m.read(w + (('f', 'handler'),)), cookie=m.read(w + (('f', 'cookie'),)))
    # what the caller has written into the interest at this moment (R-C19h runs the real spawn helper from that state):
    # members written one by one, and whether the object lies in zero-filled memory (calloc, memset, `= {0}`)
    d['pre'] = dict((k[len(w):], v) for k, v in m.mem.items() if len(k) > len(w) and k[:len(w)] == w)
    d['pre_zero'] = any(is_i(m.mem.get(w[:k]), 0) for k in range(len(w), 0, -1))
    if w in m.reg:
        m.violation('wait interest %s registered twice' % show_loc(w), loc)
    if out == 'fails':
        return NEG
    m.reg[w] = {'kind': 'wait interest', 'handler': d['handler'], 'cookie': d['cookie'], 'loc': loc}
    c = m.fork()
    d['child'] = c
    m.children.append(c)
    c.spawn_fn = fn
    if fn[0] == 'fn' and m.prog.funcs.get(fn[1]) is not None and m.prog.funcs[fn[1]].blocks:
        c.phase = 'child'
        try:
            c.call(m.prog.funcs[fn[1]], [cookie], loc)
            c.end = 'returned'
        except PathEnd as pe:
            c.end = pe.why
    else:
        c.end = 'no-body'
    return I(0)


def m_wait_unregister(m, name, args, loc):
    w = _obj_loc(m, args[0])
    m.note('call', name, args, loc, obj=w)
    if w not in m.reg:
        m.violation('%s(%s) on an interest that is not registered' % (name, show_loc(w)), loc)
    else:
        del m.reg[w]
    return None


def m_wait_kill(m, name, args, loc):
    w = _obj_loc(m, args[0])
    out = _outcome(m, 'kill', loc, ['delivered', 'gone'])
    m.note('signal', name, args, loc, obj=w, outcome=out, sig=args[1] if len(args) > 1 else None)
    if w not in m.reg:
        m.violation('child signalled through %s, which is not a registered interest (the pid may have been reaped and reused)' % show_loc(w), loc)
    return I(0) if out == 'delivered' else NEG


def m_raw_kill(m, name, args, loc):
    d = m.note('rawsignal', name, args, loc, held=tuple(m.locks))
    if m.on_kill is not None:
        return m.on_kill(d)
    return I(0)


def m_lock(m, name, args, loc):
    """lock / unlock of a mutex object (analyses.LOCK_FUNCS): the held set is kept by value of the lock argument, so a lock
    reached through a wrapper, an accessor function or a cached address is the same lock"""
    kind, ai = LOCK_FUNCS[name]
    lk = args[ai] if ai < len(args) else ('sym', 'no-lock')
    if kind.startswith('lock'):
        before = tuple(m.locks)
        m.locks.append(lk)
        m.note('lock', name, args, loc, obj=lk)
        if m.on_lock is not None:
            m.on_lock(lk, before, loc)
    else:
        m.note('unlock', name, args, loc, obj=lk)
        if lk in m.locks:
            m.locks.remove(lk)
        if m.on_unlock is not None:
            m.on_unlock(lk, loc)
    return None


def m_timer_init(m, name, args, loc):
    t = _obj_loc(m, args[0])
    if t in m.reg:
        m.violation('IV_TIMER_INIT of the registered timer %s' % show_loc(t), loc)
    m.write(t + (('f', 'index'),), I(-1), loc, quiet=True)
    m.note('call', name, args, loc, obj=t)
    return None


def m_timer_register(m, name, args, loc):
    t = _obj_loc(m, args[0])
    idx = m.read(t + (('f', 'index'),))
    d = m.note('timer-register', name, args, loc, obj=t, handler=m.read(t + (('f', 'handler'),)), cookie=m.read(t + (('f', 'cookie'),)),
               expires_set=m.covered(t + (('f', 'expires'),)))
    if t in m.reg:
        m.violation('timer %s registered while already registered' % show_loc(t), loc)
    elif not is_i(idx, -1):
        m.violation('timer %s registered without having been initialised (IV_TIMER_INIT)' % show_loc(t), loc)
    m.reg[t] = {'kind': 'timer', 'handler': d['handler'], 'cookie': d['cookie'], 'loc': loc}
    m.write(t + (('f', 'index'),), I(1), loc, quiet=True)
    return None


def m_timer_unregister(m, name, args, loc):
    t = _obj_loc(m, args[0])
    m.note('call', name, args, loc, obj=t)
    if t not in m.reg:
        m.violation('%s(%s) on a timer that is not registered' % (name, show_loc(t)), loc)
    else:
        del m.reg[t]
    m.write(t + (('f', 'index'),), I(-1), loc, quiet=True)
    return None


def m_timer_registered(m, name, args, loc):
    t = _obj_loc(m, args[0])
    return I(int(t in m.reg))


MODELLED = {
    'malloc': m_malloc, 'calloc': m_malloc, 'free': m_free,
    'pipe': m_pipe, 'pipe2': m_pipe, 'open': m_open, 'open64': m_open, 'dup2': m_dup2, 'dup3': m_dup2, 'close': m_close,
    'memset': m_memset, 'bzero': m_memset, 'memcpy': m_memcpy, 'memmove': m_memcpy, '__builtin_memcpy': m_memcpy, '__builtin_expect': m_expect,
    'strcmp': m_strcmp, 'strncmp': m_strcmp, 'strcasecmp': m_strcmp, 'strlen': m_strlen,
    'iv_wait_interest_register_spawn': m_spawn, 'iv_wait_interest_unregister': m_wait_unregister,
    'iv_wait_interest_kill': m_wait_kill, 'kill': m_raw_kill, 'killpg': m_raw_kill, 'tgkill': m_raw_kill, 'raise': m_raw_kill,
    'IV_TIMER_INIT': m_timer_init, 'iv_timer_register': m_timer_register, 'iv_timer_unregister': m_timer_unregister,
    'iv_timer_registered': m_timer_registered,
}
for _n in EXEC_CALLS:
    MODELLED[_n] = m_exec
for _n in LOCK_FUNCS:
    MODELLED[_n] = m_lock
for _n in ('execl', 'execlp', 'execle', 'fexecve'):
    MODELLED[_n] = m_exec


# ----------------------------------------------------------------------------
# driving the life cycle
# ----------------------------------------------------------------------------

def fire_timer(m):
    """the loop runs the (single) registered timer: it is unregistered first (C01: timers are one-shot)"""
    ts = [(loc, r) for loc, r in m.reg.items() if r['kind'] == 'timer']
    if len(ts) != 1:
        return None
    loc, r = ts[0]
    del m.reg[loc]
    m.write(loc + (('f', 'index'),), I(-1), None, quiet=True)
    h = r['handler']
    if h[0] != 'fn' or m.prog.funcs.get(h[1]) is None:
        m.violation('registered timer has no handler function (%s)' % show(h), r['loc'])
        return None
    m.call(m.prog.funcs[h[1]], [r['cookie']])
    return h[1]


def fire_wait(m, status):
    """the wait module delivers a status change of the child to the (single) registered interest"""
    ws = [(loc, r) for loc, r in m.reg.items() if r['kind'] == 'wait interest']
    if len(ws) != 1:
        return None
    loc, r = ws[0]
    h = r['handler']
    if h[0] != 'fn' or m.prog.funcs.get(h[1]) is None:
        m.violation('registered wait interest has no handler function (%s)' % show(h), r['loc'])
        return None
    m.call(m.prog.funcs[h[1]], [r['cookie'], I(status), ('sym', 'RUSAGE')])
    return h[1]


# ----------------------------------------------------------------------------
# the kill helper of the wait module, run against the reaper (R-C19f)
# ----------------------------------------------------------------------------

from . import h11 as _h11          # typed roles of the wait module: (record, field) of the flag word and of the pid

WAIT_OBJ = (('X', 'interest'),)          # the wait interest of the running child
WAIT_FLAGS = WAIT_OBJ + (('f', _h11.FLAGS[1]),)
WAIT_PID = WAIT_OBJ + (('f', _h11.PID[1]),)
CHILD_PID = ('sym', 'pid-of-the-child')


def set_lock_values(prog):
    """(h11 id, machine values) of the lock of the pid set.  The lock is found by role (h11.wait_lock: the lock the wait
    module holds at the operations on the interest tree, the reaper included); every acquisition of it in the roots of the
    unit (helpers inlined, cached addresses and accessor results resolved by the View) is evaluated to the address it
    designates, which is what the machine compares when a function takes a lock."""
    h11 = _h11
    lid = h11.wait_lock(prog)
    vals = set()
    if lid is None:
        return None, vals
    m = Machine(prog, Oracle([], None), ())
    for v in h11.views(prog):
        m.home = (v.root.file,)
        for e in v.g.events():
            if e['ev'] != 'call' or e.get('callee') not in LOCK_FUNCS or not h11.takes(e, lid):
                continue
            ai = LOCK_FUNCS[e['callee']][1]
            try:
                val = m.rvalue(v.origin(e['args'][ai]), 0)
            except AnalysisBroken:
                continue
            if isinstance(val, tuple) and val[0] == 'addr' and val[1][0][0] == 'G':
                vals.add(val)
    return lid, vals


class HelperRun:
    pass


def helper_runs(prog, f, flags0, deadvals, sig, setlocks):
    """All executions of f(&interest, sig), f a function of the wait module, against the adversary that matters for `no signal
    to a reaped pid`: the interest's flag word is `flags0` at entry, and whenever f acquires a lock while it holds none of
    `setlocks` (the lock of the pid set, under which the reaper marks) the reaper may have run in the meantime and stored
    one of `deadvals` into a flag word that was clear.  While the set's lock is held the flag cannot change.  Each raw
    kill() is logged with the locks held and the flag word at that moment."""
    def scenario(orc):
        r = HelperRun()
        m = r.m = Machine(prog, orc, (f.file,))
        m.mem[WAIT_FLAGS] = I(flags0)
        m.mem[WAIT_PID] = CHILD_PID
        r.flipped = False
        r.end = 'done'
        r.ret = None
        cnt = [0]

        def on_lock(lk, before, loc):
            if any(b in setlocks for b in before) or not is_i(m.mem.get(WAIT_FLAGS), 0):
                return
            cnt[0] += 1
            opts = ['child not reaped'] + ['child reaped meanwhile, flag word = %d' % d for d in deadvals]
            c = orc.choose(('reaper', loc, cnt[0]), opts)
            if c:
                m.mem[WAIT_FLAGS] = I(deadvals[c - 1])
                r.flipped = True

        def on_kill(d):
            d['flags'] = m.read(WAIT_FLAGS)
            d['locked'] = any(l in setlocks for l in m.locks)
            return I(0)
        m.on_lock, m.on_kill = on_lock, on_kill
        try:
            r.ret = m.call(f, [('addr', WAIT_OBJ), sig])
        except PathEnd as pe:
            r.end = pe.why
        return r
    out = []
    for trail, r in explore(scenario, None):
        r.trail = trail
        out.append(r)
    return out


# ----------------------------------------------------------------------------
# the spawn helper of the wait module, run against the reaper (R-C19g)
# ----------------------------------------------------------------------------

SPAWN_FN = ('sym', 'spawn-function')
SPAWN_COOKIE = ('sym', 'spawn-cookie')
NEW_PID = ('pos', 'pid-of-the-new-child')
BENIGN_IN_WAIT_MODULE = ('iv_signal_register', 'iv_event_register', 'iv_task_register', 'signal', 'sigaction')


def set_tree_values(prog):
    """machine values of the tree object(s) that are the pid set: the trees the reaper (the root that calls wait4/waitpid)
    deletes a reaped pid from, evaluated like the lock in set_lock_values.  Empty when none evaluates to a file-scope object."""
    h11 = _h11
    vals = set()
    m = Machine(prog, Oracle([], None), ())
    for v in h11.views(prog):
        evs = list(v.g.events())
        if not any(v.is_reap(e) for e in evs):
            continue
        m.home = (v.root.file,)
        for e in evs:
            if not v.is_delete(e):
                continue
            try:
                val = m.rvalue(v.origin(e['args'][0]), 0)
            except AnalysisBroken:
                continue
            if isinstance(val, tuple) and val[0] == 'addr' and val[1][0][0] == 'G':
                vals.add(val)
    return vals


class SpawnRun:
    pass


def _m_benign(m, name, args, loc):
    m.note('call', name, args, loc)
    return m.fresh(name)


def _m_list_init(m, name, args, loc):
    h = _obj_loc(m, args[0])
    m.write(h + (('f', 'next'),), ('addr', h), loc, quiet=True)
    m.write(h + (('f', 'prev'),), ('addr', h), loc, quiet=True)
    return None


def _m_list_empty(m, name, args, loc):
    h = _obj_loc(m, args[0])
    return m.binop('==', m.read(h + (('f', 'next'),)), ('addr', h))


def _m_list_add(m, name, args, loc):
    e, h = _obj_loc(m, args[0]), _obj_loc(m, args[1])
    m.write(h + (('f', 'next'),), ('addr', e), loc, quiet=True)
    m.write(h + (('f', 'prev'),), ('addr', e), loc, quiet=True)
    return None


# the list primitives as the core presents them (open-coded forms are fused into these calls, inside the header functions
# too, so they cannot be stepped into): only emptiness of a head is followed
LIST_ENV = {'INIT_IV_LIST_HEAD': _m_list_init, 'iv_list_empty': _m_list_empty, 'iv_list_add': _m_list_add, 'iv_list_add_tail': _m_list_add,
            'iv_list_del': _m_benign, 'iv_list_del_init': _m_benign, '__iv_list_steal_elements': _m_benign}


def spawn_runs(prog, f, setlocks, settrees, init=None):
    """All executions of f(&interest, fn, cookie), f the function of the wait module a child is spawned through, with fork()
    modelled (returns the new pid in the parent / 0 in the child / fails) against the adversary that matters for `the exit
    of the child is noticed`: from the moment fork() has returned in the parent the child may end, and the reaper (any
    thread's SIGCHLD handler, which works under the lock of the pid set) may run whenever that lock is not held; it
    finds the interest only if it is in the pid set under the child's pid.  Every moment at which the child exists, is not
    yet findable and the set's lock is not held is recorded as a gap (the lock state only changes at fork-time, at an
    unlock, so these are the moments looked at).  Insertions are logged with the pid the interest holds in memory at
    that moment (the tree is ordered by it), the tree, and whether the lock is held.

    `init` is what the caller has written into the interest before the call (location -> value); everything else in the
    interest is never-written memory (the record comes from malloc).  `exposed` records the first moment at which the
    reaper can find the interest (it is in the set and the set's lock is not held: the insertion itself when done without
    the lock, else the first release of the lock after it, else the return): whether the flag word has been written by
    then and what it holds; `late` lists what the helper does to the flag word after that moment."""
    def scenario(orc):
        r = SpawnRun()
        m = r.m = Machine(prog, orc, (f.file,))
        m.mem.update(init or {})
        r.outcome, r.fork, r.gaps, r.inserts, r.findable, r.end, r.ret = None, None, [], [], False, 'done', None
        r.exposed, r.late = None, []

        def expose(loc, how):
            if r.exposed is None and r.outcome == 'parent' and any(d['mine'] for d in r.inserts):
                r.exposed = {'loc': loc, 'how': how, 'written': m.covered(WAIT_FLAGS), 'flags': m.read(WAIT_FLAGS), 'logi': len(m.log)}

        def locked():
            return any(l in setlocks for l in m.locks)

        def m_fork(m_, name, args, loc):
            if r.fork is not None:
                raise AnalysisBroken('C19 machine: %s forks twice on one path' % f.name)
            out = _outcome(m, 'fork', loc, ['parent', 'child', 'fails'])
            r.outcome = out
            r.fork = m.note('fork', name, args, loc, outcome=out, locked=locked(), held=tuple(m.locks))
            if out == 'parent' and not locked():
                r.gaps.append({'loc': loc, 'what': 'fork() returns in the parent while the lock of the pid set is not held', 'held': tuple(m.locks)})
            return {'parent': NEW_PID, 'child': I(0), 'fails': I(-1)}[out]          # fork() fails with exactly -1

        def m_insert(m_, name, args, loc):
            node = args[1] if len(args) > 1 else None
            mine = isinstance(node, tuple) and node[0] == 'addr' and node[1][:len(WAIT_OBJ)] == WAIT_OBJ
            d = m.note('set-insert', name, args, loc, mine=mine, tree=args[0] if args else None, locked=locked(),
                       pid=m.mem.get(WAIT_PID), outcome=r.outcome)
            d['set'] = mine and (not settrees or d['tree'] in settrees)
            r.inserts.append(d)
            if d['set'] and r.outcome == 'parent' and d['pid'] == NEW_PID and d['locked']:
                r.findable = True
            if mine and not d['locked']:
                expose(loc, 'inserted into the pid set without the set\'s lock')
            return None

        def on_unlock(lk, loc):
            if r.outcome == 'parent' and not r.findable and lk in setlocks and not locked():
                r.gaps.append({'loc': loc, 'what': 'the lock of the pid set is released after fork() and before the interest is in the set under the child\'s pid',
                               'held': tuple(m.locks)})
            if lk in setlocks and not locked():
                expose(loc, 'the set\'s lock is released with the interest in the pid set')
        m.env = {'fork': m_fork, 'iv_avl_tree_insert': m_insert}
        for n in BENIGN_IN_WAIT_MODULE:
            m.env[n] = _m_benign
        m.env.update(LIST_ENV)
        m.on_unlock = on_unlock
        try:
            r.ret = m.call(f, [('addr', WAIT_OBJ), SPAWN_FN, SPAWN_COOKIE])
        except PathEnd as pe:
            r.end = pe.why
        r.locked_at_end = locked()
        expose(r.fork['loc'] if r.fork else None, 'the helper returns with the interest in the pid set')
        if r.exposed is not None:
            x = r.exposed
            for e in m.log[x['logi']:]:
                t = e.get('target')
                if e['kind'] == 'store' and t is not None and (t[:len(WAIT_FLAGS)] == WAIT_FLAGS or WAIT_FLAGS[:len(t)] == t):
                    r.late.append({'loc': e['loc'], 'what': 'stores %s into %s' % (show(e['args'][0]), e['name'])})
            now = m.read(WAIT_FLAGS)
            if not r.late and now != x['flags']:
                r.late.append({'loc': x['loc'], 'what': 'the flag word changes from %s to %s' % (show(x['flags']), show(now))})
        return r
    out = []
    for trail, r in explore(scenario, None):
        r.trail = trail
        out.append(r)
    return out



# ----------------------------------------------------------------------------
# the kill helper run on the interest as the spawn helper leaves it (R-C19h)
# ----------------------------------------------------------------------------

def unwritten_interest(v):
    """v depends on never-written content of the interest object"""
    return mentions(v, lambda x: x[0] == 'init' and isinstance(x[1], tuple) and x[1][:len(WAIT_OBJ)] == WAIT_OBJ)


def alive_runs(prog, killer, mem, sigs):
    """All executions of killer(&interest, sig) for each sig in turn on the memory a successful parent path of the spawn
    helper leaves (locals dropped), the child being alive throughout (no reaper).  Per run: per signal the raw kill()
    events, how the call ended, and the branches the state did not decide (a flag word nobody wrote is such a branch)."""
    mem0 = dict((k, v) for k, v in mem.items() if k[0][0] != 'L')

    def scenario(orc):
        r = HelperRun()
        m = r.m = Machine(prog, orc, (killer.file,))
        m.mem = dict(mem0)
        m.on_kill = lambda d: I(0)
        r.results = []
        for sg in sigs:
            n0 = len(m.log)
            end, ret = 'done', None
            try:
                ret = m.call(killer, [('addr', WAIT_OBJ), I(sg)])
            except PathEnd as pe:
                end = pe.why
            r.results.append({'sig': sg, 'end': end, 'ret': ret, 'kills': [e for e in m.log[n0:] if e['kind'] == 'rawsignal']})
        r.undecided = list(m.undecided)
        return r
    out = []
    for trail, r in explore(scenario, None):
        r.trail = trail
        out.append(r)
    return out
