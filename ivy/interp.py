"""Finite-domain abstract evaluation of small functions.

The function's own CFG (from the facts) is walked under an *assignment* that
decides every branch: orderings for compared key pairs, booleans for flag
tests / truth tests.  Integer locals are computed concretely from constants.
A branch the assignment does not decide raises AnalysisBroken ("the function
is no longer comparison-only").  No repository code is executed and no solver
is involved: this is abstract interpretation over a finite domain chosen per
rule.
"""
import itertools

from .core import AnalysisBroken, canon, strip, walk, SWAP

CMP = ('<', '>', '<=', '>=', '==', '!=')


class Undecided(Exception):
    pass


def cmp_holds(order, op):
    return {'<': order == '<', '>': order == '>', '<=': order in '<=', '>=': order in '>=',
            '==': order == '=', '!=': order != '='}[op]


class Assignment:
    """orders: {(lhs canon, rhs canon): '<'|'='|'>'} ; bools: {canon: bool}"""

    def __init__(self, orders=None, bools=None, ints=None):
        self.orders = orders or {}
        self.bools = bools or {}
        self.ints = ints or {}

    def order(self, l, r):
        if (l, r) in self.orders:
            return self.orders[(l, r)]
        if (r, l) in self.orders:
            return {'<': '>', '>': '<', '=': '='}[self.orders[(r, l)]]
        return None


def evaluate(e, asg, env):
    """Value of expression under assignment/env: int, or raises Undecided."""
    e0 = e
    if isinstance(e, dict) and e.get('k') == 'cast' and e.get('to') in ('signed char', 'char', 'int8_t'):
        v = evaluate(e['e'], asg, env) & 0xff
        return v - 256 if v >= 128 else v
    if isinstance(e, dict) and e.get('k') in ('load', 'stmtexpr') and 'e' in e:
        return evaluate(e['e'], asg, env)
    if isinstance(e, dict) and e.get('k') == 'cast':
        return evaluate(e['e'], asg, env)
    e = strip(e)
    if not isinstance(e, dict):
        raise Undecided(str(e0))
    k = e.get('k')
    c = canon(e)
    if k == 'int':
        return e['v']
    if k == 'null':
        return 0
    if c in asg.ints:
        return asg.ints[c]
    if k == 'var' and e['name'] in env:
        return env[e['name']]
    if c in asg.bools:
        return int(asg.bools[c])
    if k == 'un' and e['op'] == '!':
        return int(not evaluate(e['e'], asg, env))
    if k == 'un' and e['op'] == '-':
        return -evaluate(e['e'], asg, env)
    if k == 'un' and e['op'] == '~':
        return ~evaluate(e['e'], asg, env)
    if k == 'bin':
        op = e['op']
        if op in CMP:
            o = asg.order(canon(e['l']), canon(e['r']))
            if o is not None:
                return int(cmp_holds(o, op))
            a, b = evaluate(e['l'], asg, env), evaluate(e['r'], asg, env)
            return int(eval('%d %s %d' % (a, op, b)))
        if op == '&&':
            return int(bool(evaluate(e['l'], asg, env)) and bool(evaluate(e['r'], asg, env)))
        if op == '||':
            return int(bool(evaluate(e['l'], asg, env)) or bool(evaluate(e['r'], asg, env)))
        a, b = evaluate(e['l'], asg, env), evaluate(e['r'], asg, env)
        if op in ('+', '-', '*', '&', '|', '^', '<<', '>>'):
            return eval('%d %s %d' % (a, op, b))
        if op == '/':
            return a // b
        if op == '%':
            return a % b
    if k == 'cond':
        return evaluate(e['a'] if evaluate(e['c'], asg, env) else e['b'], asg, env)
    if k == 'addr':
        raise Undecided(c)
    raise Undecided(c)


def run(fn, asg, env=None, start=None, stop_block=None, max_steps=4000, on_event=None, call_model=None):
    """Walk fn's CFG deterministically.  Returns dict(ret=value canon or int,
    trace=[events], env=final locals, end='ret'|'exit'|'stop')."""
    env = dict(env or {})
    b = fn.entry if start is None else start
    trace = []
    steps = 0
    first = True
    while True:
        steps += 1
        if steps > max_steps:
            raise AnalysisBroken('%s: evaluation does not terminate under the abstract assignment' % fn.name)
        if stop_block is not None and b == stop_block and not first:
            return dict(ret=None, trace=trace, env=env, end='stop')
        first = False
        blk = fn.blocks[b]
        for e in blk.events:
            ev = e['ev']
            if ev == 'load':
                continue
            trace.append(e)
            if on_event:
                on_event(e, env)
            if ev == 'decl':
                if 'init' in e:
                    try:
                        env[e['name']] = evaluate(e['init'], asg, env)
                    except Undecided:
                        env.pop(e['name'], None)
            elif ev == 'store':
                l = strip(e['lhs'])
                if l.get('k') == 'var':
                    try:
                        if e['op'] == '=':
                            env[l['name']] = evaluate(e['rhs'], asg, env)
                        elif e['op'] in ('++', '--'):
                            env[l['name']] = env[l['name']] + (1 if e['op'] == '++' else -1)
                        else:
                            cur = env[l['name']]
                            v = evaluate(e['rhs'], asg, env)
                            env[l['name']] = eval('%d %s %d' % (cur, e['op'][:-1], v))
                    except (Undecided, KeyError):
                        env.pop(l['name'], None)
            elif ev == 'call' and call_model:
                call_model(e, env, asg)
            elif ev == 'ret':
                rv = None
                if 'value' in e:
                    try:
                        rv = evaluate(e['value'], asg, env)
                    except Undecided:
                        rv = canon(e['value'])
                return dict(ret=rv, trace=trace, env=env, end='ret')
        if blk.noreturn:
            return dict(ret=None, trace=trace, env=env, end='fatal')
        if not blk.succ:
            return dict(ret=None, trace=trace, env=env, end='exit')
        if len(blk.succ) == 1:
            b = blk.succ[0]
            continue
        if blk.term and blk.term.get('cls') == 'SwitchStmt':
            try:
                v = evaluate(blk.term['cond'], asg, env)
            except Undecided as u:
                raise AnalysisBroken('%s: switch on %s is not decided by the abstract state' % (fn.name, u))
            cases = blk.term.get('cases', [])
            nxt = None
            for i, cval in enumerate(cases):
                if cval == v:
                    nxt = blk.succ[i]
            if nxt is None:
                for i, cval in enumerate(cases):
                    if cval == 'default':
                        nxt = blk.succ[i]
            if nxt is None:
                raise AnalysisBroken('%s: switch has no arm for %s' % (fn.name, v))
            b = nxt
            continue
        c = blk.term.get('cond') if blk.term else None
        if c is None:
            raise AnalysisBroken('%s: branch without condition' % fn.name)
        try:
            v = evaluate(c, asg, env)
        except Undecided as u:
            raise AnalysisBroken('%s: branch on `%s` is not decided by the abstract state (sub-expression %s)'
                                 % (fn.name, canon(c), u))
        b = blk.succ[0] if v else blk.succ[1]
        if b is None:
            return dict(ret=None, trace=trace, env=env, end='exit')


def atoms_of(fn, blocks=None):
    """Comparison pairs and truth-tested expressions appearing in branch
    conditions (and conditional expressions) of fn."""
    pairs, bools = [], []

    def visit(c):
        c = strip(c)
        if not isinstance(c, dict):
            return
        k = c.get('k')
        if k == 'un' and c['op'] == '!':
            visit(c['e'])
        elif k == 'bin' and c['op'] in ('&&', '||'):
            visit(c['l'])
            visit(c['r'])
        elif k == 'bin' and c['op'] in CMP:
            l, r = canon(c['l']), canon(c['r'])
            if strip(c['l']).get('k') in ('int', 'null') or strip(c['r']).get('k') in ('int', 'null'):
                # comparison with a constant: the non-constant side is a value atom
                side = c['l'] if strip(c['r']).get('k') in ('int', 'null') else c['r']
                if canon(side) not in bools:
                    bools.append(canon(side))
                return
            if (l, r) not in pairs and (r, l) not in pairs:
                pairs.append((l, r))
        elif k == 'int':
            return
        elif k == 'cond':
            visit(c['c'])
            visit(c['a'])
            visit(c['b'])
        else:
            if canon(c) not in bools:
                bools.append(canon(c))
    for b, blk in fn.blocks.items():
        if blocks is not None and b not in blocks:
            continue
        if blk.term and blk.term.get('cond') is not None and len(blk.succ) >= 2:
            visit(blk.term['cond'])
    for e in fn.events():
        if blocks is not None and e['_b'] not in blocks:
            continue
        for key in ('value', 'rhs', 'init'):
            if key in e:
                for x in walk(e[key]):
                    if x.get('k') == 'cond':
                        visit(x['c'])
                    elif x.get('k') == 'bin' and x['op'] in CMP + ('&&', '||'):
                        visit(x)
                    elif x.get('k') == 'un' and x['op'] == '!':
                        visit(x)
    return pairs, bools


def all_assignments(pairs, bools):
    for os_ in itertools.product('<=>', repeat=len(pairs)):
        for bs in itertools.product((False, True), repeat=len(bools)):
            yield Assignment(dict(zip(pairs, os_)), dict(zip(bools, bs)))
