#!/usr/bin/env python3
"""Re-runs the own-property rules on every kept seeded change (scratch copies, never /repo) and records what
reports it now in seeded/*/meta.json ('caught_by', 'caught'); 'first_pass' is left as first recorded."""
import json, os, sys
from concurrent.futures import ProcessPoolExecutor
HERE = os.path.dirname(os.path.dirname(os.path.abspath(__file__)))
sys.path.insert(0, HERE); sys.path.insert(0, os.path.join(HERE, 'tools'))
import selftest

def main():
    ms = [m for m in selftest.load_corpus() if m['id'].startswith('sd-')]
    bad = 0
    with ProcessPoolExecutor(max_workers=int(os.environ.get('JOBS', '12'))) as ex:
        for mid, status, err, out in ex.map(selftest.run_one, ms):
            name = mid[3:]
            mp = os.path.join(HERE, 'seeded', name, 'meta.json')
            meta = json.load(open(mp)) if os.path.exists(mp) else {'id': name, 'property': name.split('-')[0]}
            if 'first_pass' not in meta:
                meta['first_pass'] = 'reported' if meta.get('caught') else 'missed'
            pid = meta['property']
            failed = [o.split(': ', 1)[1] for o in out if o.startswith(pid + ': R-')]
            meta['caught_by'] = {pid: {'exit': 1 if status == 'KILLED' else (2 if status == 'BROKEN' else 0), 'failed': failed[:8], 'broken': []}} if status != 'SURVIVED' else {}
            meta['caught'] = status == 'KILLED'
            json.dump(meta, open(mp, 'w'), indent=1)
            print(mid, status)
            bad += status != 'KILLED'
    print('%d seeded changes, %d not reported by their own property' % (len(ms), bad))
    return 1 if bad else 0

if __name__ == '__main__':
    sys.exit(main())
