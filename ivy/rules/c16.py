"""C16 — the AVL tree stays a correct balanced ordered set.

The global invariant over arbitrary histories is not decided (no frama-c).
Claimed: rotations by shape interpretation, one-step rebalance for all height
configurations, pairing/purity/rebalance-start structure of insert and delete.
"""
import itertools
from ..core import (names_of, same_value, AnalysisBroken, canon, strip, last_member, must_pass, relpath, norm_cond, walk, forward, lvalue_root)
from ..analyses import (is_call, holding, path_to, describe, exits_of, loops, innermost_loop, must_pass_from_block)
from ..heap import Heap, Interp, Stuck, NULL
from .c11 import null_rule

# documented pre-shapes (header comment of iv_avl.c): capital = present, lower case = maybe NULL
SHAPES = {
    'rotate_left': ('B', {'B': ('a', 'D'), 'D': ('c', 'e')}, 'D'),
    'rotate_right': ('D', {'D': ('B', 'e'), 'B': ('a', 'c')}, 'B'),
    'rotate_left_right': ('F', {'F': ('B', 'g'), 'B': ('a', 'D'), 'D': ('c', 'e')}, 'D'),
    'rotate_right_left': ('B', {'B': ('a', 'F'), 'F': ('D', 'g'), 'D': ('c', 'e')}, 'D'),
}
HRANGE = (0, 1, 2, 3)


def build(shape, hts, parent_present):
    """Heap for a shape with opaque subtree heights hts (0 = NULL)."""
    root, inner, _ = shape
    H = Heap()
    leaves = sorted({x for ch in inner.values() for x in ch if x not in inner})
    def ref(x):
        if x in inner:
            return x
        return x if hts[x] > 0 else NULL
    # heights bottom-up
    hh = {}
    def height(x):
        if x is NULL:
            return 0
        if x in hh:
            return hh[x]
        if x in inner:
            l, r = inner[x]
            hh[x] = 1 + max(height(ref(l)), height(ref(r)))
        else:
            hh[x] = hts[x]
        return hh[x]
    P = 'P' if parent_present else NULL
    for x in inner:
        l, r = inner[x]
        H.node(x, left=ref(l), right=ref(r), parent=NULL, height=height(x))
    for x in leaves:
        if hts[x] > 0:
            H.node(x, left='?', right='?', parent=NULL, height=hts[x])
    for x in inner:
        for c in inner[x]:
            if ref(c) is not NULL:
                H.nodes[ref(c)]['parent'] = x
    H.nodes[root]['parent'] = P
    if P:
        H.node('P', left=root, right=NULL, parent=NULL, height=height(root) + 1)
    H.cells['slot'] = root
    return H, leaves


def inorder(H, x, opaque, seen=None):
    seen = seen if seen is not None else set()
    if x is NULL:
        return []
    if x in seen:
        raise Stuck('cycle through %s' % x)
    seen.add(x)
    if x in opaque:
        return [x]
    n = H.nodes[x]
    return inorder(H, n['left'], opaque, seen) + [x] + inorder(H, n['right'], opaque, seen)


def check_subtree(H, x, opaque, parent, problems, balanced=True):
    """parents consistent, recorded heights exact, |balance| <= 1; returns height."""
    if x is NULL:
        return 0
    n = H.nodes[x]
    if n['parent'] != parent:
        problems.append('%s->parent is %s, should be %s' % (x, n['parent'], parent))
    if x in opaque:
        return n['height']
    hl = check_subtree(H, n['left'], opaque, x, problems, balanced)
    hr = check_subtree(H, n['right'], opaque, x, problems, balanced)
    if n['height'] != 1 + max(hl, hr):
        problems.append('%s->height recorded %d, actual %d' % (x, n['height'], 1 + max(hl, hr)))
    if balanced and abs(hr - hl) > 1:
        problems.append('%s unbalanced (%d)' % (x, hr - hl))
    return 1 + max(hl, hr)


def run(ctx):
    ctx.rule('R-C16a', 'rotations by shape interpretation: for every NULL/height configuration of the documented pre-shape the in-order '
                       'sequence is unchanged, child->parent links are consistent, the new root inherits the old root\'s parent, recorded '
                       'heights are exact and the root slot holds the documented new root', floor=4)
    ctx.rule('R-C16b', 'child/parent pairing in insert and delete: a node linked under a parent gets that parent; the victim inherits '
                       'left, right, parent and height of the removed node and its new children point back to it', floor=8)
    ctx.rule('R-C16c', 'duplicate insert changes nothing: no store through a pointer on any path that returns failure', floor=1)
    ctx.rule('R-C16d', 'rebalancing starts at the lowest changed node and walks to the root: recomputes the height before testing balance, '
                       'stops early only on the unchanged-height edge', floor=5)
    ctx.rule('R-C16e', 'one rebalance step restores balance: for every AVL-valid configuration around a node with balance in -2..2 the step '
                       'yields balanced named nodes with exact heights, unchanged order and consistent parents', floor=1)
    ctx.rule('R-C16g', 'NULL-CONTRADICTION in iv_avl.c', floor=3)
    ctx.rule('R-C16f', 'traversal: for every binary-tree shape of up to 6 nodes and every node, next / prev return the in-order neighbour '
                       '(NULL at the ends) and min / max the extremes (shape interpretation of the traversal functions)', floor=4)
    ctx.section(traversal)
    ctx.section(rotations)
    ctx.section(rebalance_step)
    ctx.section(pairing)
    ctx.section(duplicate)
    ctx.section(path)
    ctx.section(lambda c: null_rule(c, 'R-C16g', ('iv_avl.c',)))


def rotations(ctx):
    prog = ctx.prog
    for fn, shape in sorted(SHAPES.items()):
        f = prog.fn(fn)
        root, inner, newroot = shape
        leaves = sorted({x for ch in inner.values() for x in ch if x not in inner})
        cases, bad = 0, []
        for hv in itertools.product(HRANGE, repeat=len(leaves)):
            for pp in (False, True):
                hts = dict(zip(leaves, hv))
                H, _ = build(shape, hts, pp)
                opaque = {x for x in leaves if hts[x] > 0} | ({'P'} if pp else set())
                before = inorder(H, root, opaque)
                it = Interp(prog, H, opaque=opaque - {'P'})
                cases += 1
                try:
                    it.call(fn, [('cellref', 'slot')])
                    nr = H.cells['slot']
                    problems = []
                    if nr != newroot:
                        problems.append('root slot holds %s, documented new root is %s' % (nr, newroot))
                    after = inorder(H, nr, opaque)
                    if after != before:
                        problems.append('in-order sequence %s became %s' % (before, after))
                    check_subtree(H, nr, opaque, 'P' if pp else NULL, problems, balanced=False)
                except Stuck as s:
                    problems = ['interpretation stuck: %s' % s]
                if problems:
                    bad.append((hts, pp, problems))
        ctx.ob('R-C16a', fn, not bad, loc=f.loc,
               detail=('%d configurations; first failure heights=%s parent=%s: %s' % (cases, bad[0][0], bad[0][1], '; '.join(bad[0][2][:3]))) if bad else
                      '%d configurations of subtree heights / NULL-ness / parent presence: order, parent links, heights and root slot all as documented' % cases,
               fn=f.q)


def rebalance_step(ctx):
    prog = ctx.prog
    f = prog.fn('rebalance_node')
    # X( L( ll, LR(lrl, lrr) ), R( RL(rll, rlr), rr ) ) ; L, R, LR, RL may be absent
    leaves = ['ll', 'lrl', 'lrr', 'rll', 'rlr', 'rr']
    cases, bad, rot = 0, [], {}
    for hv in itertools.product(HRANGE, repeat=6):
        hts = dict(zip(leaves, hv))
        for hasLR, hasRL in itertools.product((False, True), repeat=2):
            for hasL, hasR in itertools.product((False, True), repeat=2):
                if not hasLR and (hts['lrl'] or hts['lrr']):
                    continue
                if not hasRL and (hts['rll'] or hts['rlr']):
                    continue
                if not hasL and (hasLR or hts['ll']):
                    continue
                if not hasR and (hasRL or hts['rr']):
                    continue
                H = Heap()
                def leaf(n_):
                    if hts[n_] > 0:
                        H.node(n_, left='?', right='?', parent=NULL, height=hts[n_])
                        return n_
                    return NULL
                def mk(name, l, r):
                    hl = H.nodes[l]['height'] if l else 0
                    hr = H.nodes[r]['height'] if r else 0
                    H.node(name, left=l, right=r, parent=NULL, height=1 + max(hl, hr))
                    for c in (l, r):
                        if c:
                            H.nodes[c]['parent'] = name
                    return name, hr - hl
                ok_avl = True
                lr = rl = NULL
                if hasLR:
                    lr, b = mk('LR', leaf('lrl'), leaf('lrr'))
                    ok_avl &= abs(b) <= 1
                if hasRL:
                    rl, b = mk('RL', leaf('rll'), leaf('rlr'))
                    ok_avl &= abs(b) <= 1
                L = R = NULL
                if hasL:
                    L, b = mk('L', leaf('ll'), lr)
                    ok_avl &= abs(b) <= 1
                if hasR:
                    R, b = mk('R', rl, leaf('rr'))
                    ok_avl &= abs(b) <= 1
                X, bx = mk('X', L, R)
                if not ok_avl or abs(bx) > 2:
                    continue
                # the recorded height of X may be stale by design? no: rebalance_path recalculates it first
                H.node('P', left='X', right=NULL, parent=NULL, height=H.nodes['X']['height'] + 1)
                H.nodes['X']['parent'] = 'P'
                H.cells['slot'] = 'X'
                opaque = {x for x in leaves if hts[x] > 0} | {'P'}
                before = inorder(H, 'X', opaque)
                it = Interp(prog, H, opaque=opaque - {'P'})
                cases += 1
                try:
                    it.call('rebalance_node', [('cellref', 'slot')])
                    calls = [c[1] for c in it.log if c[0] == 'call' and c[1].startswith('rotate')]
                    rot[(bx, tuple(calls))] = rot.get((bx, tuple(calls)), 0) + 1
                    nr = H.cells['slot']
                    problems = []
                    after = inorder(H, nr, opaque)
                    if after != before:
                        problems.append('in-order %s -> %s' % (before, after))
                    check_subtree(H, nr, opaque, 'P', problems, balanced=True)
                    if abs(bx) < 2 and calls:
                        problems.append('rotation %s on a node with balance %d' % (calls, bx))
                except Stuck as s:
                    problems = ['stuck: %s' % s]
                if problems:
                    bad.append((dict(hts), (hasL, hasLR, hasR, hasRL), bx, problems))
    if cases < 100:
        raise AnalysisBroken('rebalance step: only %d configurations generated' % cases)
    ctx.ob('R-C16e', 'rebalance_node', not bad, loc=f.loc,
           detail=('%d AVL-valid configurations; first failure %s shape=%s balance=%d: %s' % (cases, bad[0][0], bad[0][1], bad[0][2], '; '.join(bad[0][3][:3]))) if bad else
                  '%d AVL-valid configurations (balance -2..2): balanced, exact heights, order and parents preserved; rotations chosen: %s'
                  % (cases, sorted('%+d:%s' % (k[0], '+'.join(k[1]) or 'none') for k in rot)),
           fn=f.q)


def pairing(ctx):
    prog = ctx.prog
    ins = prog.fn('iv_avl_tree_insert')
    link = [e for e in ins.events() if e['ev'] == 'store' and strip(e['lhs']).get('k') == 'deref' and canon(e.get('rhs')) == ins.params[1]['name']]
    if not link:
        raise AnalysisBroken('insert: link of the new node not found')
    an = ins.params[1]['name']
    for fld, want in (('parent', None), ('left', 'NULL'), ('right', 'NULL'), ('height', '1')):
        mp = must_pass(ins, lambda e, fld=fld, want=want: e['ev'] == 'store' and last_member(e['lhs']) == ('iv_avl_node', fld)
                       and canon(strip(e['lhs'])['base']) == an and (want is None or canon(e.get('rhs')) in (want, '0' if want == 'NULL' else want)))
        ctx.ob('R-C16b', 'insert:new-node-%s' % fld, all(mp.get((e['_b'], e['_i'])) for e in link), loc=link[0]['loc'],
               detail='%s->%s is initialised before the node is linked into the tree' % (an, fld), fn=ins.q)
    # the parent stored is the node whose child slot is written
    ps = [e for e in ins.events() if e['ev'] == 'store' and last_member(e['lhs']) == ('iv_avl_node', 'parent') and canon(strip(e['lhs'])['base']) == an]
    slotv = canon(strip(link[0]['lhs'])['e'])
    pv = canon(ps[0]['rhs']) if ps else None
    okp = pv is not None
    for e in ins.events():
        if e['ev'] == 'store' and canon(e['lhs']) == slotv and strip(e.get('rhs', {})).get('k') == 'addr':
            tgt = strip(strip(e['rhs'])['e'])
            if tgt.get('k') == 'member' and tgt['field'] in ('left', 'right'):
                okp = okp and canon(tgt['base']) == pv
    ctx.ob('R-C16b', 'insert:slot-belongs-to-stored-parent', okp, loc=link[0]['loc'],
           detail='the child slot written (%s) is a field of the node stored as parent (%s)' % (slotv, pv), fn=ins.q)
    d = prog.fn('iv_avl_tree_delete_nonleaf')
    an = d.params[1]['name']
    for fld in ('left', 'right', 'parent', 'height'):
        st = [e for e in d.events() if e['ev'] == 'store' and canon(e['lhs']) == 'victim->%s' % fld and canon(e.get('rhs')) == '%s->%s' % (an, fld)]
        mp = must_pass(d, lambda e: e in st)
        ok = bool(st) and all(mp.get((pb, pi)) for (pb, pi, _) in exits_of(d))
        ctx.ob('R-C16b', 'delete:victim-inherits-%s' % fld, ok, loc=st[0]['loc'] if st else d.loc,
               detail='victim->%s = %s->%s on every path' % (fld, an, fld), fn=d.q)
    hd = holding(d)
    for fld in ('left', 'right'):
        st = [e for e in d.events() if e['ev'] == 'store' and canon(e['lhs']) == 'victim->%s->parent' % fld and canon(e.get('rhs')) == 'victim']
        ok = bool(st)
        for e in st:
            A = hd.get((e['_b'], e['_i']), frozenset())
            ok = ok and any(a[0] == '!=' and a[1] == 'victim->%s' % fld and a[2] == '0' for a in A)
        # and on the non-NULL edge it is always done
        okm = False
        for b, blk in d.blocks.items():
            if blk.term and blk.term.get('cond') is not None and len(blk.succ) == 2:
                for si in (0, 1):
                    for (op, lc, rc, l, r) in norm_cond(blk.term['cond'], si == 0):
                        if op == '!=' and rc == '0' and lc == 'victim->%s' % fld and any(e['_b'] == blk.succ[si] for e in st):
                            okm = True
        ctx.ob('R-C16b', 'delete:new-%s-child-points-back' % fld, ok and okm, loc=st[0]['loc'] if st else d.loc,
               detail='victim->%s->parent = victim under the non-NULL guard' % fld, fn=d.q)
    # splice-out of the victim: its only child takes its place and is re-parented
    rr = [e for e in d.events() if is_call(e, 'replace_reference') and canon(e['args'][1]) == 'victim']
    ok = len(rr) == 2
    for e in rr:
        child = canon(e['args'][2])
        mp = must_pass(d, lambda x, child=child: x['ev'] == 'store' and canon(x['lhs']) == '%s->parent' % child and canon(x.get('rhs')) == 'victim->parent', start_event=e)
        # guarded: either the store or the NULL edge of the child
        def tr(x, s_, child=child, e=e):
            if x is e:
                return False
            if s_ is None:
                return None
            if x['ev'] == 'store' and canon(x['lhs']) == '%s->parent' % child and canon(x.get('rhs')) == 'victim->parent':
                return True
            return s_
        def edge(blk, si, s_, child=child):
            if s_ is False and blk.term and blk.term.get('cond') is not None and len(blk.succ) == 2:
                for (op, lc, rc, l, r) in norm_cond(blk.term['cond'], si == 0):
                    if op == '==' and lc == child and rc == '0':
                        return True
            return s_
        def jn(a, b):
            if a is None:
                return b
            if b is None:
                return a
            return a and b
        _, ev_in = forward(d, None, tr, jn, edge=edge, start=e['_b'])
        ok = ok and all(ev_in.get((pb, pi)) is not False for (pb, pi, _) in exits_of(d))
    ctx.ob('R-C16b', 'delete:victim-spliced-out', ok, loc=rr[0]['loc'] if rr else d.loc,
           detail='the victim is replaced by its only child, which (if present) is re-parented to the victim\'s parent', fn=d.q)
    # the start node for rebalancing: victim's original parent, or the victim when that parent is the removed node
    hdp = holding(d)
    fix = [e for e in d.events() if e['ev'] == 'store' and canon(e['lhs']) == 'p' and canon(e.get('rhs')) == 'victim']
    okf = bool(fix) and all(any(a[0] == '==' and {a[1], a[2]} == {'p', an} for a in hdp.get((e['_b'], e['_i']), frozenset())) for e in fix)
    p0 = [e for e in d.events() if e['ev'] == 'store' and canon(e['lhs']) == 'p' and canon(e.get('rhs')) == 'victim->parent']
    mpv = must_pass(d, lambda e: e in rr)
    okf = okf and bool(p0) and all(mpv.get((e['_b'], e['_i'])) for e in p0)
    ctx.ob('R-C16b', 'delete:rebalance-start', okf, loc=p0[0]['loc'] if p0 else d.loc,
           detail='rebalancing starts at the victim\'s original parent, or at the victim itself when that parent is the node being removed', fn=d.q)


def duplicate(ctx):
    prog = ctx.prog
    f = prog.fn('iv_avl_tree_insert')
    def tr(e, s):
        if e['ev'] == 'store':
            l = strip(e['lhs'])
            if l.get('k') != 'var':
                return True
        if e['ev'] == 'call' and e.get('callee') and prog.has_fn(e['callee']):
            return True       # helpers may write
        return s
    _, ev_in = forward(f, False, tr, lambda a, b: a or b)
    fails = [(pb, pi, e) for (pb, pi, e) in exits_of(f) if strip(e.get('value', {})).get('k') == 'int' and strip(e['value'])['v'] != 0]
    if not fails:
        raise AnalysisBroken('insert: failing return not found')
    for (pb, pi, e) in fails:
        ctx.ob('R-C16c', 'insert:duplicate-is-pure', ev_in.get((pb, pi)) is False, loc=e['loc'],
               detail='no store through a pointer and no helper call on any path to the failing return', fn=f.q)
    # decision table of one descent step over the comparator's sign
    from .. import interp
    from ..analyses import loops as _loops
    lps = _loops(f)
    if len(lps) != 1:
        raise AnalysisBroken('insert: expected one descent loop')
    h = list(lps)[0]
    cmpv = None
    for e in f.events():
        if e['ev'] == 'store' and 'rhs' in e and strip(e['rhs']).get('k') == 'call' and last_member(strip(e['rhs']).get('fnexpr')) == ('iv_avl_tree', 'compare'):
            cmpv = canon(e['lhs'])
    if cmpv is None:
        raise AnalysisBroken('insert: comparator call not found')
    for sgn, val in (('<', -1), ('=', 0), ('>', 1)):
        class A_(interp.Assignment):
            pass
        asg = interp.Assignment(bools={'*pp': True}, ints={cmpv: val})
        trace_stores = []
        def cm(e, env, a, val=val):
            pass
        # run one iteration with the comparator result forced
        def on(e, env, val=val):
            if e['ev'] == 'store' and canon(e['lhs']) == cmpv:
                env[cmpv] = val
        try:
            res = interp.run(f, asg, start=h, stop_block=h, on_event=on)
            stores = [(canon(e['lhs']), canon(e['rhs'])) for e in res['trace'] if e['ev'] == 'store' and 'rhs' in e and canon(e['lhs']) != cmpv]
            went = [r for (l, r) in stores if r.endswith('->left') or r.endswith('->right')]
            if sgn == '=':
                ok = res['end'] == 'ret' and isinstance(res['ret'], int) and res['ret'] != 0
                exp = 'returns failure at once'
            else:
                side = '->left' if sgn == '<' else '->right'
                ok = res['end'] == 'stop' and len(went) == 1 and went[0].endswith(side)
                exp = 'descends %s' % side[2:]
            det = 'compare %s 0: %s, ended %s ret=%s; expected: %s' % (sgn, went, res['end'], res['ret'], exp)
        except AnalysisBroken as ex:
            ok, det = False, str(ex)
        ctx.ob('R-C16c', 'insert:descent(compare%s0)' % sgn, ok, loc=f.loc, detail=det, fn=f.q)
    hd = holding(f)
    for (pb, pi, e) in fails:
        A = hd.get((pb, pi), frozenset())
        ctx.ob('R-C16c', 'insert:fails-only-on-equal-key', any(a[0] == '==' and a[2] == '0' and all(k[0] == 'var' for k in a[3]) for a in A)
               or any(a[0] in ('>=', '<=') and a[2] == '0' for a in A), loc=e['loc'],
               detail='failure is returned only when the comparator reported equality', fn=f.q)


def path(ctx):
    prog = ctx.prog
    f = prog.fn('rebalance_path')
    lps = loops(f)
    if len(lps) != 1:
        raise AnalysisBroken('rebalance_path: expected one loop')
    h = list(lps)[0]
    rb = [e for e in f.events() if is_call(e, 'rebalance_node')]
    rc = [e for e in f.events() if is_call(e, 'recalc_height')]
    if not rb or not rc:
        raise AnalysisBroken('rebalance_path: steps not found')
    def tr(e, s):
        return True if e in rc else s
    def edge(blk, si, s):
        return False if blk.succ[si] == h else s
    _, ev_in = forward(f, False, tr, lambda a, b: a and b, edge=edge)
    ctx.ob('R-C16d', 'path:height-recomputed-before-balance-test', all(ev_in.get((e['_b'], e['_i'])) for e in rb), loc=rb[0]['loc'],
           detail='recalc_height(an) precedes rebalance_node in every iteration', fn=f.q)
    # early exit only on the equal-height edge; otherwise continue with the parent
    exits = [(b, si) for b in lps[h] for si, s in enumerate(f.blocks[b].succ) if s is not None and s not in lps[h]]
    ok = True
    kinds = []
    for (b, si) in exits:
        blk = f.blocks[b]
        atoms = norm_cond(blk.term['cond'], si == 0) if blk.term and blk.term.get('cond') is not None else []
        k = None
        for (op, lc, rc_, l, r) in atoms:
            if op == '==' and {lc, rc_} >= {'old_height'} and ('->height' in lc or '->height' in rc_):
                k = 'unchanged-height'
            if op == '==' and rc_ == '0' and lc == f.params[1]['name']:
                k = 'reached-root'
        kinds.append(k)
        if k is None:
            ok = False
    ctx.ob('R-C16d', 'path:exits', ok and 'reached-root' in kinds, loc=f.loc,
           detail='the walk ends only at the root or where the subtree height is unchanged: %s' % kinds, fn=f.q)
    up = [e for e in f.events() if e['ev'] == 'store' and canon(e['lhs']) == f.params[1]['name'] and canon(e.get('rhs')).endswith('->parent')]
    ctx.ob('R-C16d', 'path:moves-to-parent', bool(up), loc=up[0]['loc'] if up else f.loc, detail='the walk continues with an->parent', fn=f.q)
    oh = [e for e in f.events() if e['ev'] == 'store' and canon(e['lhs']) == 'old_height']
    mpo = must_pass(f, lambda e: e in rc)
    ctx.ob('R-C16d', 'path:old-height-sampled-before-recalc', bool(oh) and all(not _before(f, rc, e, h) for e in oh), loc=oh[0]['loc'] if oh else f.loc,
           detail='old_height is read before the height is recomputed in the iteration', fn=f.q)
    ins = prog.fn('iv_avl_tree_insert')
    an = ins.params[1]['name']
    ps = [e for e in ins.events() if e['ev'] == 'store' and last_member(e['lhs']) == ('iv_avl_node', 'parent') and canon(strip(e['lhs'])['base']) == an]
    calls = [e for e in ins.events() if is_call(e, 'rebalance_path')]
    ctx.ob('R-C16d', 'insert:rebalance-from-parent', bool(calls) and bool(ps) and all(canon(e['args'][1]) == canon(ps[0]['rhs']) for e in calls)
           and all(must_pass(ins, lambda x: x in calls).get((pb, pi)) for (pb, pi, e) in exits_of(ins) if canon(e.get('value')) == '0'), loc=calls[0]['loc'] if calls else ins.loc,
           detail='insert rebalances from the new node\'s parent on every success path', fn=ins.q)
    d = prog.fn('iv_avl_tree_delete')
    calls = [e for e in d.events() if is_call(e, 'rebalance_path')]
    pv = canon(calls[0]['args'][1]) if calls else None
    defs = [e for e in d.events() if e['ev'] == 'store' and canon(e['lhs']) == pv]
    okd = bool(calls) and bool(defs) and all(strip(e['rhs']).get('k') == 'call' and strip(e['rhs']).get('callee') in ('iv_avl_tree_delete_leaf', 'iv_avl_tree_delete_nonleaf') for e in defs) \
        and bool(must_pass(d, lambda x: x in calls).get((d.exit, 0)))
    ctx.ob('R-C16d', 'delete:rebalance-from-helper-result', okd, loc=calls[0]['loc'] if calls else d.loc,
           detail='delete rebalances from the node its helper designates, on every path', fn=d.q)
    lf = prog.fn('iv_avl_tree_delete_leaf')
    rets = [e for (pb, pi, e) in exits_of(lf)]
    ctx.ob('R-C16d', 'delete-leaf:start-at-parent', bool(rets) and all(canon(e.get('value')).endswith('->parent') for e in rets), loc=lf.loc,
           detail='leaf removal rebalances from the removed node\'s parent', fn=lf.q)


def _before(f, rc, e, h):
    """some recalc precedes e within the iteration"""
    def tr(x, s):
        return True if x in rc else s
    def edge(blk, si, s):
        return False if blk.succ[si] == h else s
    _, ev_in = forward(f, False, tr, lambda a, b: a or b, edge=edge)
    return bool(ev_in.get((e['_b'], e['_i'])))


def _shapes(n):
    """all binary tree shapes with n nodes as nested tuples (left, right)"""
    if n == 0:
        return [None]
    out = []
    for l in range(n):
        for a in _shapes(l):
            for b in _shapes(n - 1 - l):
                out.append((a, b))
    return out


def traversal(ctx, maxn=6):
    prog = ctx.prog
    fns = {'next': 'iv_avl_tree_next', 'prev': 'iv_avl_tree_prev', 'min': 'iv_avl_tree_min', 'max': 'iv_avl_tree_max'}
    bad = {k: [] for k in fns}
    cases = {k: 0 for k in fns}
    for n in range(0, maxn + 1):
        for shape in _shapes(n):
            H = Heap()
            order = []
            def build(t, parent):
                if t is None:
                    return NULL
                me = 'n%d' % len(H.nodes)
                H.node(me, left=NULL, right=NULL, parent=parent, height=1)
                l = build(t[0], me)
                order.append(me)
                r = build(t[1], me)
                H.nodes[me]['left'], H.nodes[me]['right'] = l, r
                return me
            root = build(shape, NULL)
            H.node('T', root=root, compare=NULL)
            for which in ('min', 'max'):
                cases[which] += 1
                try:
                    got = Interp(prog, H).call(fns[which], ['T'])
                except Stuck as s_:
                    got = 'stuck: %s' % s_
                want = (order[0] if which == 'min' else order[-1]) if order else NULL
                if got != want:
                    bad[which].append((shape, got, want))
            for i, nd in enumerate(order):
                for which, want in (('next', order[i + 1] if i + 1 < len(order) else NULL), ('prev', order[i - 1] if i > 0 else NULL)):
                    cases[which] += 1
                    try:
                        got = Interp(prog, H).call(fns[which], [nd])
                    except Stuck as s_:
                        got = 'stuck: %s' % s_
                    if got != want:
                        bad[which].append((shape, 'node #%d -> %s' % (i, got), want))
    for which in ('next', 'prev', 'min', 'max'):
        f = prog.fn(fns[which])
        b = bad[which]
        ctx.ob('R-C16f', fns[which], not b, loc=f.loc,
               detail=('%d cases; first failure: shape %s: %s, expected %s' % (cases[which], b[0][0], b[0][1], b[0][2])) if b else
                      '%d (shape, node) cases up to %d nodes: every result is the in-order neighbour / extreme' % (cases[which], maxn), fn=f.q)
