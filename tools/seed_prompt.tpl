You have a scratch git worktree of the C event-loop library ivykis (buytenh/ivykis) at /tmp/seed/@ID@ (already configured and built: `make -s` rebuilds, `make -s -C test check` runs the 11 pinned tests, the static library is src/.libs/libivykis.a, public headers are in src/include). Work ONLY inside /tmp/seed/@ID@ and /tmp/seed/@ID@-out. Do not read or touch /verif or /repo. NEVER use `git stash`, never commit. You have about 12 minutes of wall-clock time: be quick and decisive, pick a simple idea.

Here is a semantic property the library is supposed to guarantee (file /tmp/seed/prop_@ID@.txt):

@PROP@

Task: make ONE small, realistic source change to the library (under src/) — the kind of slip a maintainer could make in a refactoring or "optimisation" — that BREAKS this property, while the library still compiles without new warnings and all 11 pinned tests (`make -s -C test check`) still pass. The breakage must need something specific to manifest (a particular interleaving, a fault at a particular point, a multi-step sequence of operations, an unusual input, or two cooperating sites that each look fine alone) — not something ordinary use would expose at once. Do not add comments that announce the bug. Prefer a change different in kind from the obvious "delete one line" in the most central function: e.g. a condition that is subtly too strong/weak, a reordering, a wrong-but-plausible field/variable, a missed case in a less-travelled path (a non-default poll method selected with IV_EXCLUDE_POLL_METHOD, an error path, a fallback).

Deliver in /tmp/seed/@ID@-out/ (create it):
 - patch.diff : `git diff` of your change (from /tmp/seed/@ID@, applies with `git apply` at the worktree root)
 - demo.c     : a small deterministic program using the public API that exits non-zero (property broken) with the change and exits 0 without it
 - run.sh     : POSIX sh script, run with cwd=/tmp/seed/@ID@-out, which compiles demo.c against /tmp/seed/@ID@/src/include and /tmp/seed/@ID@/src/.libs/libivykis.a (-lpthread) and runs it (with timeout), exit 0 = property held, non-zero = broken
 - notes.md   : a section headed "## What it needs to manifest" explaining the specific circumstances, plus one paragraph on what you changed and why tests do not see it.

Before finishing verify yourself: with the change applied and `make -s` done, tests pass (11 PASS, 0 FAIL) and `sh run.sh` exits non-zero; with `git apply -R` of the patch and `make -s`, `sh run.sh` exits 0. Leave the worktree WITH the change applied and built. Reply with a three-line summary only.
