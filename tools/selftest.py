#!/usr/bin/env python3
"""Checker self-test: applies each mutant (a realistic, compiling change that
breaks a clause) to a scratch copy of /repo's sources and requires the named
rule to report it; applies each neutral edit (behaviour preserving) and
requires silence.  Never executes repository code.

usage: selftest.py [--only ID[,ID...]] [--property Cxx] [--neutral] [--jobs N]
exit 0: all mutants killed, all neutral edits silent; exit 2 otherwise."""
import argparse
import importlib
import json
import os
import shutil
import subprocess
import sys
import tempfile
from concurrent.futures import ProcessPoolExecutor

HERE = os.path.dirname(os.path.dirname(os.path.abspath(__file__)))
sys.path.insert(0, HERE)
REPO = '/repo'


def make_scratch():
    d = tempfile.mkdtemp(prefix='ivy-scratch-')
    os.makedirs(os.path.join(d, 'src'))
    for fn in os.listdir(os.path.join(REPO, 'src')):
        p = os.path.join(REPO, 'src', fn)
        if os.path.isfile(p) and (fn.endswith(('.c', '.h')) or fn == 'Makefile.am'):
            shutil.copy(p, os.path.join(d, 'src', fn))
    shutil.copytree(os.path.join(REPO, 'src', 'include'), os.path.join(d, 'src', 'include'))
    shutil.copy(os.path.join(REPO, 'config.h'), os.path.join(d, 'config.h'))
    return d


def apply_edit(d, m):
    if m.get('patch'):
        r = subprocess.run(['git', 'apply', '--unsafe-paths', '--directory=' + d, os.path.join(HERE, m['patch'])], capture_output=True, text=True, cwd='/')
        if r.returncode != 0:
            r = subprocess.run(['patch', '-p1', '-s', '-i', os.path.join(HERE, m['patch'])], cwd=d, capture_output=True, text=True)
        return None if r.returncode == 0 else 'stale: patch does not apply (%s)' % (r.stderr or r.stdout)[:200]
    for ed in m['edits']:
        p = os.path.join(d, ed['file'])
        s = open(p).read()
        if s.count(ed['old']) != 1:
            return 'stale: anchor text occurs %d times in %s' % (s.count(ed['old']), ed['file'])
        open(p, 'w').write(s.replace(ed['old'], ed['new']))
    return None


def syntax_ok(d, m):
    from ivy import core
    edits = m.get('edits')
    if edits is None:
        import re as _re
        files = _re.findall(r'^\+\+\+ b/(\S+)', open(os.path.join(HERE, m['patch'])).read(), flags=_re.M)
        edits = [{'file': f} for f in files]
    try:
        built = set(core.source_units(d))
    except Exception:
        built = None
    for ed in edits:
        if not ed['file'].endswith('.c'):
            continue
        if built is not None and os.path.basename(ed['file']) not in built:
            continue          # a unit of another platform (win32, kqueue, ...): not part of this configuration's build
        r = subprocess.run(['clang-14', '-fsyntax-only', '-Werror=implicit-function-declaration'] + core.compile_flags(d)[:-1] +
                           [os.path.basename(ed['file'])], cwd=os.path.join(d, 'src'), capture_output=True, text=True)
        if r.returncode != 0:
            return r.stderr[-500:]
    return None


def run_one(m):
    from ivy import core, engine
    d = make_scratch()
    try:
        err = apply_edit(d, m)
        if err:
            return m['id'], 'STALE', err, []
        err = syntax_ok(d, m)
        if err:
            return m['id'], 'NOCOMPILE', err, []
        core.REPO = d
        out = []
        status = 'SURVIVED' if m.get('kind', 'mutant') == 'mutant' else 'SILENT'
        props = m['properties']
        prog = None
        for pid in props:
            mod = importlib.import_module('ivy.rules.' + pid.lower())
            try:
                if prog is None:
                    prog = core.load_program(repo=d)
                ctx = engine.Ctx(pid, 'quick', prog)
                mod.run(ctx)
                bad = [o for o in ctx.obs if not o['ok']]
                if not bad:
                    ctx.check_floors()
                for b in ctx.broken:
                    out.append('%s: ANALYSIS-BROKEN %s' % (pid, b))
                if ctx.broken and not bad:
                    status = 'BROKEN' if m.get('kind', 'mutant') == 'mutant' else 'NOISY'
            except core.AnalysisBroken as e:
                out.append('%s: ANALYSIS-BROKEN %s' % (pid, e))
                if m.get('kind', 'mutant') == 'mutant':
                    status = 'BROKEN'
                else:
                    status = 'NOISY'
                continue
            for o in bad:
                out.append('%s: %s [%s] %s' % (pid, o['rule'], o['instance'], o['loc']))
            if m.get('kind', 'mutant') == 'mutant':
                want = m.get('rules')
                hit = [o for o in bad if (not want or any(o['rule'].startswith(w) for w in want))]
                if hit:
                    status = 'KILLED'
            else:
                if bad:
                    status = 'NOISY'
        return m['id'], status, '', out
    finally:
        shutil.rmtree(d, ignore_errors=True)


def load_corpus():
    ms = []
    for fn in sorted(os.listdir(os.path.join(HERE, 'mutants'))):
        if fn.endswith('.json'):
            ms += json.load(open(os.path.join(HERE, 'mutants', fn)))
    # behaviour-preserving refactorings written by independent sub-agents
    nd = os.path.join(HERE, 'neutral_seeded')
    allp = sorted(json.loads(l)['id'] for l in open(os.path.join(HERE, 'properties.jsonl')))
    if os.path.isdir(nd):
        for d in sorted(os.listdir(nd)):
            if not os.path.isdir(os.path.join(nd, d)):
                continue
            for fn in sorted(os.listdir(os.path.join(nd, d))):
                if fn.endswith('.diff'):
                    ms.append({'id': 'ns-%s-%s' % (d, fn[:-5].replace('patch', '')), 'kind': 'neutral', 'rules': [], 'properties': allp,
                               'patch': os.path.join('neutral_seeded', d, fn), 'desc': 'independent refactoring %s/%s' % (d, fn)})
    # behaviour-breaking changes written by independent sub-agents (confirmed; see seeded/*/meta.json):
    # each must be reported by the check of the property it was written against
    sd = os.path.join(HERE, 'seeded')
    if os.path.isdir(sd):
        for d in sorted(os.listdir(sd)):
            if os.path.exists(os.path.join(sd, d, 'patch.diff')):
                ms.append({'id': 'sd-' + d, 'kind': 'mutant', 'rules': [], 'properties': [d.split('-')[0]],
                           'patch': os.path.join('seeded', d, 'patch.diff'), 'desc': 'independent seeded change ' + d})
    return ms


def main():
    ap = argparse.ArgumentParser()
    ap.add_argument('--only')
    ap.add_argument('--property')
    ap.add_argument('--jobs', type=int, default=12)
    ap.add_argument('-v', action='store_true')
    a = ap.parse_args()
    ms = load_corpus()
    if a.only:
        ids = set(a.only.split(','))
        ms = [m for m in ms if m['id'] in ids]
    if a.property:
        # run only that property's rules (neutral corpus entries are otherwise checked against every property)
        ms = [dict(m, properties=[a.property]) for m in ms if a.property in m['properties']]
    bad = 0
    # held-out refactorings that are known to still trip a property (measured, not yet fixed): listed with the
    # property and the reason in neutral_seeded/KNOWN_NOISY.json; reported as such, not counted as unexpected
    kn_path = os.path.join(HERE, 'neutral_seeded', 'KNOWN_NOISY.json')
    known_noisy = json.load(open(kn_path)) if os.path.exists(kn_path) else {}
    km_path = os.path.join(HERE, 'seeded', 'KNOWN_MISSED_BY_OWN_CHECK.json')
    known_missed = json.load(open(km_path)) if os.path.exists(km_path) else {}
    with ProcessPoolExecutor(max_workers=a.jobs) as ex:
        for mid, status, err, out in ex.map(run_one, ms):
            ok = status in ('KILLED', 'SILENT')
            if status == 'SURVIVED' and mid in known_missed:
                status, ok = 'SURVIVED-KNOWN(reported by %s)' % ','.join(known_missed[mid].get('reported_by', [])), True
            if status == 'NOISY' and mid in known_noisy:
                props_hit = sorted({o.split(':')[0] for o in out})
                if set(props_hit) <= set(known_noisy[mid].get('properties', [])):
                    status, ok = 'NOISY-KNOWN', True
            if not ok:
                bad += 1
            print('%-6s %-9s %s' % (mid, status, err))
            if a.v or not ok:
                for l in out[:8]:
                    print('         ' + l)
            elif out:
                print('         ' + out[0])
    print('%d entries, %d not as expected' % (len(ms), bad))
    return 2 if bad else 0


if __name__ == '__main__':
    sys.exit(main())
