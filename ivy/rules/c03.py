"""C03 — descriptor handlers run only for kernel-reported conditions, right cookie."""
from ..core import (names_of, same_value, AnalysisBroken, Inliner, canon, strip, last_member, must_pass, relpath, norm_cond, walk, forward)
from ..analyses import (is_call, holding, path_to, describe, exits_of, callback_kind, loops, innermost_loop,
                        list_empty_test, must_pass_from_block)
from .. import generic
from . import c01

BANDS = {'handler_in': 1, 'handler_out': 2, 'handler_err': 4}


def run(ctx):
    ctx.rule('R-C03a', 'dispatch agreement: each call through handler_X is control-dependent on ready_bands & MASK_X and handler_X != NULL '
                       'of the same descriptor, passes that descriptor\'s cookie, happens at most once per iteration after the descriptor '
                       'left the batch; order err, in, out', floor=10)
    ctx.rule('R-C03b', 'readiness bits are per iteration: only the make-ready helper (and registration) write ready_bands; the helper zeroes '
                       'them and links into the caller\'s batch when the descriptor is not yet in it; only poll-slot activation code calls it', floor=4)
    ctx.rule('R-C03c', 'registration initialises all dispatch state (INIT-COMPLETE for iv_fd_, per poll method)', floor=16)
    ctx.rule('R-C03d', 'kernel tokens that are not descriptors (kick token, timer token) are compared against before a batch entry is used as a descriptor', floor=3)
    ctx.section(dispatch)
    ctx.section(still_registered)
    ctx.section(ready_bits)
    ctx.section(lambda c: generic.init_complete(c, 'R-C03c', kinds={'iv_fd_'}))
    ctx.section(tokens)
    ctx.rule('R-C03e', 'no kernel registration outlives unregister: unregistering synchronously removes the descriptor from the kernel set '
                       'unless nothing is registered there (shared with C01 R-C01c; a stale registration delivers events for a reused struct)', floor=2)
    ctx.section(kernel_registration)


def dispatch(ctx):
    prog = ctx.prog
    f = prog.fn('iv_fd_poll_and_run')
    g = Inliner(prog, stop=lambda t: t.name in ('iv_fd_timeout_check',)).inline(f)
    sites = [e for e in g.events() if callback_kind(e) == ('callback', 'fd')]
    if len(sites) != 3:
        raise AnalysisBroken('descriptor handler call sites: %d found, 3 confirmed' % len(sites))
    hd = holding(g, user_call_kills=False)
    lps = loops(g)
    order = []
    for cs in sites:
        m = strip(cs['fnexpr'])
        fld = m['field']
        obj = canon(m['base'])
        order.append((cs['_b'], fld))
        A = hd.get((cs['_b'], cs['_i']), frozenset())
        band = any(a[0] == '!=' and a[2] == '0' and a[1] == '(%s->ready_bands & %d)' % (obj, BANDS[fld]) for a in A)
        nonnull = any(a[0] == '!=' and a[2] == '0' and a[1] == '%s->%s' % (obj, fld) for a in A)
        ctx.ob('R-C03a', 'dispatch:%s:band-reported' % fld, band, loc=cs['loc'],
               detail='call is on the edge (%s->ready_bands & %d) != 0' % (obj, BANDS[fld]), path=None if band else path_to(g, cs), fn=f.q)
        ctx.ob('R-C03a', 'dispatch:%s:handler-set' % fld, nonnull, loc=cs['loc'],
               detail='call is on the edge %s->%s != NULL (same object, same band)' % (obj, fld), fn=f.q)
        ck = len(cs['args']) == 1 and canon(cs['args'][0]) == '%s->cookie' % obj
        ctx.ob('R-C03a', 'dispatch:%s:cookie' % fld, ck, loc=cs['loc'], detail='argument is %s' % canon(cs['args'][0]), fn=f.q)
        h = innermost_loop(g, cs['_b'], lps)
        inner = [x for x in lps if x != h and cs['_b'] in lps[x] and len(lps[x]) < len(lps.get(h, ()))]
        ctx.ob('R-C03a', 'dispatch:%s:once-per-iteration' % fld, h is not None and not inner, loc=cs['loc'],
               detail='the call is not inside an inner loop of the dispatch loop', fn=f.q)
        def tr(e, s, obj=obj):
            return True if (is_call(e, ('iv_list_del', 'iv_list_del_init')) and canon(e['args'][0]) == '&%s->list_active' % obj) else s
        def edge(blk, si, s, h=h):
            return False if blk.succ[si] == h else s
        _, ev_in = forward(g, False, tr, lambda a, b: a and b, edge=edge)
        ctx.ob('R-C03a', 'dispatch:%s:left-batch-first' % fld, bool(ev_in.get((cs['_b'], cs['_i']))), loc=cs['loc'],
               detail='the descriptor is unlinked from the active batch before its handler (one dispatch per collected event set)', fn=f.q)
    # order err -> in -> out : each later call is not reachable back to an earlier one without passing the loop head
    pos = {fld: cs for cs, fld in ((s, strip(s['fnexpr'])['field']) for s in sites)}
    def reaches(a, b, h):
        seen, st = set(), [a['_b']]
        first = True
        while st:
            x = st.pop()
            if x in seen:
                continue
            seen.add(x)
            for s_ in g.blocks[x].succ:
                if s_ is None or s_ == h:
                    continue
                st.append(s_)
        return b['_b'] in seen and b['_b'] != a['_b']
    h = innermost_loop(g, sites[0]['_b'], lps)
    ok = reaches(pos['handler_err'], pos['handler_in'], h) and reaches(pos['handler_in'], pos['handler_out'], h) \
        and not reaches(pos['handler_in'], pos['handler_err'], h) and not reaches(pos['handler_out'], pos['handler_in'], h)
    ctx.ob('R-C03a', 'dispatch:order', ok, loc=f.loc, detail='within one iteration: error band, then input, then output', fn=f.q)


def still_registered(ctx):
    """A handler may unregister its own descriptor: every later band of the same
    iteration re-tests the liveness marker (shares the stale-pointer analysis of C01)."""
    from ..analyses import stale_after_callback
    prog = ctx.prog
    f = prog.fn('iv_fd_poll_and_run')
    g = Inliner(prog, stop=lambda t: t.name in ('iv_fd_timeout_check',)).inline(f)
    reps, objvars, markers = stale_after_callback(g, lambda e: (callback_kind(e) or ('', ''))[0] == 'callback' and callback_kind(e)[1])
    fdvars = [v for v, r in objvars.items() if r == 'iv_fd_']
    if not fdvars:
        raise AnalysisBroken('dispatcher: descriptor variable not found')
    for v in fdvars:
        bad = [(e, acc) for (e, vv, acc, cb) in reps if vv == v]
        e0 = bad[0][0] if bad else None
        ctx.ob('R-C03a', 'dispatch:%s-registered-at-each-band' % v, not bad, loc=e0['loc'] if e0 else f.loc,
               detail=('after an earlier band\'s handler the descriptor is used without re-testing st->handled_fd: %s'
                       % ', '.join(sorted({a for _, a in bad}))) if bad else
                      'each later band of the same iteration is behind a test of the liveness marker (%s)' % sorted(markers),
               path=path_to(g, e0) if e0 else None, fn=f.q)


def ready_bits(ctx):
    prog = ctx.prog
    ws = {}
    for (fn, e) in prog.writers_of('iv_fd_', 'ready_bands'):
        ws.setdefault(fn.name, []).append(e)
    ctx.ob('R-C03b', 'ready_bands:writers', set(ws) <= {'iv_fd_make_ready', 'iv_fd_register_prologue'} and 'iv_fd_make_ready' in ws,
           loc=list(ws.values())[0][0]['loc'], detail='writers: %s' % sorted(ws))
    f = prog.fn('iv_fd_make_ready')
    links = [e for e in f.events() if is_call(e, ('iv_list_add', 'iv_list_add_tail')) and c01._list_arg_member(e) == ('iv_fd_', 'list_active')]
    stores = [e for e in f.events() if e['ev'] == 'store' and last_member(e['lhs']) == ('iv_fd_', 'ready_bands')]
    if not stores:
        raise AnalysisBroken('make_ready: store to ready_bands not found')
    bandp = f.params[2]['name'] if len(f.params) > 2 else None
    # abstract value of fd->ready_bands at return, as a function of its old value and the band argument:
    # states (batch membership at entry, keeps old bits, includes the band argument, constant bits, linked here)
    def tr(e, S):
        out = set()
        for (mem, keep, arg, const, linked) in S:
            if e in stores:
                rc = canon(e.get('rhs')) if 'rhs' in e else None
                rv = strip(e['rhs']) if 'rhs' in e else None
                if e['op'] == '=' and isinstance(rv, dict) and rv.get('k') == 'int':
                    keep, arg, const = False, False, rv['v']
                elif e['op'] == '=' and rc == bandp:
                    keep, arg, const = False, True, 0
                elif e['op'] == '|=' and rc == bandp:
                    arg = True
                elif e['op'] == '|=' and isinstance(rv, dict) and rv.get('k') == 'int':
                    const = const | rv['v'] if isinstance(const, int) else const
                else:
                    keep, arg, const = None, None, 'unknown'
            elif e in links:
                linked = True
            out.add((mem, keep, arg, const, linked))
        return frozenset(out)
    def edge(blk, si, S):
        if blk.term and blk.term.get('cond') is not None and len(blk.succ) == 2:
            for at in norm_cond(blk.term['cond'], si == 0):
                t = list_empty_test(at, member_key=('iv_fd_', 'list_active'))
                if t:
                    want = 'out' if t == 'empty' else 'in'
                    S = frozenset((want,) + x[1:] for x in S if x[0] in ('?', want))
        return S
    _, ev_in = forward(f, frozenset({('?', True, False, 0, False)}), tr, lambda a, b: a | b, edge=edge)
    finals = set()
    for (pb, pi, _) in exits_of(f):
        finals |= set(ev_in.get((pb, pi), ()))
    finals |= set(ev_in.get((f.exit, 0), ()))
    okfresh = bool(finals) and all((x[0] == 'out' and x[1:] == (False, True, 0, True)) or
                                   (x[0] == 'in' and x[1:] == (True, True, 0, False)) for x in finals)
    ctx.ob('R-C03b', 'make_ready:fresh-bits-when-not-in-batch', okfresh, loc=stores[0]['loc'],
           detail='abstract value of ready_bands at return (batch membership at entry, keeps old bits, includes band argument, constant bits, linked): %s; '
                  'required: not in batch -> exactly the band argument and linked; already in batch -> old bits | band argument' % sorted(map(str, finals)), fn=f.q)
    p0 = f.params[0]['name']
    ctx.ob('R-C03b', 'make_ready:links-into-callers-batch', bool(links) and all(canon(e['args'][1]) == p0 for e in links), loc=f.loc,
           detail='linked into the batch list the caller supplied (%s)' % p0, fn=f.q)
    pollfns = set()
    for t, slots in prog.method_tables().items():
        fn = prog.resolve(*slots['poll'])
        # closure of the poll slot by direct calls
        work = [fn]
        while work:
            x = work.pop()
            if x.q in pollfns:
                continue
            pollfns.add(x.q)
            u = prog.unit_of(x)
            for e in x.events():
                if e['ev'] == 'call' and 'callee' in e:
                    y = prog.resolve(u, e['callee']) if u else None
                    if y is not None and y.file == x.file:
                        work.append(y)
    callers = {c.q for c, e in prog.callers_of('iv_fd_make_ready')}
    ctx.ob('R-C03b', 'make_ready:callers', callers <= pollfns and bool(callers), loc=f.loc,
           detail='called only from poll-slot activation code: %s' % sorted(callers), fn=f.q)


def tokens(ctx):
    prog = ctx.prog
    # non-descriptor tokens stored into epoll_event.data.ptr, and by which function
    toks = {}
    for f in prog.all_funcs():
        for e in f.events():
            if e['ev'] == 'store' and e.get('op') == '=' and canon(e['lhs']).endswith('.data.ptr'):
                r = strip(e['rhs'])
                if isinstance(r, dict) and r.get('k') == 'var' and r.get('record') == 'iv_fd_':
                    continue
                toks.setdefault(canon(e['rhs']), []).append(f)
    if len(toks) < 2:
        raise AnalysisBroken('kernel tokens stored into epoll_event.data.ptr: %s' % sorted(toks))
    mpriv = generic._method_private(prog)
    for t, slots in sorted(prog.method_tables().items()):
        if not slots.get('event_rx_on'):
            continue
        f = prog.resolve(*slots['poll'])
        # which tokens can this method's kernel set contain
        mine = set()
        for tok, fns in toks.items():
            for fn in fns:
                if fn.q not in mpriv or t in mpriv[fn.q]:
                    mine.add(tok)
        g = Inliner(prog, method_table=t, expand_methods=True, stop=lambda x: x.name in ('iv_fd_make_ready', 'iv_event_run_pending_events')).inline(f)
        hd = holding(g, user_call_kills=False)
        calls = [e for e in g.events() if is_call(e, 'iv_fd_make_ready')]
        if not calls:
            raise AnalysisBroken('%s: activation code not found' % f.name)
        for tok in sorted(mine):
            # token as seen from the poll slot: `dest`/`st` are the state pointer
            tk = 'st' if tok in ('st', 'dest') else tok
            ok = True
            for e in calls:
                A = hd.get((e['_b'], e['_i']), frozenset())
                if not any(a[0] == '!=' and a[1].endswith('.data.ptr') and a[2] == tk for a in A):
                    ok = False
            ctx.ob('R-C03d', '%s:token %s' % (t.replace('iv_fd_poll_method_', ''), tk), ok, loc=f.loc,
                   detail='every use of a batch entry as a descriptor is on the edge data.ptr != %s' % tk, fn=f.q)


def kernel_registration(ctx):
    import types
    sub = []
    proxy = types.SimpleNamespace(prog=ctx.prog, ob=lambda rid, inst, ok, **kw: sub.append((rid, inst, ok, kw)), exempt=lambda *a, **k: None)
    c01.holders(proxy)
    n = 0
    for rid, inst, ok, kw in sub:
        if inst.startswith('holder:kernel') or inst.startswith('holder:slot iv_fd_'):
            n += 1
            ctx.ob('R-C03e', inst, ok, **kw)
    if n < 2:
        raise AnalysisBroken('kernel registration holder rules not found')
