#!/bin/sh
# Builds the fact extractor (libTooling, clang 14) from files on disk only.
set -e
cd "$(dirname "$0")"
mkdir -p build evidence/replay
if [ ! -x build/ivyfacts ] || [ tools/ivyfacts.cc -nt build/ivyfacts ]; then
	clang++ $(llvm-config-14 --cxxflags) -fno-rtti -O1 tools/ivyfacts.cc -o build/ivyfacts \
		/usr/lib/llvm-14/lib/libclang-cpp.so.14 /usr/lib/llvm-14/lib/libLLVM-14.so
fi
echo "ivyfacts built"
