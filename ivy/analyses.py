"""Reusable analyses over (inlined) CFGs."""
from .core import (AnalysisBroken, canon, strip, strip_load, walk, norm_cond, last_member,
                   forward, is_int, is_null, lvalue_steps, lvalue_root, evloc, root_var)

# --------------------------------------------------------------------------
# abstract scalar values: ('c', n) | 'nz' | '?'
# --------------------------------------------------------------------------


def aval(e, env):
    e = strip(e)
    if not isinstance(e, dict):
        return '?'
    k = e.get('k')
    if k == 'int':
        return ('c', e['v'])
    if k == 'null':
        return ('c', 0)
    if k == 'var':
        return env.get(e['name'], '?')
    if k == 'un' and e['op'] == '-':
        v = aval(e['e'], env)
        if isinstance(v, tuple):
            return ('c', -v[1])
        return v
    if k == 'un' and e['op'] == '!':
        v = aval(e['e'], env)
        if isinstance(v, tuple):
            return ('c', int(v[1] == 0))
        if v == 'nz':
            return ('c', 0)
        return '?'
    if k == 'addr':
        return 'nz'
    if k == 'cond':
        c = aval(e['c'], env)
        if isinstance(c, tuple):
            return aval(e['a'] if c[1] else e['b'], env)
        if c == 'nz':
            return aval(e['a'], env)
        a, b = aval(e['a'], env), aval(e['b'], env)
        return a if a == b else '?'
    if k == 'bin' and e['op'] in ('==', '!=', '<', '>', '<=', '>='):
        a, b = aval(e['l'], env), aval(e['r'], env)
        if isinstance(a, tuple) and isinstance(b, tuple):
            return ('c', int(eval('%d %s %d' % (a[1], e['op'], b[1]))))
        if a == 'nz' and b == ('c', 0) and e['op'] in ('==', '!='):
            return ('c', int(e['op'] == '!='))
        return '?'
    return '?'


def relevant_vars(fn):
    """Variables worth tracking for return-value / flag correlation: return
    temporaries, variables that flow into return values (through copies), and
    file-scope integer flags tested in branch conditions."""
    rel = set()
    copies = {}
    for e in fn.events():
        if e['ev'] == 'ret' and 'value' in e:
            for y in walk(e['value']):
                if y.get('k') == 'var' and y.get('vk') != 'func':
                    rel.add(y['name'])
        elif e['ev'] == 'store':
            l = strip(e['lhs'])
            if l.get('k') == 'var':
                if l['name'].startswith('$ret'):
                    rel.add(l['name'])
                    for y in walk(e.get('rhs')):
                        if y.get('k') == 'var' and y.get('vk') != 'func':
                            rel.add(y['name'])
                r = strip(e.get('rhs')) if e.get('rhs') is not None else None
                if isinstance(r, dict) and r.get('k') == 'var':
                    copies.setdefault(l['name'], set()).add(r['name'])
        elif e['ev'] == 'decl' and 'init' in e:
            r = strip(e['init'])
            if isinstance(r, dict) and r.get('k') == 'var':
                copies.setdefault(e['name'], set()).add(r['name'])
    for b in fn.blocks.values():
        c = b.term.get('cond') if b.term else None
        if c is not None:
            for y in walk(c):
                if y.get('k') == 'var' and (y.get('vk') in ('global', 'staticlocal') or y['name'].startswith('$ret')):
                    rel.add(y['name'])
    changed = True
    while changed:
        changed = False
        for v, srcs in copies.items():
            if v in rel:
                for s_ in srcs:
                    if s_ not in rel:
                        rel.add(s_)
                        changed = True
    return rel


def _vars_used(x):
    return {y['name'] for y in walk(x) if y.get('k') == 'var' and y.get('vk') != 'func'}


def liveness(fn, names):
    """{(bid, i): set of `names` live after event i of block bid}."""
    use, deff = {}, {}
    evuse, evdef = {}, {}
    for b, blk in fn.blocks.items():
        u, d = set(), set()
        for i, e in enumerate(blk.events):
            eu, ed = set(), set()
            if e['ev'] == 'store':
                l = strip(e['lhs'])
                if l.get('k') == 'var' and e['op'] == '=':
                    ed.add(l['name'])
                else:
                    eu |= _vars_used(e['lhs'])
                eu |= _vars_used(e.get('rhs')) if e.get('rhs') is not None else set()
            elif e['ev'] == 'decl':
                if 'init' in e:
                    ed.add(e['name'])
                    eu |= _vars_used(e['init'])
            elif e['ev'] == 'leave':
                if e.get('retvar'):
                    eu.add(e['retvar'])
            else:
                for k in ('args', 'fnexpr', 'e', 'value'):
                    if k in e:
                        eu |= _vars_used(e[k])
            eu &= names
            ed &= names
            evuse[(b, i)], evdef[(b, i)] = eu, ed
            u |= (eu - d)
            d |= ed
        tu = _vars_used(blk.term.get('cond')) & names if blk.term and blk.term.get('cond') is not None else set()
        u |= (tu - d)
        use[b], deff[b] = u, d
        evuse[(b, 'term')] = tu
    live_in = {b: set() for b in fn.blocks}
    live_out = {b: set() for b in fn.blocks}
    changed = True
    while changed:
        changed = False
        for b, blk in fn.blocks.items():
            lo = set()
            for s_ in blk.succ:
                if s_ is not None:
                    lo |= live_in[s_]
            li = use[b] | (lo - deff[b])
            if lo != live_out[b] or li != live_in[b]:
                live_out[b], live_in[b] = lo, li
                changed = True
    res = {}
    for b, blk in fn.blocks.items():
        live = set(live_out[b]) | evuse[(b, 'term')]
        for i in range(len(blk.events) - 1, -1, -1):
            res[(b, i)] = set(live)
            live = (live - evdef[(b, i)]) | evuse[(b, i)]
    return res


def refine(env, atoms, relevant=None):
    """Apply branch atoms to an environment; None when infeasible."""
    env = dict(env)
    for (op, lc, rc, l, r) in atoms:
        if op == 'const':
            if lc == 'False':
                return None
            continue
        lv = strip(l)
        if not (isinstance(lv, dict) and lv.get('k') == 'var'
                and lv.get('vk') in ('local', 'param', 'global', 'staticlocal')):
            continue
        if relevant is not None and lv['name'] not in relevant:
            continue
        rv = aval(r, env)
        if not isinstance(rv, tuple):
            continue
        n = rv[1]
        cur = env.get(lv['name'], '?')
        if isinstance(cur, tuple):
            if not eval('%d %s %d' % (cur[1], op, n)):
                return None
            continue
        if cur == 'nz':
            if op == '==' and n == 0:
                return None
            if op == '==':
                env[lv['name']] = ('c', n)
            continue
        # unknown
        if op == '==':
            env[lv['name']] = ('c', n)
        elif (op == '!=' and n == 0) or (op == '<' and n <= 0) or (op == '>' and n >= 0) \
                or (op == '<=' and n < 0) or (op == '>=' and n > 0):
            env[lv['name']] = 'nz'
    return env


def _envkey(env):
    return tuple(sorted((k, v) for k, v in env.items() if v != '?'))


class DeltaResult:
    def __init__(self):
        self.at = {}     # event id -> set of states
        self.rets = []   # (ret event, delta tuple, retclass, preds)


def delta_analysis(fn, counters, discr=(), start_event=None, stop=None, maxstates=512,
                   root_only_rets=True, call_delta=None, start_block=None, cut=frozenset(),
                   assume_dropped_success=True, init_env=None, extra_relevant=()):
    """Disjunctive forward analysis.  A state is (deltas, env, preds):
         deltas : tuple of net changes of each counter in `counters`
                  ((record, field) pairs) since the start
         env    : abstract values of scalar locals (constants / non-zero)
         preds  : atoms on `discr` fields ((record, field)) taken so far
       Returns {id(event): frozenset(states before the event)} for events for
       which stop(event) is true, plus for every `ret` of the root function.
       call_delta(event) may return a delta tuple for calls that are not
       inlined (summaries of callbacks etc.)."""
    cidx = {c: i for i, c in enumerate(counters)}
    zero = tuple(0 for _ in counters)
    discr = set(discr)

    def tr_one(e, st):
        d, envk, preds = st
        ev = e['ev']
        if ev == 'store':
            steps = lvalue_steps(e['lhs'])
            key = steps[0] if steps else None
            if not steps:
                r_ = lvalue_root(e['lhs'])
                if r_ is not None and r_.get('vk') in ('global', 'staticlocal'):
                    key = ('global', r_['name'])
                    steps = [key]
            if key in cidx and len(steps) == 1:
                i = cidx[key]
                op = e['op']
                n = None
                if op == '++':
                    n = 1
                elif op == '--':
                    n = -1
                elif op in ('+=', '-=') and is_int(e.get('rhs')):
                    n = strip(e['rhs'])['v'] * (1 if op == '+=' else -1)
                if n is None:
                    raise AnalysisBroken('counter %s.%s written by non-unit store at %s'
                                         % (key[0], key[1], evloc(e)))
                d2 = list(d)
                d2[i] += n
                if abs(d2[i]) > 6:
                    raise AnalysisBroken('counter %s.%s changes without bound in %s (loop?)'
                                         % (key[0], key[1], fn.name))
                d = tuple(d2)
            l = strip(e['lhs'])
            if l.get('k') == 'var' and l['name'] in relevant:
                env = dict(envk)
                if e['op'] == '=':
                    v = aval(e['rhs'], env)
                else:
                    v = '?'
                if v == '?':
                    env.pop(l['name'], None)
                else:
                    env[l['name']] = v
                envk = _envkey(env)
            # preds are a history of tests taken ("which arm did the path take");
            # later stores to the field do not erase them
        elif ev == 'decl':
            if 'init' in e and e['name'] in relevant:
                env = dict(envk)
                v = aval(e['init'], env)
                if v == '?':
                    env.pop(e['name'], None)
                else:
                    env[e['name']] = v
                envk = _envkey(env)
        elif ev == 'leave':
            if assume_dropped_success and e.get('ret_unused') and e.get('retvar') and e.get('rettype') == 'int':
                v = dict(envk).get(e['retvar'], '?')
                if is_fail(v):
                    return None
        elif ev == 'call':
            # locals whose address escapes to the callee become unknown
            env = None
            if 'fnexpr' in e:
                # user callback: file-scope state may change
                env = {k: v for k, v in dict(envk).items() if k not in globals_seen}
            for a in e['args']:
                a = strip(a)
                if isinstance(a, dict) and a.get('k') == 'addr':
                    v = strip(a['e'])
                    if v.get('k') == 'var':
                        if env is None:
                            env = dict(envk)
                        env.pop(v['name'], None)
            if env is not None:
                envk = _envkey(env)
            if call_delta:
                cd = call_delta(e)
                if cd:
                    d = tuple(x + y for x, y in zip(d, cd))
        return (d, envk, preds)

    globals_seen = set()
    for x in fn.events():
        for y in walk(x):
            if y.get('k') == 'var' and y.get('vk') in ('global', 'staticlocal'):
                globals_seen.add(y['name'])
    relevant = relevant_vars(fn) | set(extra_relevant) | set(init_env or ())
    # close over copies/expressions feeding relevant variables
    changed = True
    while changed and extra_relevant:
        changed = False
        for e_ in fn.events():
            if e_['ev'] == 'store' and strip(e_['lhs']).get('k') == 'var' and strip(e_['lhs'])['name'] in relevant and 'rhs' in e_:
                for y in walk(e_['rhs']):
                    if y.get('k') == 'var' and y.get('vk') != 'func' and y['name'] not in relevant:
                        relevant.add(y['name'])
                        changed = True
    live_after = liveness(fn, relevant)

    def transfer(e, S):
        if start_event is not None and e is start_event:
            return frozenset([(zero, (), frozenset())])
        out = set()
        la = live_after.get((e['_b'], e['_i']))
        for st in S:
            r = tr_one(e, st)
            if r is not None:
                if la is not None and r[1]:
                    r = (r[0], tuple(kv for kv in r[1] if kv[0] in la or kv[0] in globals_seen), r[2])
                out.add(r)
        if len(out) > maxstates:
            raise AnalysisBroken('state explosion in delta analysis of %s' % fn.name)
        return frozenset(out)

    def edge(blk, si, S):
        if (blk.id, si) in cut:
            return None
        if not blk.term or len(blk.succ) < 2 or blk.term.get('cls') in ('SwitchStmt', 'MethodDispatch'):
            return S
        c = blk.term.get('cond')
        if c is None:
            return S
        atoms = norm_cond(c, si == 0)
        out = set()
        for (d, envk, preds) in S:
            env = refine(dict(envk), atoms, relevant)
            if env is None:
                continue
            # whole-condition evaluation (e.g. `!x` of known x)
            v = aval(c, dict(envk))
            if isinstance(v, tuple) and bool(v[1]) != (si == 0):
                continue
            if v == 'nz' and si != 0:
                continue
            p2 = preds
            for (op, lc, rc, l, r) in atoms:
                lm = last_member(l)
                if lm in discr and aval(r, {}) != '?':
                    p2 = p2 | {(lm, op, aval(r, {})[1] if isinstance(aval(r, {}), tuple) else 'nz')}
            out.add((d, _envkey(env), p2))
        return frozenset(out) if out else None

    init = frozenset([(zero, _envkey(init_env or {}), frozenset())]) if start_event is None else frozenset()
    start = fn.entry if start_event is None else start_event['_b']
    if start_block is not None:
        start = start_block
    _, ev_in = forward(fn, init, transfer, lambda a, b: a | b, edge=edge, start=start)
    res = DeltaResult()
    for b, blk in fn.blocks.items():
        for i, e in enumerate(blk.events):
            S = ev_in.get((b, i))
            if S is None or not S:
                continue
            if stop and stop(e):
                res.at[id(e)] = (e, S)
            if e['ev'] == 'ret' and not (root_only_rets and e.get('chain')):
                for (d, envk, preds) in S:
                    rc = 'void'
                    if 'value' in e:
                        rc = aval(e['value'], dict(envk))
                    res.rets.append((e, d, rc, preds))
    # functions that fall off the end without a return statement
    ex = fn.blocks.get(fn.exit)
    res.exit_states = ev_in.get((fn.exit, 0), frozenset())
    return res


def is_fail(rc):
    return rc == 'nz' or (isinstance(rc, tuple) and rc[1] != 0)


def is_success(rc):
    return rc == 'void' or rc == ('c', 0)


# --------------------------------------------------------------------------
# event predicates
# --------------------------------------------------------------------------

def is_call(e, name=None):
    """Direct call (inlined or not) to `name`."""
    if e['ev'] not in ('call', 'enter'):
        return False
    if name is None:
        return True
    if isinstance(name, (set, frozenset, tuple, list)):
        return e.get('callee') in name
    return e.get('callee') == name


def arg_canon(e, i):
    a = e.get('args', [])
    return canon(a[i]) if i < len(a) else None


def is_store_to(e, record, field, op=None):
    if e['ev'] != 'store':
        return False
    st = lvalue_steps(e['lhs'])
    if not st or st[0] != (record, field) or len(st) != 1:
        return False
    return op is None or e['op'] == op


def stores_to_field(e, record, field):
    """Store whose lvalue includes record.field (sub-fields included)."""
    return e['ev'] == 'store' and (record, field) in lvalue_steps(e['lhs'])


def indirect_calls(fn):
    for e in fn.events():
        if e['ev'] == 'call' and 'fnexpr' in e:
            yield e


def path_to(fn, ev, maxlen=40):
    """A shortest block path from entry to the event, as printable steps."""
    from collections import deque
    tgt = ev['_b']
    prev = {fn.entry: None}
    dq = deque([fn.entry])
    while dq:
        b = dq.popleft()
        if b == tgt:
            break
        for s in fn.blocks[b].succ:
            if s is not None and s not in prev:
                prev[s] = b
                dq.append(s)
    if tgt not in prev:
        return []
    chain = []
    b = tgt
    while b is not None:
        chain.append(b)
        b = prev[b]
    chain.reverse()
    steps = []
    for i, b in enumerate(chain):
        blk = fn.blocks[b]
        if blk.term and blk.term.get('cond') is not None and i + 1 < len(chain):
            nxt = chain[i + 1]
            pol = 'true' if blk.succ and blk.succ[0] == nxt else 'false'
            steps.append('%s: (%s) is %s' % (relshort(blk.term.get('loc')), canon(blk.term['cond']), pol))
    steps.append('%s: %s' % (relshort(ev.get('loc')), describe(ev)))
    return steps[-maxlen:]


def relshort(loc):
    from .core import relpath
    return relpath(loc) if loc else '?'


def describe(e):
    ev = e['ev']
    if ev in ('call', 'enter'):
        f = e.get('callee') or canon(e.get('fnexpr'))
        return '%s(%s)' % (f, ', '.join(canon(a) for a in e.get('args', [])))
    if ev == 'store':
        if 'rhs' in e:
            return '%s %s %s' % (canon(e['lhs']), e['op'], canon(e['rhs']))
        return '%s%s' % (canon(e['lhs']), e['op'])
    if ev == 'load':
        return 'read %s' % canon(e['e'])
    if ev == 'ret':
        return 'return %s' % (canon(e['value']) if 'value' in e else '')
    if ev == 'decl':
        return 'decl %s' % e['name']
    return ev


# --------------------------------------------------------------------------
# loops, edge dominance
# --------------------------------------------------------------------------

def loops(fn):
    """Natural loops: {header: set(body blocks)} (bodies of the same header merged)."""
    dom = fn.dominators()
    preds = fn.preds()
    res = {}
    for b in dom:
        for s in fn.blocks[b].succ:
            if s is not None and s in dom.get(b, ()):      # back edge b -> s
                body = res.setdefault(s, {s})
                st = [b]
                while st:
                    x = st.pop()
                    if x in body:
                        continue
                    body.add(x)
                    st.extend(p for p in preds[x] if p in dom)
    return res


def innermost_loop(fn, bid, lps=None):
    lps = loops(fn) if lps is None else lps
    best = None
    for h, body in lps.items():
        if bid in body and (best is None or len(body) < len(lps[best])):
            best = h
    return best


def reachable_without_edge(fn, cut, start=None):
    """Blocks reachable from start when the edges in `cut` ({(b, si)}) are removed."""
    start = fn.entry if start is None else start
    seen = set()
    st = [start]
    while st:
        x = st.pop()
        if x in seen:
            continue
        seen.add(x)
        for si, s in enumerate(fn.blocks[x].succ):
            if s is None or (x, si) in cut:
                continue
            st.append(s)
    return seen


def edge_dominates(fn, b, si, target_block):
    """Every path from entry to target_block takes edge (b, si)."""
    r = reachable_without_edge(fn, {(b, si)})
    return target_block not in r


def dominating_edges(fn, target_block):
    """All (block, succ index) edges of conditional terminators that dominate
    target_block."""
    out = []
    reach = fn.reachable_blocks()
    for b in reach:
        blk = fn.blocks[b]
        if len(blk.succ) >= 2:
            for si in range(len(blk.succ)):
                if blk.succ[si] is not None and edge_dominates(fn, b, si, target_block):
                    out.append((b, si))
    return out


# --------------------------------------------------------------------------
# atoms that hold (forward must analysis over branch facts)
# --------------------------------------------------------------------------

def _mem_keys(expr):
    """(record, field) pairs and variable names an atom's operand reads."""
    keys = set()
    for x in walk(expr):
        if x.get('k') == 'member':
            keys.add((x.get('record'), x['field']))
        elif x.get('k') == 'var':
            keys.add(('var', x['name']))
        elif x.get('k') in ('deref', 'index'):
            keys.add(('mem', '*'))
    return keys


def _pure_expr(e):
    return not any(x.get('k') in ('call', 'assign', 'incdec', 'stmtexpr') for x in walk(e))


def holding(fn, user_call_kills=True, extra_kill=None):
    """For every program point the set of branch atoms (op, lhs, rhs) that hold
    on all paths to it.  Atoms are killed by stores that may alias one of the
    locations they read (type-based: same record.field, same variable), by
    user callbacks (indirect calls) for everything read through memory."""
    def gen(blk, si):
        atoms = []
        if blk.term and blk.term.get('cls') == 'SwitchStmt' and blk.term.get('cond') is not None:
            # `switch (x)`: x == v on the edge of `case v`, x != every case value on the default edge
            cases = blk.term.get('cases') or []
            c = blk.term['cond']
            if si < len(cases) and _pure_expr(c):
                keys = frozenset(_mem_keys(c))
                me = cases[si]
                same_target = [cv for k_, cv in enumerate(cases) if blk.succ[k_] == blk.succ[si]]
                if me != 'default' and isinstance(me, int) and len(same_target) == 1:
                    atoms.append(('==', canon(c), str(me), keys))
                elif me == 'default' and len(same_target) == 1:
                    for cv in cases:
                        if isinstance(cv, int):
                            atoms.append(('!=', canon(c), str(cv), keys))
            return atoms
        if blk.term and len(blk.succ) == 2 and blk.term.get('cls') not in ('SwitchStmt', 'MethodDispatch'):
            c = blk.term.get('cond')
            if c is not None:
                for (op, lc, rc, l, r) in norm_cond(c, si == 0):
                    if op == 'const':
                        continue
                    atoms.append((op, lc, rc, frozenset(_mem_keys(l) | _mem_keys(r))))
        return atoms

    def transfer(e, S):
        if S is None:
            return S
        ev = e['ev']
        if ev == 'store':
            l = strip(e['lhs'])
            kills = set()
            for st in lvalue_steps(e['lhs']):
                kills.add(st)
            if l.get('k') == 'var':
                kills.add(('var', l['name']))
            if l.get('k') in ('deref', 'index'):
                kills.add(('mem', '*'))
            # stores through a pointer field chain: a->b.c kills (A,b),(B,c)
            if not kills:
                lm = last_member(e['lhs'])
                if lm:
                    kills.add(lm)
            rc_ = canon(e['rhs']) if 'rhs' in e and e['op'] == '=' else None
            # a store of the very value an atom speaks about (P->f = Q->f) leaves
            # the atom about Q->f true whether or not P aliases Q
            S2 = frozenset(a for a in S if not (a[3] & kills) or (rc_ is not None and a[1] == rc_ and a[2].lstrip('-').isdigit()))
            if e['op'] == '=' and 'rhs' in e:
                v0 = strip(e['rhs'])
                if isinstance(v0, dict) and v0.get('k') == 'incdec' and v0['op'] == '++' and not v0['prefix']:
                    S2 = S2 | {('from++', canon(e['lhs']), canon(v0['e']), frozenset(_mem_keys(e['lhs'])))}
            # assignment `x = const` / copies generate equality atoms for variables
            if l.get('k') == 'var' and e['op'] == '=':
                v = strip(e['rhs'])
                if isinstance(v, dict) and v.get('k') in ('int', 'null'):
                    S2 = S2 | {('==', l['name'], '0' if v.get('k') == 'null' else str(v['v']),
                                frozenset({('var', l['name'])}))}
            elif e['op'] == '=':
                v = strip(e['rhs'])
                if isinstance(v, dict) and v.get('k') in ('int', 'null'):
                    S2 = S2 | {('==', canon(e['lhs']), '0' if v.get('k') == 'null' else str(v['v']),
                                frozenset(_mem_keys(e['lhs'])))}
            # copies of values with a known constant: x = y where (y == c) holds
            if e['op'] == '=' and 'rhs' in e:
                v = strip(e['rhs'])
                if isinstance(v, dict) and v.get('k') in ('var', 'member'):
                    vc = canon(v)
                    for a in S:
                        if a[0] == '==' and a[1] == vc and a[2].lstrip('-').isdigit():
                            S2 = S2 | {('==', canon(e['lhs']), a[2], frozenset(_mem_keys(e['lhs'])))}
            return S2
        if ev == 'decl' and 'init' in e:
            S2 = frozenset(a for a in S if ('var', e['name']) not in a[3])
            return S2
        if ev == 'call':
            if 'fnexpr' in e and user_call_kills:
                return frozenset(a for a in S if all(k[0] == 'var' for k in a[3]))
            if extra_kill:
                ks = extra_kill(e)
                if ks:
                    return frozenset(a for a in S if not (a[3] & ks))
            # address of a local passed out: the local may change
            ks = set()
            for a in e.get('args', []):
                a = strip(a)
                if isinstance(a, dict) and a.get('k') == 'addr':
                    v = strip(a['e'])
                    if v.get('k') == 'var':
                        ks.add(('var', v['name']))
            if ks:
                return frozenset(a for a in S if not (a[3] & ks))
        return S

    def edge(blk, si, S):
        g = gen(blk, si)
        if not g:
            return S
        return S | frozenset(g)

    def join(a, b):
        return a & b

    _, ev_in = forward(fn, frozenset(), transfer, join, edge=edge)
    return ev_in


def atoms_imply(S, op, lc, rc):
    """Does the atom set S imply (lc op rc)?  rc is a string ('0', '-1', ...)."""
    for a in S:
        if a[1] != lc:
            continue
        aop, arc = a[0], a[2]
        if aop == op and arc == rc:
            return True
        try:
            n, m = int(arc), int(rc)
        except ValueError:
            continue
        if op == '!=':
            if (aop == '==' and n != m) or (aop == '>' and n >= m) or (aop == '<' and n <= m) \
                    or (aop == '>=' and n > m) or (aop == '<=' and n < m):
                return True
        elif op == '==':
            if aop == '==' and n == m:
                return True
        elif op == '>=':
            if (aop == '>=' and n >= m) or (aop == '>' and n >= m - 1) or (aop == '==' and n >= m):
                return True
        elif op == '>':
            if (aop == '>' and n >= m) or (aop == '>=' and n > m) or (aop == '==' and n > m):
                return True
        elif op == '<':
            if (aop == '<' and n <= m) or (aop == '<=' and n < m) or (aop == '==' and n < m):
                return True
        elif op == '<=':
            if (aop == '<=' and n <= m) or (aop == '<' and n <= m + 1) or (aop == '==' and n <= m):
                return True
    return False


# --------------------------------------------------------------------------
# locksets
# --------------------------------------------------------------------------

LOCK_FUNCS = {'___mutex_lock': ('lock', 0), '___mutex_unlock': ('unlock', 0),
              'spin_lock': ('lock', 0), 'spin_unlock': ('unlock', 0),
              'spin_lock_sigmask': ('lock+sig', 0), 'spin_unlock_sigmask': ('unlock+sig', 0),
              'fallback_spin_lock': ('lock', 0), 'fallback_spin_unlock': ('unlock', 0)}
SIGBLOCK = 'SIGNALS-BLOCKED'


def lock_id(arg):
    """Identity of a lock object from the expression passed to a lock function:
    record.field for members (any object of that type), name for globals."""
    a = strip(arg)
    if isinstance(a, dict) and a.get('k') == 'addr':
        a = strip(a['e'])
    if isinstance(a, dict) and a.get('k') == 'member':
        return '%s.%s' % (a.get('record'), a['field'])
    if isinstance(a, dict) and a.get('k') == 'var':
        return a['name']
    return canon(arg)


def lock_effect(e):
    """[(op, lockid)] with op in {'lock','unlock'} for a call event."""
    if e['ev'] not in ('call', 'enter'):
        return []
    nm = e.get('callee')
    if nm in LOCK_FUNCS and e['ev'] == 'call':
        kind, ai = LOCK_FUNCS[nm]
        lid = lock_id(e['args'][ai])
        if kind == 'lock':
            return [('lock', lid)]
        if kind == 'unlock':
            return [('unlock', lid)]
        if kind == 'lock+sig':
            return [('lock', SIGBLOCK), ('lock', lid)]
        if kind == 'unlock+sig':
            return [('unlock', lid), ('unlock', SIGBLOCK)]
    if nm == 'pthr_sigmask' and e['ev'] == 'call':
        how = strip(e['args'][0])
        # SIG_BLOCK = 0, SIG_UNBLOCK = 1, SIG_SETMASK = 2 on Linux
        if is_int(how, 0):
            return [('lock', SIGBLOCK)]
        if is_int(how, 2) or is_int(how, 1):
            return [('unlock', SIGBLOCK)]
    return []


def locksets(fn, entry=frozenset()):
    """Must-held lockset before every event: {(bid,i): frozenset((lockid, acquisition loc))}."""
    def tr(e, S):
        for (op, lid) in lock_effect(e):
            if op == 'lock':
                S = frozenset(x for x in S if x[0] != lid) | {(lid, e.get('loc'))}
            else:
                S = frozenset(x for x in S if x[0] != lid)
        return S
    init = frozenset((l, 'entry') for l in entry)

    def join(a, b):
        if a == b:
            return a
        da, db = dict(a), dict(b)
        return frozenset((l, da[l] if da[l] == db[l] else 'several') for l in da if l in db)
    _, ev_in = forward(fn, init, tr, join)
    return ev_in


def held(S):
    return {x[0] for x in (S or ())}


# --------------------------------------------------------------------------
# callback sites
# --------------------------------------------------------------------------

# function-pointer fields through which *user* code is entered.  kind: the
# object kind whose callback this is; unreg: whether the callback may
# unregister (and the caller free) library objects.
CALLBACK_FIELDS = {
    ('iv_fd_', 'handler_in'): 'fd', ('iv_fd_', 'handler_out'): 'fd', ('iv_fd_', 'handler_err'): 'fd',
    ('iv_task_', 'handler'): 'task', ('iv_timer_', 'handler'): 'timer',
    ('iv_event', 'handler'): 'event', ('iv_event_raw', 'handler'): 'event_raw',
    ('iv_signal', 'handler'): 'signal', ('iv_wait_interest', 'handler'): 'wait',
    ('iv_inotify_watch', 'handler'): 'inotify_watch',
    ('iv_work_item', 'work'): 'work', ('iv_work_item', 'completion'): 'completion',
}
HOOK_FIELDS = {
    ('iv_work_pool', 'thread_start'): 'pool hook', ('iv_work_pool', 'thread_stop'): 'pool hook',
    ('work_pool_priv', 'thread_start'): 'pool hook', ('work_pool_priv', 'thread_stop'): 'pool hook',
    ('iv_thread', 'start_routine'): 'thread body',
    ('iv_tls_user', 'init_thread'): 'tls hook', ('iv_tls_user', 'deinit_thread'): 'tls hook',
    ('iv_fd_pump', 'set_bands'): 'pump hook',
    ('iv_avl_tree', 'compare'): 'comparator',
}


def callback_kind(e):
    """For an indirect call event: ('callback', kind) / ('hook', kind) /
    ('method', slot) / ('param', name) / None."""
    if e['ev'] != 'call' or 'fnexpr' not in e:
        return None
    lm = last_member(e['fnexpr'])
    if lm in CALLBACK_FIELDS:
        return ('callback', CALLBACK_FIELDS[lm])
    if lm in HOOK_FIELDS:
        return ('hook', HOOK_FIELDS[lm])
    if lm and lm[0] == 'iv_fd_poll_method':
        return ('method', lm[1])
    v = strip(e['fnexpr'])
    if isinstance(v, dict) and v.get('k') == 'var':
        return ('param', v['name'])
    return ('unknown', canon(e['fnexpr']))


def must_pass_from_block(fn, start_block, pred, cut=frozenset()):
    """{(bid,i): bool} — every path from the start of start_block to the point
    executed an event matching pred."""
    def tr(e, s):
        return True if pred(e) else s
    def edge(blk, si, s):
        return None if (blk.id, si) in cut else s
    _, ev_in = forward(fn, False, tr, lambda a, b: a and b, edge=edge, start=start_block)
    return ev_in


def exits_of(fn):
    """Program points at which the function returns normally: (bid, i) of each
    `ret` event of the root function, and the exit block for void fallthrough."""
    pts = []
    for b, blk in fn.blocks.items():
        for i, e in enumerate(blk.events):
            if e['ev'] == 'ret' and not e.get('chain'):
                pts.append((b, i, e))
    return pts


def atoms_reading(S, key):
    return [a for a in (S or ()) if key in a[3]]


# --------------------------------------------------------------------------
# stale-after-callback
# --------------------------------------------------------------------------

# records whose objects a user callback may unregister and free
USER_OBJECT_RECORDS = {'iv_fd_', 'iv_fd', 'iv_task_', 'iv_task', 'iv_timer_', 'iv_timer', 'iv_event', 'iv_event_raw',
                       'iv_signal', 'iv_wait_interest', 'iv_inotify', 'iv_inotify_watch', 'iv_work_item',
                       'iv_popen_request', 'iv_work_pool', 'iv_fd_pump'}


def _top_deref(x):
    x = strip(x) if isinstance(x, dict) and x.get('k') in ('cast', 'stmtexpr') else x
    while isinstance(x, dict):
        k = x.get('k')
        if k == 'member':
            if x['arrow']:
                b = strip(x['base'])
                return b if isinstance(b, dict) and b.get('k') == 'var' else None
            x = x['base']
        elif k == 'deref':
            b = strip(x['e'])
            return b if isinstance(b, dict) and b.get('k') == 'var' else None
        elif k == 'index':
            b = strip(x['base'])
            if isinstance(b, dict) and b.get('k') == 'var' and 'bound' not in x:
                return b
            x = x['base']
        elif k in ('cast', 'addr'):
            x = x['e']
        else:
            return None
    return None


def derefs_by_event(e):
    """[(var node, canon of access)] dereferences performed by the event itself."""
    cands = []
    if e['ev'] == 'load':
        cands.append(e['e'])
    elif e['ev'] == 'store':
        cands.append(e['lhs'])
    elif e['ev'] in ('call', 'enter'):
        for a in e.get('args', []):
            a2 = strip(a)
            if isinstance(a2, dict) and a2.get('k') == 'addr':
                cands.append(a2['e'])
        if e['ev'] == 'call' and 'fnexpr' in e:
            cands.append(strip(e['fnexpr']))
    out = []
    for x in cands:
        v = _top_deref(x)
        if v is not None:
            out.append((v, canon(x)))
    return out


def stale_after_callback(fn, is_callback, keep_kinds=()):
    """Forward may-analysis.  After a callback site every pointer variable to a
    user-owned object kind is stale until it is reassigned or the path crosses
    the alive edge of a liveness marker tied to that variable:
       marker M : a location for which the function executed `M = v` (or
                  published `&v`); the edge `M != NULL` / `v != NULL` revives v.
    Returns [(event, var, access, callback event)]."""
    # pointer variables of interest
    objvars = {}
    for e in fn.events():
        for x in walk(e):
            if x.get('k') == 'var' and x.get('vk') in ('local', 'param') and x.get('ptr') \
                    and x.get('record') in USER_OBJECT_RECORDS:
                objvars[x['name']] = x['record']
        if e['ev'] == 'decl' and e.get('ptr') and e.get('record') in USER_OBJECT_RECORDS:
            objvars[e['name']] = e['record']
    for p in fn.params:
        if p.get('ptr') and p.get('record') in USER_OBJECT_RECORDS:
            objvars[p['name']] = p['record']
    # markers: M = v  /  X = &v
    markers = {}      # canon(M) -> var ; var itself when its address was published
    for e in fn.events():
        if e['ev'] == 'store' and e.get('op') == '=' and 'rhs' in e:
            r = strip(e['rhs'])
            l = strip(e['lhs'])
            if isinstance(r, dict) and r.get('k') == 'var' and r['name'] in objvars and l.get('k') == 'member':
                markers[canon(e['lhs'])] = r['name']
            if isinstance(r, dict) and r.get('k') == 'addr':
                v = strip(r['e'])
                if isinstance(v, dict) and v.get('k') == 'var' and v['name'] in objvars:
                    markers[v['name']] = v['name']

    def transfer(e, S):
        if e['ev'] == 'store':
            l = strip(e['lhs'])
            if l.get('k') == 'var' and any(x[0] == l['name'] for x in S):
                S = frozenset(x for x in S if x[0] != l['name'])
        elif e['ev'] == 'decl':
            if any(x[0] == e['name'] for x in S):
                S = frozenset(x for x in S if x[0] != e['name'])
        elif e['ev'] == 'call':
            cb = is_callback(e)
            if cb:
                add = set()
                for v, rec in objvars.items():
                    if rec in keep_kinds or (cb == 'work' and rec == 'iv_work_item'):
                        continue
                    add.add((v, e.get('loc')))
                S = S | frozenset(add)
        return S

    def edge(blk, si, S):
        if not S or not blk.term or blk.term.get('cond') is None or len(blk.succ) != 2:
            return S
        if blk.term.get('cls') in ('SwitchStmt', 'MethodDispatch'):
            return S
        for (op, lc, rc, l, r) in norm_cond(blk.term['cond'], si == 0):
            if op == '!=' and rc == '0' and lc in markers:
                v = markers[lc]
                S = frozenset(x for x in S if x[0] != v)
            elif op == '==' and lc in markers and rc == markers[lc]:
                v = markers[lc]
                S = frozenset(x for x in S if x[0] != v)
        return S

    _, ev_in = forward(fn, frozenset(), transfer, lambda a, b: a | b, edge=edge)
    reports = []
    for b, blk in fn.blocks.items():
        for i, e in enumerate(blk.events):
            S = ev_in.get((b, i))
            if not S:
                continue
            names = {x[0]: x[1] for x in S}
            for (v, acc) in derefs_by_event(e):
                if v['name'] in names:
                    reports.append((e, v['name'], acc, names[v['name']]))
    return reports, objvars, markers


# --------------------------------------------------------------------------
# infeasible-edge pruning
# --------------------------------------------------------------------------

def prune_infeasible(fn, max_rounds=6):
    """Removes branch edges whose condition contradicts facts that hold on
    every path to the branch (constants stored into fields/variables, earlier
    branch outcomes that nothing in between can change).  Sound: only edges
    whose atom is refuted by must-facts are removed.  Returns #edges removed."""
    from .core import NEG
    removed = 0
    for _ in range(max_rounds):
        hd = holding(fn, user_call_kills=True)
        changed = False
        for b, blk in fn.blocks.items():
            if not blk.term or len(blk.succ) != 2 or blk.term.get('cond') is None:
                continue
            if blk.term.get('cls') in ('SwitchStmt', 'MethodDispatch'):
                continue
            S = hd.get((b, len(blk.events)))
            if S is None:
                continue
            for si in (0, 1):
                if blk.succ[si] is None:
                    continue
                atoms = norm_cond(blk.term['cond'], si == 0)
                refuted = False
                for (op, lc, rc, l, r) in atoms:
                    if op in NEG and atoms_imply(S, NEG[op], lc, rc):
                        refuted = True
                if refuted:
                    blk.succ = [s for i, s in enumerate(blk.succ) if i != si]
                    # keep polarity information for the surviving edge
                    blk.term = dict(blk.term, pruned=('true' if si == 0 else 'false'), cls='Pruned')
                    blk.term.pop('cond', None)
                    removed += 1
                    changed = True
                    break
        fn._preds = None
        if not changed:
            break
    return removed


def clone_cfg(fn):
    """Copy of fn whose block graph (succ/term) can be edited; events are shared."""
    import copy as _copy
    g = _copy.copy(fn)
    g.blocks = {}
    for b, blk in fn.blocks.items():
        nb = _copy.copy(blk)
        nb.succ = list(blk.succ)
        nb.term = dict(blk.term) if blk.term else None
        g.blocks[b] = nb
    g._preds = None
    return g


def force_edges(fn, pred_edge):
    """Clone with every conditional edge for which pred_edge(block, succ index,
    atoms) is False removed."""
    g = clone_cfg(fn)
    for b, blk in g.blocks.items():
        if blk.term and blk.term.get('cond') is not None and len(blk.succ) == 2 \
                and blk.term.get('cls') not in ('SwitchStmt', 'MethodDispatch'):
            keep = []
            for si in (0, 1):
                if pred_edge(blk, si, norm_cond(blk.term['cond'], si == 0)) is not False:
                    keep.append(si)
            if len(keep) == 1:
                blk.succ = [blk.succ[keep[0]]]
                blk.term = dict(blk.term, cls='Forced')
                blk.term.pop('cond', None)
    return g


def list_empty_test(atom, member_key=None, canon_arg=None):
    """If atom is a truth test of iv_list_empty(&X) returns 'empty'/'nonempty'
    for X matching member_key (record, field) or canon string."""
    (op, lc, rc, l, r) = atom
    c = strip(l)
    if not (isinstance(c, dict) and c.get('k') == 'call' and c.get('callee') == 'iv_list_empty' and rc == '0'):
        return None
    a = strip(c['args'][0])
    if member_key is not None:
        if not (isinstance(a, dict) and a.get('k') == 'addr' and last_member(a['e']) == member_key):
            return None
    if canon_arg is not None and canon(c['args'][0]) != canon_arg:
        return None
    return 'empty' if op == '!=' else 'nonempty'
