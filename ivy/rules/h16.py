"""Helpers of C16: a shape interpreter that evaluates the *public* AVL operations.

This is heap.Interp (abstract execution of the CFG facts over a named symbolic
heap; no repository code runs) extended by what whole operations need:

  * calls of any repository function, resolved like the compiler resolves them
    (unit first), evaluated at the call event and consumed where the value is used;
  * indirect calls: the function value is read from the heap; only the comparator
    token installed in the tree object may be called, its outcome is supplied by an
    oracle (the abstract assignment of comparator outcomes: a total order of the
    node names);
  * switch statements, embedded assignments, ++/--, addresses of locals;
  * uninitialised memory: a JUNK value may be copied but never inspected;
  * a log of every heap write (used for purity demands).

On top of it: the families of trees (every AVL shape up to a height; the state
graph reachable from the empty tree over K keys), the audit of a heap against the
expected in-order sequence, and the runners for insert / delete / traversal.
Nothing in here mentions a local variable or a static function of iv_avl.c.
"""
from ..core import AnalysisBroken, canon, strip
from ..heap import Heap, Stuck, NULL

TREE = ('iv_avl_tree', 'iv_avl_node')


class _Junk:
    def __repr__(self):
        return 'JUNK'


JUNK = _Junk()          # uninitialised memory: may be copied, must not be inspected


def _say(what):
    return canon(what) if isinstance(what, dict) else str(what)


class Frame:
    """locals of one activation (identity matters for addresses of locals)"""
    __slots__ = ('vars', 'fn', 'conds')

    def __init__(self, fn):
        self.vars = {}
        self.fn = fn
        self.conds = []       # outcomes of `c ? a : b` decided by the CFG, not yet consumed by the expression that uses the value


class Ref:
    __slots__ = ('kind', 'a', 'b')

    def __init__(self, kind, a, b=None):
        self.kind, self.a, self.b = kind, a, b


def clone(H):
    G = Heap()
    G.nodes = {k: dict(v) for k, v in H.nodes.items()}
    G.cells = dict(H.cells)
    return G


class Machine:
    def __init__(self, prog, heap, oracle=None, max_steps=60000):
        self.prog = prog
        self.heap = heap
        self.oracle = oracle          # oracle(machine, fnvalue, args) -> int
        self.steps = 0
        self.max_steps = max_steps
        self.writes = []              # (node, field, old, new, loc)
        self.indirect = []            # (fnvalue, args, loc)
        self.calls = []               # names of repository functions entered
        self.pending = {}             # (callee, loc) -> value of a call evaluated at its event
        self.code = Code.of(prog)

    # -- lvalues ------------------------------------------------------------
    def lval(self, e, fr):
        e = strip(e)
        k = e.get('k')
        if k == 'var':
            if e.get('vk') in ('global', 'staticlocal'):
                raise Stuck('global variable %s' % e['name'])
            return Ref('local', fr, e['name'])
        if k == 'member':
            if e['arrow']:
                base = self.rval(e['base'], fr)
                return self._field(base, e['field'], e)
            b = strip(e['base'])
            if isinstance(b, dict) and b.get('k') == 'deref':      # (*p).f
                return self._field(self.rval(b['e'], fr), e['field'], e)
            if isinstance(b, dict) and b.get('k') == 'var' and b.get('vk') in ('local', 'param'):
                return Ref('sfield', (fr, b['name']), e['field'])   # field of a by-value local struct
            raise Stuck('member of a by-value object %s' % canon(e))
        if k == 'deref':
            p = self.rval(e['e'], fr)
            return self._target(p, e)
        if k == 'index':
            b = strip(e['base'])
            if isinstance(b, dict) and b.get('k') == 'var' and '[' in str(b.get('type', '')):
                bv = ('localref', fr, (b['name'], 0))               # a local array
            else:
                bv = self.rval(e['base'], fr)
            i = self.num(self.rval(e['idx'], fr), e)
            if isinstance(bv, tuple) and bv[0] == 'localref' and isinstance(bv[2], tuple):
                j = bv[2][1] + i
                if j < 0 or ('bound' in e and j >= e['bound']):
                    raise Stuck('array index %d out of bounds in %s' % (j, canon(e)))
                return Ref('local', bv[1], (bv[2][0], j))
            raise Stuck('array access %s' % canon(e))
        raise Stuck('not an lvalue: %s' % canon(e))

    def _field(self, base, field, e):
        if base is NULL:
            raise Stuck('NULL dereference evaluating %s' % canon(e))
        if base is JUNK:
            raise Stuck('uninitialised pointer dereferenced in %s' % canon(e))
        if not isinstance(base, str):
            raise Stuck('member access through %r in %s' % (base, canon(e)))
        return Ref('field', base, field)

    def _target(self, p, e):
        if isinstance(p, tuple) and p[0] == 'fieldref':
            return Ref('field', p[1], p[2])
        if isinstance(p, tuple) and p[0] == 'cellref':
            return Ref('cell', p[1])
        if isinstance(p, tuple) and p[0] == 'localref':
            return Ref('local', p[1], p[2])
        if isinstance(p, str) and p in self.heap.nodes:
            return Ref('obj', p)                                   # the whole object: `*a = *b`
        if p is NULL:
            raise Stuck('NULL dereference evaluating %s' % canon(e))
        if p is JUNK:
            raise Stuck('uninitialised pointer dereferenced in %s' % canon(e))
        raise Stuck('dereference of %r in %s' % (p, canon(e)))

    def load(self, ref):
        if ref.kind == 'local':
            if ref.b not in ref.a.vars:
                return JUNK
            return ref.a.vars[ref.b]
        if ref.kind == 'cell':
            return self.heap.cells[ref.a]
        if ref.kind == 'sfield':
            v = ref.a[0].vars.get(ref.a[1])
            if not (isinstance(v, tuple) and v[0] == 'struct'):
                return JUNK
            return v[1].get(ref.b, JUNK)
        n = self.heap.nodes.get(ref.a)
        if n is None:
            raise Stuck('unknown object %s' % ref.a)
        if ref.kind == 'obj':
            return ('struct', dict(n))
        if ref.b not in n:
            raise Stuck('field %s of %s not modelled' % (ref.b, ref.a))
        return n[ref.b]

    def store(self, ref, v, loc=None):
        if ref.kind == 'local':
            if isinstance(v, tuple) and v[0] == 'struct':
                v = ('struct', dict(v[1]))
            ref.a.vars[ref.b] = v
        elif ref.kind == 'cell':
            self.writes.append(('cell', ref.a, self.heap.cells.get(ref.a), v, loc))
            self.heap.cells[ref.a] = v
        elif ref.kind == 'sfield':
            cur = ref.a[0].vars.get(ref.a[1])
            if not (isinstance(cur, tuple) and cur[0] == 'struct'):
                cur = ('struct', {})
                ref.a[0].vars[ref.a[1]] = cur
            cur[1][ref.b] = v
        elif ref.kind == 'obj':
            if not (isinstance(v, tuple) and v[0] == 'struct'):
                raise Stuck('whole-object store of %r into %s' % (v, ref.a))
            n = self.heap.nodes[ref.a]
            if set(v[1]) != set(n):
                raise Stuck('object copy between different record types into %s' % ref.a)
            for fld in sorted(n):
                self.writes.append((ref.a, fld, n[fld], v[1].get(fld, JUNK), loc))
                n[fld] = v[1].get(fld, JUNK)
        else:
            n = self.heap.nodes.get(ref.a)
            if n is None or ref.b not in n:
                raise Stuck('store to unmodelled field %s of %s' % (ref.b, ref.a))
            self.writes.append((ref.a, ref.b, n[ref.b], v, loc))
            n[ref.b] = v

    # -- rvalues ------------------------------------------------------------
    @staticmethod
    def num(v, what):
        if v is JUNK:
            raise Stuck('uninitialised value used in %s' % _say(what))
        if isinstance(v, bool) or not isinstance(v, int):
            raise Stuck('arithmetic on a pointer in %s' % _say(what))
        return v

    @staticmethod
    def truth(v, what='condition'):
        if v is JUNK:
            raise Stuck('uninitialised value tested in %s' % _say(what))
        return v is not NULL and v != 0

    def rval(self, e, fr):
        e0 = e
        e = strip(e)
        if not isinstance(e, dict):
            raise Stuck('expression %r' % (e0,))
        k = e.get('k')
        if k == 'int':
            return e['v']
        if k == 'null':
            return NULL
        if k == 'var' and e.get('vk') == 'func':
            return ('func', e['name'])
        if k == 'var' and '[' in str(e.get('type', '')) and e.get('vk') in ('local', 'param'):
            return ('localref', fr, (e['name'], 0))               # array decays to a pointer to its first element
        if k in ('var', 'member', 'deref', 'index'):
            return self.load(self.lval(e, fr))
        if k == 'addr':
            inner = strip(e['e'])
            if isinstance(inner, dict) and inner.get('k') == 'var' and inner.get('vk') == 'func':
                return ('func', inner['name'])
            r = self.lval(e['e'], fr)
            if r.kind == 'cell':
                return ('cellref', r.a)
            if r.kind == 'field':
                return ('fieldref', r.a, r.b)
            if r.kind == 'obj':
                return r.a
            if r.kind == 'sfield':
                raise Stuck('address of a field of a local struct')
            return ('localref', r.a, r.b)
        if k == 'un':
            v = self.rval(e['e'], fr)
            if e['op'] == '!':
                return int(not self.truth(v, e))
            if e['op'] == '-':
                return -self.num(v, e)
            if e['op'] == '+':
                return self.num(v, e)
            if e['op'] == '~':
                return ~self.num(v, e)
        if k == 'bin':
            op = e['op']
            if op == '&&':
                return int(self.truth(self.rval(e['l'], fr), e) and self.truth(self.rval(e['r'], fr), e))
            if op == '||':
                return int(self.truth(self.rval(e['l'], fr), e) or self.truth(self.rval(e['r'], fr), e))
            if op == ',':
                self.rval(e['l'], fr)
                return self.rval(e['r'], fr)
            a, b = self.rval(e['l'], fr), self.rval(e['r'], fr)
            if op in ('==', '!='):
                if a is JUNK or b is JUNK:
                    raise Stuck('uninitialised value compared in %s' % canon(e))
                za = a is NULL or (isinstance(a, int) and a == 0)
                zb = b is NULL or (isinstance(b, int) and b == 0)
                same = (za and zb) or (not za and not zb and type(a) == type(b) and a == b)
                return int(same == (op == '=='))
            a, b = self.num(a, e), self.num(b, e)
            if op == '+':
                return a + b
            if op == '-':
                return a - b
            if op == '*':
                return a * b
            if op == '<':
                return int(a < b)
            if op == '>':
                return int(a > b)
            if op == '<=':
                return int(a <= b)
            if op == '>=':
                return int(a >= b)
            if op == '&':
                return a & b
            if op == '|':
                return a | b
            if op == '^':
                return a ^ b
            if op == '<<':
                return a << b
            if op == '>>':
                return a >> b
            if op in ('/', '%'):
                if b == 0:
                    raise Stuck('division by zero in %s' % canon(e))
                q = abs(a) // abs(b) * (1 if (a < 0) == (b < 0) else -1)
                return q if op == '/' else a - q * b
            raise Stuck('operator %s' % op)
        if k == 'cond':
            # the CFG already decided which arm ran (and ran the calls in it): re-reading the condition now could see a heap
            # that the arm has changed
            if fr.conds:
                return self.rval(e['a'] if fr.conds.pop(0) else e['b'], fr)
            return self.rval(e['a'] if self.truth(self.rval(e['c'], fr), e) else e['b'], fr)
        if k == 'assign':
            # the store itself is an event of its own that precedes every use of the expression's value
            return self.load(self.lval(e['l'], fr))
        if k == 'incdec':
            v = self.load(self.lval(e['e'], fr))
            if e.get('prefix'):
                return v
            return self.num(v, e) - (1 if e['op'] == '++' else -1)
        if k == 'call':
            key = (e.get('callee'), e.get('loc'))
            if key in self.pending:
                return self.pending.pop(key)
            return self.do_call(e, fr)
        raise Stuck('cannot evaluate %s' % canon(e))

    # -- calls ----------------------------------------------------------------
    def do_call(self, e, fr):
        argfns, fnexpr = self.code.call(e)
        args = [a(self, fr) for a in argfns]
        if fnexpr is None:
            return self.call(e['callee'], args, caller=fr.fn)
        fv = fnexpr(self, fr)
        self.indirect.append((fv, args, e.get('loc')))
        if isinstance(fv, tuple) and fv[0] == 'func':
            return self.call(fv[1], args, caller=fr.fn)
        if self.oracle is None:
            raise Stuck('indirect call through %s' % canon(e['fnexpr']))
        return self.oracle(self, fv, args, e)

    def resolve(self, name, caller=None):
        cache = self.prog.__dict__.setdefault('_h16_resolve', {})
        key = (name, caller.q if caller is not None else None)
        if key in cache:
            return cache[key]
        f = None
        if caller is not None:
            u = self.prog.unit_of(caller)
            if u:
                f = self.prog.resolve(u, name)
        if f is None:
            f = self.prog.funcs.get(name)
        if f is None:
            c = [x for x in self.prog.funcs.values() if x.name == name]
            f = c[0] if len(c) == 1 else None
        cache[key] = f
        return f

    def call(self, name, args, caller=None):
        f = name if not isinstance(name, str) else self.resolve(name, caller)
        if f is None or not f.blocks:
            raise Stuck('call of %s, which is not a repository function' % name)
        self.calls.append(f.q)
        if len(args) != len(f.params):
            raise Stuck('call of %s with %d arguments' % (f.name, len(args)))
        code = self.code.fn(f)
        fr = Frame(f)
        vars_ = fr.vars
        for p, a in zip(f.params, args):
            vars_[p['name']] = a
        b = f.entry
        arms = code['arms']
        conds = fr.conds
        while True:
            steps, term = code[b]
            if b in arms:
                conds.append(arms[b])
            self.steps += len(steps) + 1
            if self.steps > self.max_steps:
                raise Stuck('%s: interpretation does not terminate (cycle in the heap or runaway loop)' % f.name)
            for st in steps:
                kind = st[0]
                if kind == 0:                     # plain store  lhs = rhs
                    st[1](self, fr, st[2](self, fr), st[3])
                    if conds:
                        del conds[:]
                elif kind == 1:                   # call event
                    v = self.do_call(st[1], fr)
                    if st[2]:
                        self.pending[st[3]] = v
                    elif conds:
                        del conds[:]
                elif kind == 2:                   # return
                    return st[1](self, fr) if st[1] is not None else None
                elif kind == 3:                   # declaration without initialiser
                    vars_.pop(st[1], None)
                elif kind == 4:                   # declaration with initialiser
                    vars_[st[1]] = st[2](self, fr)
                    if conds:
                        del conds[:]
                elif kind == 5:                   # ++ / -- / op=
                    e = st[1]
                    ref = self.lval(e['lhs'], fr)
                    if e['op'] in ('++', '--'):
                        v = self.num(self.load(ref), e['lhs']) + (1 if e['op'] == '++' else -1)
                    else:
                        bop = {'k': 'bin', 'op': e['op'][:-1], 'l': {'k': 'int', 'v': self.num(self.load(ref), e['lhs'])},
                               'r': {'k': 'int', 'v': self.num(self.rval(e['rhs'], fr), e['lhs'])}}
                        v = self.rval(bop, fr)
                    self.store(ref, v, e.get('loc'))
                else:
                    raise Stuck(st[1])
            mode = term[0]
            if mode == 1:
                b = term[1]
            elif mode == 2:
                b = term[2] if self.truth(term[1](self, fr), term[4]) else term[3]
                if conds and term[5]:
                    del conds[:]
            elif mode == 0:
                return None
            elif mode == 3:
                v = term[1](self, fr)
                if v is NULL:
                    v = 0
                v = self.num(v, 'switch')
                nxt = [s_ for s_, cv in term[2] if cv == v] or [s_ for s_, cv in term[2] if cv == 'default']
                if not nxt:
                    raise Stuck('switch without arm for %s in %s' % (v, f.name))
                b = nxt[0]
            else:
                raise Stuck(term[1])
            if b is None:
                return None


class Code:
    """the facts of a program compiled to closures (one per expression / event), cached on the program.
    Constructs without a specialised closure fall back to the tree-walking Machine.rval / lval, so the
    semantics are those of the interpreter above."""

    def __init__(self, prog):
        self.prog = prog
        self._rv = {}
        self._st = {}
        self._fn = {}
        self._call = {}
        self._keep = []          # compiled expression objects stay alive (ids are cache keys)

    @staticmethod
    def of(prog):
        c = prog.__dict__.get('_h16_code')
        if c is None:
            c = prog.__dict__['_h16_code'] = Code(prog)
        return c

    # -- functions -------------------------------------------------------------
    def fn(self, f):
        code = self._fn.get(id(f))
        if code is not None:
            return code
        self._keep.append(f)
        code = {}
        arms = code['arms'] = {}
        for bid, blk in f.blocks.items():
            steps = []
            for e in blk.events:
                ev = e['ev']
                if ev == 'load':
                    continue
                if ev == 'decl':
                    if 'init' in e:
                        if isinstance(e['init'], dict) and e['init'].get('k') in ('init', 'compound', 'str'):
                            steps.append((9, 'aggregate local %s' % e['name']))
                        else:
                            steps.append((4, e['name'], self.rv(e['init'])))
                    else:
                        steps.append((3, e['name']))
                elif ev == 'store':
                    if e['op'] == '=':
                        steps.append((0, self.st(e['lhs']), self.rv(e['rhs']), e.get('loc')))
                    else:
                        steps.append((5, e))
                elif ev == 'call':
                    steps.append((1, e, bool(e.get('used')), (e.get('callee'), e.get('loc'))))
                elif ev == 'ret':
                    steps.append((2, self.rv(e['value']) if 'value' in e else None))
            if blk.noreturn:
                term = (9, 'fatal path reached in %s' % f.name)
            elif not blk.succ:
                term = (0,)
            else:
                live = [x for x in blk.succ if x is not None]
                c = blk.term.get('cond') if blk.term else None
                if len(blk.succ) == 1:
                    term = (1, blk.succ[0])
                elif c is None and len(live) == 1:
                    term = (1, live[0])             # `for (;;)`: the exit edge does not exist
                elif c is None:
                    term = (9, 'branch without condition in %s' % f.name)
                elif blk.term.get('cls') == 'SwitchStmt':
                    term = (3, self.rv(c), list(zip(blk.succ, blk.term.get('cases', []))))
                elif len(blk.succ) == 2:
                    # a statement-level test consumes every pending ?: outcome; the tests inside an expression do not
                    term = (2, self.rv(c), blk.succ[0], blk.succ[1], c,
                            blk.term.get('cls') not in ('ConditionalOperator', 'BinaryOperator', 'BinaryConditionalOperator'))
                    if blk.term.get('cls') == 'ConditionalOperator' and blk.succ[0] != blk.succ[1]:
                        arms[blk.succ[0]] = True
                        arms[blk.succ[1]] = False
                else:
                    term = (9, '%d-way branch in %s' % (len(blk.succ), f.name))
            code[bid] = (steps, term)
        self._fn[id(f)] = code
        return code

    # -- rvalues -----------------------------------------------------------------
    def rv(self, e):
        c = self._rv.get(id(e))
        if c is None:
            self._keep.append(e)
            c = self._rv[id(e)] = self._crv(e)
        return c

    def _crv(self, e0):
        e = strip(e0)
        if not isinstance(e, dict):
            return lambda m, fr: m.rval(e0, fr)
        k = e.get('k')
        if k == 'int':
            v = e['v']
            return lambda m, fr: v
        if k == 'null':
            return lambda m, fr: NULL
        if k == 'var' and e.get('vk') in ('local', 'param') and '[' not in str(e.get('type', '')):
            name = e['name']
            return lambda m, fr: fr.vars.get(name, JUNK)
        if k == 'member' and e['arrow']:
            base, fld = self.rv(e['base']), e['field']

            def ld(m, fr):
                b = base(m, fr)
                n = m.heap.nodes.get(b) if b.__class__ is str else None
                if n is None or fld not in n:
                    return m.load(m._field(b, fld, e))
                return n[fld]
            return ld
        if k == 'deref':
            ptr = self.rv(e['e'])
            return lambda m, fr: m.load(m._target(ptr(m, fr), e))
        if k == 'addr':
            inner = strip(e['e'])
            if isinstance(inner, dict) and inner.get('k') == 'member' and inner['arrow']:
                base, fld = self.rv(inner['base']), inner['field']

                def ad(m, fr):
                    b = base(m, fr)
                    if b.__class__ is not str:
                        m._field(b, fld, inner)
                    return ('fieldref', b, fld)
                return ad
            return lambda m, fr: m.rval(e, fr)
        if k == 'un' and e['op'] in ('!', '-'):
            a = self.rv(e['e'])
            if e['op'] == '!':
                return lambda m, fr: int(not m.truth(a(m, fr), e))
            return lambda m, fr: -m.num(a(m, fr), e)
        if k == 'bin':
            op = e['op']
            l, r = self.rv(e['l']), self.rv(e['r'])
            if op == '&&':
                return lambda m, fr: int(m.truth(l(m, fr), e) and m.truth(r(m, fr), e))
            if op == '||':
                return lambda m, fr: int(m.truth(l(m, fr), e) or m.truth(r(m, fr), e))
            if op in ('==', '!='):
                want = op == '=='

                def eq(m, fr):
                    a, b = l(m, fr), r(m, fr)
                    if a is JUNK or b is JUNK:
                        raise Stuck('uninitialised value compared in %s' % canon(e))
                    za = a is NULL or (a.__class__ is int and a == 0)
                    zb = b is NULL or (b.__class__ is int and b == 0)
                    same = (za and zb) or (not za and not zb and type(a) == type(b) and a == b)
                    return int(same == want)
                return eq
            import operator
            fns = {'+': operator.add, '-': operator.sub, '<': operator.lt, '>': operator.gt, '<=': operator.le, '>=': operator.ge}
            if op in fns:
                g = fns[op]
                return lambda m, fr: int(g(m.num(l(m, fr), e), m.num(r(m, fr), e)))
            return lambda m, fr: m.rval(e, fr)
        if k == 'cond':
            c, a, b = self.rv(e['c']), self.rv(e['a']), self.rv(e['b'])

            def cnd(m, fr):
                if fr.conds:
                    return a(m, fr) if fr.conds.pop(0) else b(m, fr)
                return a(m, fr) if m.truth(c(m, fr), e) else b(m, fr)
            return cnd
        if k == 'call':
            key = (e.get('callee'), e.get('loc'))

            def cl(m, fr):
                if key in m.pending:
                    return m.pending.pop(key)
                return m.do_call(e, fr)
            return cl
        return lambda m, fr: m.rval(e, fr)

    # -- stores ------------------------------------------------------------------
    def st(self, lhs):
        c = self._st.get(id(lhs))
        if c is None:
            self._keep.append(lhs)
            c = self._st[id(lhs)] = self._cst(lhs)
        return c

    def _cst(self, lhs):
        e = strip(lhs)
        k = e.get('k') if isinstance(e, dict) else None
        if k == 'var' and e.get('vk') in ('local', 'param') and '[' not in str(e.get('type', '')):
            name = e['name']

            def stv(m, fr, v, loc):
                if v.__class__ is tuple and v[0] == 'struct':
                    v = ('struct', dict(v[1]))
                fr.vars[name] = v
            return stv
        if k == 'member' and e['arrow']:
            base, fld = self.rv(e['base']), e['field']

            def stf(m, fr, v, loc):
                b = base(m, fr)
                n = m.heap.nodes.get(b) if b.__class__ is str else None
                if n is None or fld not in n:
                    return m.store(m._field(b, fld, e), v, loc)
                m.writes.append((b, fld, n[fld], v, loc))
                n[fld] = v
            return stf
        return lambda m, fr, v, loc: m.store(m.lval(lhs, fr), v, loc)

    # -- calls ---------------------------------------------------------------------
    def call(self, e):
        c = self._call.get(id(e))
        if c is None:
            self._keep.append(e)
            c = self._call[id(e)] = ([self.rv(a) for a in e.get('args', [])], self.rv(e['fnexpr']) if not e.get('callee') else None)
        return c


# --------------------------------------------------------------------------
# trees
# --------------------------------------------------------------------------

def avl_shapes(h, _memo={}):
    """every AVL shape of height exactly h as nested tuples (left, right); None is the empty tree"""
    if h in _memo:
        return _memo[h]
    if h <= 0:
        out = [None]
    elif h == 1:
        out = [(None, None)]
    else:
        a, b = avl_shapes(h - 1), avl_shapes(h - 2)
        out = [(l, r) for l in a for r in a] + [(l, r) for l in a for r in b] + [(l, r) for l in b for r in a]
    _memo[h] = out
    return out


def fib_shapes(h, _memo={}):
    """the sparsest AVL shapes of height h (every inner node has balance +-1)"""
    if h in _memo:
        return _memo[h]
    if h <= 0:
        out = [None]
    elif h == 1:
        out = [(None, None)]
    else:
        a, b = fib_shapes(h - 1), fib_shapes(h - 2)
        out = [(l, r) for l in a for r in b] + [(l, r) for l in b for r in a]
    _memo[h] = out
    return out


def size(t):
    return 0 if t is None else 1 + size(t[0]) + size(t[1])


def build_tree(shape, names=None):
    """Heap holding the tree object 'T' and the nodes of `shape`, named in in-order
    (n0 < n1 < ...): exact heights, consistent parents.  Returns (heap, in-order names)."""
    H = Heap()
    order = []
    cnt = [0]

    def mk(t, parent_slot):
        if t is None:
            return NULL, 0
        me = {}
        l, hl = mk(t[0], me)
        name = names[cnt[0]] if names else 'n%d' % cnt[0]
        cnt[0] += 1
        order.append(name)
        me['name'] = name
        r, hr = mk(t[1], me)
        H.node(name, left=l, right=r, parent=NULL, height=1 + max(hl, hr))
        for c in (l, r):
            if c is not NULL:
                H.nodes[c]['parent'] = name
        return name, 1 + max(hl, hr)

    root, _ = mk(shape, None)
    H.node('T', root=root, compare=('cmp', 'T'))
    return H, order


def shape_of(H, x):
    if x is NULL:
        return None
    n = H.nodes[x]
    return (shape_of(H, n['left']), shape_of(H, n['right']))


DEMANDS = ('order', 'links', 'heights', 'balance')


def audit(H, expected, tree='T'):
    """Compare the heap with the expected in-order sequence.  Returns {demand: [problems]}:
       order   -- the nodes reachable from the root, in order, are exactly `expected`
       links   -- root's parent is NULL, every child's parent points back, no node is reachable twice,
                  no JUNK in a reachable node
       heights -- every recorded height is 1 + max(children)
       balance -- subtree heights differ by at most one everywhere"""
    out = {d: [] for d in DEMANDS}
    seq = []
    seen = set()

    def walk(x, parent, via):
        if x is NULL:
            return 0
        if x is JUNK or not isinstance(x, str) or x not in H.nodes or x == tree:
            out['links'].append('%s holds %r, which is not a node' % (via, x))
            return 0
        if x in seen:
            out['links'].append('%s reaches %s a second time (cycle or shared subtree)' % (via, x))
            return 0
        seen.add(x)
        n = H.nodes[x]
        if n['parent'] is JUNK or n['parent'] != parent:
            out['links'].append('%s->parent is %s, its parent is %s' % (x, n['parent'], parent))
        hl = walk(n['left'], x, '%s->left' % x)
        seq.append(x)
        hr = walk(n['right'], x, '%s->right' % x)
        h = 1 + max(hl, hr)
        if n['height'] is JUNK or n['height'] != h:
            out['heights'].append('%s->height is recorded as %s, the subtree has height %d' % (x, n['height'], h))
        if abs(hl - hr) > 1:
            out['balance'].append('%s is unbalanced: left height %d, right height %d' % (x, hl, hr))
        return h

    walk(H.nodes[tree]['root'], NULL, 'tree->root')
    if seq != list(expected):
        out['order'].append('in-order sequence is %s, expected %s' % (' '.join(seq) or '(empty)', ' '.join(expected) or '(empty)'))
    return out


def rank_oracle(rank, token=('cmp', 'T'), lo=-5, hi=9):
    """comparator outcomes as an abstract assignment: a total pre-order of the node names.
    Results are deliberately not -1/+1: only the sign is part of the comparator contract."""
    def oracle(m, fv, args, e):
        if fv != token:
            raise Stuck('indirect call through %r, which is not the comparator installed in the tree' % (fv,))
        if len(args) != 2 or any(a not in rank for a in args):
            raise Stuck('comparator called with %r' % (args,))
        a, b = rank[args[0]], rank[args[1]]
        return 0 if a == b else (lo if a < b else hi)
    return oracle


class Result:
    __slots__ = ('ret', 'stuck', 'heap', 'machine', 'problems')


def run_op(prog, fname, H, args, rank=None):
    """evaluate one public operation on a private copy of H"""
    G = clone(H)
    m = Machine(prog, G, oracle=rank_oracle(rank) if rank is not None else None)
    r = Result()
    r.heap, r.machine, r.stuck, r.ret = G, m, None, None
    try:
        r.ret = m.call(fname, args)
    except Stuck as s:
        r.stuck = str(s)
    except RecursionError:
        r.stuck = 'unbounded recursion'
    return r


def public_fn(prog, name):
    f = prog.fn(name)
    if not f.blocks:
        raise AnalysisBroken('%s has no body' % name)
    return f
