"""C02 — descriptor readiness is never lost.

The behavioural statement needs the kernel's ground truth: not decided.  Claimed
are necessary structural clauses (DESIGN §3 C02).
"""
import re
from ..core import (names_of, same_value, AnalysisBroken, Inliner, canon, strip, last_member, must_pass, relpath, norm_cond, walk, forward)
from ..analyses import (is_call, holding, path_to, describe, exits_of, callback_kind, loops, innermost_loop,
                        delta_analysis, is_fail, must_pass_from_block)
from .. import interp
from . import c06

MASKIN, MASKOUT, MASKERR = 1, 2, 4
IN, OUT, ERR, HUP = 1, 4, 8, 16     # EPOLL* == POLL* on Linux
HANDLER_FIELDS = {'handler_in': MASKIN, 'handler_out': MASKOUT, 'handler_err': MASKERR}


def is_method_notify(e):
    return e['ev'] == 'call' and callback_kind(e) in (('method', 'notify_fd'), ('method', 'notify_fd_sync'))


def run(ctx):
    ctx.rule('R-C02a', 'every change of a registered descriptor\'s handlers / registered flag reaches the poll method: the store is '
                       'followed on every path to a normal return by the method\'s notify_fd or notify_fd_sync; handlers set '
                       'through the public type inside the library are followed by iv_fd_register of that object', floor=6)
    ctx.rule('R-C02b', 'wanted bands are exactly the bands of the non-NULL handlers of a registered descriptor (16 abstract states)', floor=16)
    ctx.rule('R-C02c', 'deferred kernel updates are flushed before every wait: at the wait primitive the notify list is empty on every path; '
                       'registered_bands is updated only on the success edge of the kernel call', floor=3)
    ctx.rule('R-C02d', 'request and report tables agree in every method: each wanted band requests its primary event; reported bands '
                       'are IN<-{IN,ERR,HUP}, OUT<-{OUT,ERR,HUP}, ERR<-{ERR,HUP}', floor=12)
    ctx.rule('R-C02e', 'zero timeout while tasks are pending (shared with C06)', floor=1)
    ctx.rule('R-C02f', 'poll-array compaction keeps the moved descriptor\'s request: the vacated slot receives the whole last entry '
                       '(or at least its fd and events), the moved descriptor\'s index and back-pointer are updated', floor=3)
    ctx.section(compaction)
    ctx.section(notify)
    ctx.section(wanted)
    ctx.section(flush)
    ctx.section(tables)
    ctx.section(zero)


def compaction(ctx):
    prog = ctx.prog
    done = set()
    for t, slots in sorted(prog.method_tables().items()):
        if not (slots.get('register_fd') and not slots.get('unregister_fd')):
            continue
        f = prog.resolve(*slots['notify_fd'])
        if f.q in done:
            continue
        done.add(f.q)
        # the removal arm: stores into pfds[<fd's index>] whose value comes from the last occupied entry
        st = [e for e in f.events() if e['ev'] == 'store' and 'pfds[' in canon(e['lhs']) and 'u.index]' in canon(e['lhs'])
              and ('num_regd_fds]' in canon(e.get('rhs', {})) or 'last' in canon(e.get('rhs', {})) or canon(e.get('rhs', {})) == '0')]
        whole = [e for e in st if canon(e['lhs']).endswith(']') and canon(e['rhs']).endswith('num_regd_fds]') and 'pfds[' in canon(e['rhs'])]
        fields = {canon(e['lhs']).rsplit('.', 1)[-1] for e in st if not canon(e['lhs']).endswith(']')}
        ok = bool(whole) or {'fd', 'events'} <= fields
        ctx.ob('R-C02f', '%s:moved-entry-complete' % f.name, ok, loc=(st or [{'loc': f.loc}])[0]['loc'],
               detail='swap-remove of a pollfd slot copies %s' % ('the whole last entry' if whole else 'only the fields %s of the last entry (fd and events are needed: '
                      'otherwise the moved descriptor is polled with the removed descriptor\'s event mask)' % sorted(fields)), fn=f.q)
        back = [e for e in f.events() if e['ev'] == 'store' and canon(e['lhs']).endswith('->u.index') and canon(e.get('rhs', {})).endswith('->u.index')]
        ptr = [e for e in f.events() if e['ev'] == 'store' and 'fds[' in canon(e['lhs']) and 'pfds[' not in canon(e['lhs']) and 'u.index]' in canon(e['lhs'])
               and canon(e.get('rhs', {})) not in ('NULL', '0')]
        ctx.ob('R-C02f', '%s:moved-descriptor-index' % f.name, bool(back), loc=f.loc,
               detail='the moved descriptor is given the vacated index', fn=f.q)
        ctx.ob('R-C02f', '%s:moved-descriptor-pointer' % f.name, len(ptr) >= 2, loc=f.loc,
               detail='the descriptor pointer array is updated for both the new and the moved slot', fn=f.q)


def notify(ctx):
    prog = ctx.prog
    n = 0
    for f in sorted(prog.all_funcs(), key=lambda f: f.q):
        if f.static or not f.file.endswith('iv_fd.c'):
            continue
        g = Inliner(prog).inline(f)
        stores = [e for e in g.events() if e['ev'] == 'store' and last_member(e['lhs']) in
                  (('iv_fd_', 'handler_in'), ('iv_fd_', 'handler_out'), ('iv_fd_', 'handler_err'), ('iv_fd_', 'registered'),
                   ('iv_fd_', 'wanted_bands'))]
        if not stores:
            continue
        res = delta_analysis(g, [])
        failing = {id(e) for (e, d, rc, p) in res.rets if e is not None and is_fail(rc)}
        okret = {id(e) for (e, d, rc, p) in res.rets if e is not None and not is_fail(rc)}
        for s in stores:
            n += 1
            fld = last_member(s['lhs'])[1]
            inst = '%s:%s%s' % (f.name, fld, ('=' + canon(s.get('rhs'))) if fld == 'wanted_bands' else '')
            if f.name == 'IV_FD_INIT':
                ctx.exempt('R-C02a', inst, 'initialiser of an unregistered object')
                ctx.ob('R-C02a', inst, True, loc=s['loc'], detail='exempt: initialiser of an unregistered object', fn=f.q)
                continue
            mp = must_pass(g, is_method_notify, start_event=s)
            bad = []
            for (pb, pi, e) in exits_of(g):
                if id(e) in failing and id(e) not in okret:
                    continue     # registration reported failure: nothing is registered
                if mp.get((pb, pi)) is False:
                    bad.append(e)
            if mp.get((g.exit, 0)) is False and g.ret == 'void':
                bad.append(None)
            ctx.ob('R-C02a', inst, not bad, loc=s['loc'],
                   detail='%s is followed by method->notify_fd / notify_fd_sync on every path to a normal return' % describe(s), fn=f.q)
    # public-type handler stores inside the library
    for f in sorted(prog.all_funcs(), key=lambda f: f.q):
        for s in f.events():
            if s['ev'] == 'store' and last_member(s['lhs']) in (('iv_fd', 'handler_in'), ('iv_fd', 'handler_out'), ('iv_fd', 'handler_err')):
                obj = canon(strip(s['lhs'])['base'])
                mp = must_pass(f, lambda e, obj=obj: is_call(e, ('iv_fd_register', 'iv_fd_register_try')) and canon(e['args'][0]) == '&' + obj, start_event=s)
                res = delta_analysis(f, [])
                failing = {id(e) for (e, d, rc, p) in res.rets if e is not None and is_fail(rc)}
                bad = [e for (pb, pi, e) in exits_of(f) if mp.get((pb, pi)) is False and id(e) not in failing]
                n += 1
                ctx.ob('R-C02a', '%s:%s.%s' % (f.name, obj.split('->')[-1], last_member(s['lhs'])[1]), not bad, loc=s['loc'],
                       detail='library-internal descriptor: handler store is followed by iv_fd_register(&%s) on every non-error path' % obj, fn=f.q)
    if n < 8:
        raise AnalysisBroken('handler/registered stores: %d found' % n)


def wanted(ctx):
    prog = ctx.prog
    # the function that stores wanted_bands from the handlers
    cands = [f for f in prog.all_funcs() if any(e['ev'] == 'store' and last_member(e['lhs']) == ('iv_fd_', 'wanted_bands') for e in f.events())
             and any(e['ev'] == 'load' and last_member(e['e']) == ('iv_fd_', 'handler_in') for e in f.events())]
    if len(cands) != 1:
        raise AnalysisBroken('function computing wanted_bands from the handlers: %d candidates' % len(cands))
    f = cands[0]
    obj = None
    for e in f.events():
        if e['ev'] == 'store' and last_member(e['lhs']) == ('iv_fd_', 'wanted_bands'):
            obj = canon(strip(e['lhs'])['base'])
    names = ['%s->registered' % obj] + ['%s->%s' % (obj, h) for h in HANDLER_FIELDS]
    import itertools
    for vals in itertools.product((False, True), repeat=4):
        asg = interp.Assignment(bools=dict(zip(names, vals)))
        stored = []
        def on(e, env):
            if e['ev'] == 'store' and last_member(e['lhs']) == ('iv_fd_', 'wanted_bands'):
                stored.append(interp.evaluate(e['rhs'], asg, env))
        interp.run(f, asg, on_event=on)
        want = 0
        if vals[0]:
            for (h, bit), v in zip(HANDLER_FIELDS.items(), vals[1:]):
                if v:
                    want |= bit
        ok = stored and stored[-1] == want
        ctx.ob('R-C02b', '%s:registered=%d,in=%d,out=%d,err=%d' % ((f.name,) + tuple(int(v) for v in vals)), ok, loc=f.loc,
               detail='stored wanted_bands %s, expected %d' % (stored[-1] if stored else 'nothing', want), fn=f.q)


def flush(ctx):
    prog = ctx.prog
    from . import c01
    tabs = c01.deferring_tables(prog)
    if not tabs:
        raise AnalysisBroken('no deferring poll method')
    for t in tabs:
        f = prog.resolve(*prog.method_tables()[t]['poll'])
        g = Inliner(prog, method_table=t, expand_methods=True, stop=lambda x: x.name in ('iv_event_run_pending_events',)).inline(f)
        hd = holding(g)
        waits = [e for e in g.events() if is_call(e, ('epoll_wait', 'epoll_pwait2', 'poll', 'ppoll'))]
        if not waits:
            raise AnalysisBroken('%s: wait primitive not found' % f.name)
        for w in waits:
            A = hd.get((w['_b'], w['_i']), frozenset())
            ok = any(a[0] == '!=' and a[2] == '0' and a[1].startswith('iv_list_empty(') and a[1].endswith('notify)') for a in A)
            ctx.ob('R-C02c', '%s:%s:notify-list-empty' % (t.replace('iv_fd_poll_method_', ''), w['callee']), ok, loc=w['loc'],
                   detail='at %s the deferred-update list is known empty (flush loop ran to completion)' % w['callee'],
                   path=None if ok else path_to(g, w), fn=f.q)
    # registered_bands stored only on the success edge of the kernel call
    for f in prog.all_funcs():
        if not f.file.endswith('iv_fd_epoll.c'):
            continue
        hd = None
        for e in f.events():
            if e['ev'] == 'store' and last_member(e['lhs']) == ('iv_fd_', 'registered_bands') and any(is_call(x, 'epoll_ctl') for x in f.events()):
                hd = hd or holding(f)
                A = hd.get((e['_b'], e['_i']), frozenset())
                ok = any(a[0] == '==' and a[2] == '0' and all(k[0] == 'var' for k in a[3]) for a in A) \
                    and last_member(e['rhs']) == ('iv_fd_', 'wanted_bands')
                ctx.ob('R-C02c', '%s:registered_bands-on-success' % f.name, ok, loc=e['loc'],
                       detail='registered_bands = wanted_bands only when epoll_ctl returned 0', fn=f.q)


def tables(ctx):
    prog = ctx.prog
    # request side
    for f in sorted(prog.all_funcs(), key=lambda f: f.q):
        if f.name != 'bits_to_poll_mask':
            continue
        isepoll = f.file.endswith('iv_fd_epoll.c')
        p = f.params[0]['name']
        for bits in range(8):
            res = interp.run(f, interp.Assignment(), env={p: bits})
            mask = res['ret']
            need = 0
            if bits & MASKIN:
                need |= IN
            if bits & MASKOUT:
                need |= OUT
            if not isepoll and bits & MASKERR:
                need |= HUP
            ok = isinstance(mask, int) and (mask & need) == need and (bits != 0 or mask == 0)
            ctx.ob('R-C02d', '%s:request(bits=%d)' % (relpath(f.file).split('/')[-1], bits), ok, loc=f.loc,
                   detail='requested event mask %s must include %d' % (mask, need), fn=f.q)
    # report side: every make_ready call
    want = {MASKIN: IN | ERR | HUP, MASKOUT: OUT | ERR | HUP, MASKERR: ERR | HUP}
    n = 0
    for f in sorted(prog.all_funcs(), key=lambda f: f.q):
        calls = [e for e in f.events() if is_call(e, 'iv_fd_make_ready')]
        if not calls:
            continue
        hd = holding(f)
        seen = set()
        for e in calls:
            band = strip(e['args'][2])
            if band.get('k') != 'int':
                raise AnalysisBroken('%s: band argument of iv_fd_make_ready is not constant' % f.name)
            A = hd.get((e['_b'], e['_i']), frozenset())
            masks = []
            for a in A:
                m = re.match(r'^\((.+) & (\d+)\)$', a[1])
                if m and a[0] == '!=' and a[2] == '0':
                    masks.append(int(m.group(2)))
            n += 1
            seen.add(band['v'])
            ok = masks and want.get(band['v']) in masks
            ctx.ob('R-C02d', '%s:report(band=%d)' % (f.name, band['v']), bool(ok), loc=e['loc'],
                   detail='band %d is reported under event mask %s, expected %s' % (band['v'], masks, want.get(band['v'])), fn=f.q)
        ctx.ob('R-C02d', '%s:all-bands-reported' % f.name, seen == {MASKIN, MASKOUT, MASKERR}, loc=f.loc,
               detail='bands reported by this activation code: %s' % sorted(seen), fn=f.q)
    if n < 9:
        raise AnalysisBroken('activation sites: %d found, 9 confirmed' % n)


def zero(ctx):
    sub = []
    import types
    proxy = types.SimpleNamespace(prog=ctx.prog, ob=lambda rid, inst, ok, **kw: sub.append((rid, inst, ok, kw)))
    c06.zero_timeout(proxy)
    for rid, inst, ok, kw in sub:
        if rid == 'R-C06b':
            ctx.ob('R-C02e', inst, ok, **kw)
