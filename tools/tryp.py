#!/usr/bin/env python3
"""Developer aid: apply one patch (or corpus entry id) to a scratch copy of the sources and print the
full report of the named checks.  usage: tryp.py <patch.diff | corpus-id> Cxx [Cyy ...] [--keep]"""
import os, sys, shutil, subprocess
HERE = os.path.dirname(os.path.dirname(os.path.abspath(__file__)))
sys.path.insert(0, HERE)
sys.path.insert(0, os.path.join(HERE, 'tools'))
import selftest


def main():
    args = [a for a in sys.argv[1:] if not a.startswith('--')]
    what, props = args[0], args[1:]
    m = None
    if os.path.exists(what):
        m = {'id': 'adhoc', 'patch': os.path.relpath(os.path.abspath(what), HERE), 'kind': 'neutral'}
    else:
        for x in selftest.load_corpus():
            if x['id'] == what:
                m = x
    if m is None:
        print('no such entry'); return 2
    d = selftest.make_scratch()
    try:
        err = selftest.apply_edit(d, m)
        if err:
            print(err); return 2
        err = selftest.syntax_ok(d, m)
        if err:
            print('NOCOMPILE', err); return 2
        env = dict(os.environ, IVY_REPO=d, IVY_EVIDENCE_DIR=os.path.join(d, 'evidence'))
        for p in props or m.get('properties', []):
            r = subprocess.run([os.path.join(HERE, 'check'), p], env=env, capture_output=True, text=True, timeout=900)
            print(r.stdout + r.stderr)
        if '--keep' in sys.argv:
            print('kept', d); d = None
    finally:
        if d:
            shutil.rmtree(d, ignore_errors=True)


if __name__ == '__main__':
    sys.exit(main())
