"""C13 — pool shutdown and iv_thread lifetime: drain, paired hooks, join, release.

All rules are evaluated in *calling contexts* (entry points of the library -- exported functions, installed handlers,
thread bodies, key destructors -- with every static helper inlined) and anchored on roles and sites, never on the name
of a static function or of a variable:
  worker death      = the site that decrements work_pool_priv.started_threads
  worker birth      = the site that increments it / the call of iv_thread_create
  thread body       = the function passed to iv_thread_create / pthr_create
  died handler      = the function stored into iv_thread.dead.handler
  exit destructor   = the function passed to pthr_key_create
  pool free         = free() of a work_pool_priv that other code can still reach
See h13.py for the analyses.
"""
from ..core import (names_of, same_value, AnalysisBroken, Inliner, canon, strip, last_member, must_pass, relpath, norm_cond, walk, forward,
                    lvalue_steps, root_var, is_int, is_null)
from ..analyses import (is_call, holding, path_to, describe, exits_of, callback_kind, loops, innermost_loop,
                        locksets, held, force_edges, list_empty_test, must_pass_from_block, atoms_reading, lock_effect)
from . import h13
from .h13 import POOL, lm_arg, INT0

# embedded object record -> (register function, unregister/destroy function)
EMBEDDED = {
    'iv_event': ('iv_event_register', 'iv_event_unregister'),
    'iv_timer': ('iv_timer_register', 'iv_timer_unregister'),
    'iv_task': ('iv_task_register', 'iv_task_unregister'),
    'iv_fd': ('iv_fd_register', 'iv_fd_unregister'),
    'iv_wait_interest': ('iv_wait_interest_register', 'iv_wait_interest_unregister'),
    'iv_signal': ('iv_signal_register', 'iv_signal_unregister'),
    'iv_event_raw': ('iv_event_raw_register', 'iv_event_raw_unregister'),
    'pthread_mutex_t': ('___mutex_init', '___mutex_destroy'),
}
# Design invariants (by record and field, not by function): a timer that is registered exactly while its object is
# linked through the named list head.  The invariant itself is an obligation of R-C13a (checked inductively per context).
PAIRED = {
    'work_pool_thread': ('idle_timer', 'list'),
}
# kept for importers; the former function-name keyed exemptions are now derived (fresh object / failed hand-off /
# timer-iff-on-list invariant) instead of being granted
CONTAINER_EXEMPT = {}

PRIV, THR, ITHR = 'work_pool_priv', 'work_pool_thread', 'iv_thread'
K_STARTED = ('field', PRIV, 'started_threads')
K_SHUT = ('field', PRIV, 'shutting_down')
K_HEAD = ('field', PRIV, 'seq_head')
K_TAIL = ('field', PRIV, 'seq_tail')
K_KICKED = ('field', THR, 'kicked')
K_DONE_EMPTY = ('empty', PRIV, 'work_done')


def run(ctx):
    ctx.rule('R-C13a', 'CONTAINER-FREE: a record embedding library objects is freed only after every embedded object that may '
                       'be registered was unregistered (mutex: destroyed) on every path of every calling context; a timer paired with a list '
                       'linkage is registered exactly while its object is linked', floor=12)
    ctx.rule('R-C13b', 'the pool is freed only when drained: under shutting_down, with started_threads == 0 and the done queue empty, '
                       'both read under the pool lock; unlock precedes destroy precedes free', floor=4)
    ctx.rule('R-C13c', 'paired hooks and count: started_threads++ only after successful thread creation; a decrement is a worker death: '
                       'thread_stop (if set) exactly once, kick event unregistered, owner posted afterwards unless threads remain or the pool is not '
                       'shutting down; thread_start precedes the first kick and the worker loop', floor=10)
    ctx.rule('R-C13d', 'release wakes idle workers: shutting_down is set and the handle detached on every path, every thread on the idle list '
                       'is kicked inside the lock region; with no thread started the owner event is posted', floor=4)
    ctx.rule('R-C13e', 'join before release: the creator joins the thread before touching, unlinking, unregistering or freeing its record; '
                       'the dead event is registered and the exit destructor armed before the thread exists; the destructor only posts', floor=8)
    ctx.rule('R-C13f', 'drain: a worker dies only on a decision, taken in the same pool-lock region, that no work is queued '
                       '(seq_head == seq_tail) resp. that it was not kicked', floor=2)
    ctx.rule('R-C13g', 'handed work is not abandoned: wherever an item is queued (seq_tail stepped) and a worker is woken for it through its '
                       'kick event, that worker\'s kicked mark -- the state on which the idle-timeout path decides to die (R-C13f) -- is set non-zero '
                       'in the same pool-lock region as the wake-up', floor=2)
    ctx.section(drain)
    ctx.section(handed)
    ctx.section(container_free)
    ctx.section(pool_free)
    ctx.section(hooks)
    ctx.section(put)
    ctx.section(threads)


# --------------------------------------------------------------------------
# sites
# --------------------------------------------------------------------------

def _count_delta(e):
    """net change a store makes to started_threads: +1 / -1 / other integer / None (not a store to it) / '?'"""
    if not (e['ev'] == 'store' and lvalue_steps(e['lhs']) == [(PRIV, 'started_threads')]):
        return None
    d = h13.store_delta(e)
    return '?' if d is None else d


def is_death(e):
    return _count_delta(e) == -1


def is_birth(e):
    return _count_delta(e) == 1


def is_pool_post(e):
    return is_call(e, 'iv_event_post') and lm_arg(e, 0) == (PRIV, 'ev')


def is_kick_post(e):
    return is_call(e, 'iv_event_post') and lm_arg(e, 0) == (THR, 'kick')


def hook_call(e, which, fn=None):
    if e['ev'] != 'call' or 'fnexpr' not in e:
        return False
    if last_member(e.get('fnexpr')) == (PRIV, which):
        return True
    if fn is None:
        return False
    if h13.called_field(fn, e) == (PRIV, which):
        return True
    # through a local that holds the field's value *here* (`stop = pool->thread_stop ? pool->thread_stop : no_hook;`)
    v = strip(e['fnexpr'])
    if isinstance(v, dict) and v.get('k') == 'var':
        cache = fn.__dict__.setdefault('_c13_hookcopies', {})
        if which not in cache:
            cache[which] = h13.value_copies(fn, ('field', PRIV, which))
        return v['name'] in (cache[which].get((e['_b'], e['_i'])) or ())
    return False


def is_obj_free(e, record):
    if not (is_call(e, 'free') and e.get('args')):
        return False
    return h13.obj_record(e['args'][0]) == record


def _agg(ctx, rid, inst, events, okf, detail, root, g, path=True):
    """one obligation per source site: it holds iff it holds for every copy of the site in the context"""
    for loc, evs in sorted(h13.by_loc(events).items(), key=lambda kv: str(kv[0])):
        bad = [e for e in evs if not okf(e)]
        ctx.ob(rid, inst, not bad, loc=loc, detail=detail(evs[0]) if callable(detail) else detail,
               path=(path_to(g, bad[0]) if (bad and path) else None), fn=root.q)


# --------------------------------------------------------------------------
# R-C13f
# --------------------------------------------------------------------------

def drain(ctx):
    """Old: atoms at the call of the function named __iv_work_thread_die.  Now: at every decrement of started_threads
    (the death of a worker), in every handler context that reaches it, a *decision* `seq_head == seq_tail` or
    `kicked == 0` holds that was taken in the lock region of the death (fatal assertions are not decisions)."""
    prog = ctx.prog
    n = 0
    for (root, g, sites) in h13.contexts(prog, is_death, key='death'):
        G = h13.guards(g, assertions=False, unlock_kills=True)
        unlock = lambda e: any(op == 'unlock' and lid == POOL for (op, lid) in lock_effect(e))
        unk = [e for e in g.events() if is_call(e, 'iv_event_unregister') and lm_arg(e, 0) == (THR, 'kick')]
        mpu = h13.must(g, lambda e: e in unk, kill=unlock)
        def why_at(e):
            A = G.get((e['_b'], e['_i']))
            if h13.g_equal(A, K_HEAD, K_TAIL, lock=POOL):
                return 'seq_head == seq_tail'
            if h13.g_zero(A, K_KICKED, lock=POOL):
                return 'kicked == 0'
            return None
        def why(e):
            """the decision holds where the count is dropped, or -- the worker stops being reachable for work when its
            kick event is unregistered -- where that happened earlier in the same lock region on every path"""
            w = why_at(e)
            if w is None and unk and mpu.get((e['_b'], e['_i'])):
                ws = {why_at(u) for u in unk}
                if None not in ws:
                    w = sorted(ws)[0]
            return w
        for loc, evs in sorted(h13.by_loc(sites).items(), key=lambda kv: str(kv[0])):
            n += 1
            bad = [e for e in evs if why(e) is None]
            ctx.ob('R-C13f', '%s:dies-only-when-drained' % root.name, not bad, loc=loc,
                   detail='the worker exits on the edge %s' % (why(evs[0]) if not bad else
                                                              '(neither "queue empty" nor "not kicked" was decided in this lock region: queued items would be dropped)'),
                   path=path_to(g, bad[0]) if bad else None, fn=root.q)
    if n < 2:
        raise AnalysisBroken('worker exit sites: %d (context, site) pairs found, 2 confirmed' % n)


# --------------------------------------------------------------------------
# R-C13g
# --------------------------------------------------------------------------

def _obj_keys(base):
    """spellings of the object expression `base` (of base->field): its canonical text and, when copy propagation replaced
    a pointer local by the expression it holds, that local"""
    ks = {canon(strip(base))}
    w = h13.was_of(base)
    if w:
        ks.add(w)
    b = strip(base)
    if isinstance(b, dict) and b.get('_was'):
        ks.add(b['_was'])
    return ks


def _member_base(x):
    x = strip(x)
    if isinstance(x, dict) and x.get('k') == 'addr':
        x = strip(x['e'])
    return x.get('base') if isinstance(x, dict) and x.get('k') == 'member' else None


def handed(ctx):
    """R-C13f lets a worker die on the decision `kicked == 0` (idle timeout).  That decision means "nobody handed me work"
    only if every wake-up for a queued item sets the mark: in every context that queues an item (steps seq_tail), every
    post of a worker's kick event shares its pool-lock region (no lock/unlock of the pool lock in between, in either
    order of the two) with a store of a non-zero constant to the kicked field of the same worker, not undone by a later
    store to that field in the region.  The release also posts kicks, but queues nothing: an unmarked worker that times
    out there has an empty queue and dies through the ordinary death path."""
    prog = ctx.prog
    n = 0
    def queues(e):
        if not (e['ev'] == 'store' and lvalue_steps(e['lhs']) == [(PRIV, 'seq_tail')]):
            return False
        d = h13.store_delta(e)
        return d is not None and d > 0
    lockop = lambda e: any(lid == POOL for (op, lid) in lock_effect(e))
    def kicked_store(e):
        return e['ev'] == 'store' and lvalue_steps(e['lhs'])[-1:] == [(THR, 'kicked')]
    def nonzero(e):
        return (e.get('op') in ('=', '|=') and 'rhs' in e and is_int(e['rhs']) and strip(e['rhs'])['v'] != 0)
    for (root, g, sites) in h13.contexts(prog, queues, key='queues'):
        posts = [e for e in g.events() if is_kick_post(e)]
        if not posts:
            continue
        ls = locksets(g)
        for loc, evs in sorted(h13.by_loc(posts).items(), key=lambda kv: str(kv[0])):
            n += 1
            bad, why = [], ''
            for k in evs:
                kb = _member_base(k['args'][0])
                keys = _obj_keys(kb) if kb is not None else set()
                def same(e, keys=keys):
                    mb = _member_base(e['lhs'])
                    return mb is not None and bool(_obj_keys(mb) & keys)
                mark = lambda e: kicked_store(e) and same(e) and nonzero(e)
                unmark = lambda e: lockop(e) or (kicked_store(e) and not nonzero(e))    # (a zeroing store through any spelling)
                locked = POOL in held(ls.get((k['_b'], k['_i'])))
                before = bool(h13.must(g, mark, kill=unmark).get((k['_b'], k['_i'])))
                # from the post to the end of its lock region, per path: True (marked, standing) / False (not marked) while
                # the region is open; 'done' / 'open' once it ended marked / unmarked
                def step(e, s):
                    if s in ('done', 'open'):
                        return s
                    if lockop(e):
                        return 'done' if s else 'open'
                    if kicked_store(e):
                        return (True if same(e) else s) if nonzero(e) else False
                    return s
                fin = h13.forward_from(g, k, frozenset({before}), lambda e, S: frozenset(step(e, s) for s in S),
                                       lambda a, b: a | b).get((g.exit, 0))
                marked = fin is not None and all(s in (True, 'done') for s in fin)
                if not locked:
                    bad.append(k); why = 'the wake-up is posted outside the pool lock'
                elif not marked:
                    bad.append(k); why = 'no store of a non-zero value to the woken worker\'s kicked field in the lock region of the post'
            ctx.ob('R-C13g', 'wakeup-marks-worker@%s' % root.name, not bad, loc=loc,
                   detail='an item is queued in this context and the worker is woken for it: its kicked mark (tested by the idle-timeout path before dying) '
                          'is set non-zero in the same pool-lock region%s' % ('' if not bad else ': ' + why),
                   path=path_to(g, bad[0]) if bad else None, fn=root.q)
    if n < 2:
        raise AnalysisBroken('wake-ups of workers in contexts that queue work: %d (context, site) pairs found, 2 confirmed' % n)


# --------------------------------------------------------------------------
# R-C13a
# --------------------------------------------------------------------------

def _registered(prog, files):
    """(record, field) of every embedded object that some context registers"""
    regs = {r for (r, u) in EMBEDDED.values()}
    out = set()
    for f in prog.all_funcs():
        for e in f.events():
            if e['ev'] == 'call' and e.get('callee') in regs and e.get('args'):
                lm = lm_arg(h13.norm_event(prog, e), 0)
                if lm:
                    out.add(lm)
    for (root, g, sites) in h13.contexts(prog, lambda e: e['ev'] == 'call' and e.get('callee') in regs, key='regs'):
        if not root.file.endswith(tuple(files)):
            continue
        for e in sites:
            lm = lm_arg(e, 0) if e.get('args') else None
            if lm:
                out.add(lm)
    return out


def _worlds(prog, root, g, rec, registered):
    c = h13._cache(prog)
    key = ('worlds', root.q, rec)
    if key in c:
        return c[key]
    fields = [fld for (fld, t) in h13.fields_types(prog, rec) if t in EMBEDDED and (rec, fld) in registered]
    W = None
    if fields:
        own = [fld for (fld, t) in h13.fields_types(prog, rec) if t == 'iv_timer' and root in h13.handlers_of(prog, rec, fld)]
        entry = 'fresh' if root in h13.thread_bodies(prog) else 'live'
        W = h13.Worlds(prog, g, rec, fields, EMBEDDED, paired=PAIRED.get(rec), entry=entry, own_timers=own)
    c[key] = W
    return W


def container_free(ctx, files=('iv_work.c', 'iv_thread_posix.c'), rid='R-C13a'):
    """Old: per function, `unregister(&obj->fld)` matched by text must precede free(obj); frees in helpers were exempted
    by function name.  Now: per calling context an abstract state of every embedded object (registered / not / handed to a
    new thread) is propagated from what is known at entry (a handler's object has everything registered that is ever
    registered, a fired timer is not, a malloc'ed object has nothing) through register/unregister/failure edges and
    hand-offs; at free() every field must be 'not registered' in every possible state."""
    prog = ctx.prog
    registered = _registered(prog, files)
    n = 0
    def anyfree(e):
        return is_call(e, 'free') and e.get('args') and h13.obj_record(e['args'][0])
    for (root, g, sites) in h13.contexts(prog, anyfree, key='free'):
        if not root.file.endswith(tuple(files)):
            continue
        for rec in sorted({h13.obj_record(e['args'][0]) for e in sites}):
            W = _worlds(prog, root, g, rec, registered)
            if W is None:
                continue
            frees = [e for e in sites if h13.obj_record(e['args'][0]) == rec]
            for fld in W.fields:
                i = W.idx[fld]
                reg, unreg = W.regs[fld]
                for loc, evs in sorted(h13.by_loc(frees).items(), key=lambda kv: str(kv[0])):
                    n += 1
                    bad = [e for e in evs if any(w[i] != 0 for w in (W.at(e) or ()))]
                    st = sorted({w[i] for e in evs for w in (W.at(e) or ())})
                    ctx.ob(rid, 'free(%s).%s@%s' % (rec, fld, root.name), not bad, loc=loc,
                           detail='%s(&%s.%s) (or: never registered / registration failed / thread never created) on every path to this free; states here: %s'
                                  % (unreg, rec, fld, ['not registered' if s == 0 else 'registered' if s == 1 else 'handed to a running thread' for s in st]),
                           path=path_to(g, bad[0]) if bad else None, fn=root.q)
    # the pairing invariant that justifies "not on the list => timer not registered"
    if rid == 'R-C13a':
        for rec, (tf, lf) in sorted(PAIRED.items()):
            def touches(e, rec=rec, tf=tf, lf=lf):
                if e['ev'] == 'call' and e.get('args'):
                    return lm_arg(e, 0) in ((rec, tf), (rec, lf)) and e.get('callee') in h13.LIST_ON + h13.LIST_OFF + EMBEDDED['iv_timer']
                if e['ev'] == 'store':
                    st = lvalue_steps(e['lhs'])
                    return len(st) == 2 and st[1] == (rec, lf)
                return False
            m = 0
            for (root, g, sites) in h13.contexts(prog, touches, key=('pair', rec)):
                W = _worlds(prog, root, g, rec, registered)
                if W is None or tf not in W.idx:
                    continue
                m += 1
                ex = W.at_exit() or ()
                bad = [w for w in ex if (w[W.idx[tf]] == 1) != (w[W.LIST] == 1)]
                ctx.ob(rid, '%s.%s-registered-iff-on-%s@%s' % (rec, tf, lf, root.name), not bad, loc=root.loc,
                       detail='at every return of this context the %s is registered exactly when the object is linked through .%s '
                              '(given that at entry; a fired timer: linked, not registered)%s' % (tf, lf, '' if not bad else ': violated, (timer, linked) = %s'
                                                                                               % sorted({(w[W.idx[tf]], w[W.LIST]) for w in bad})), fn=root.q)
            if m < 2:
                raise AnalysisBroken('contexts that link/unlink %s.%s or (un)register %s.%s: %d found' % (rec, lf, rec, tf, m))
    if n < 8 and rid == 'R-C13a':
        raise AnalysisBroken('container frees with registered embedded objects: %d found' % n)


# --------------------------------------------------------------------------
# R-C13b
# --------------------------------------------------------------------------

def pool_free(ctx):
    """Old: only in the function named iv_work_event; the tests had to be single dominating branch edges.  Now: every
    free of a pool record that other code can still reach (not a freshly allocated, unpublished one), in every
    context; the tests are must-facts (decisions on every path) that remember the locks they were taken under."""
    prog = ctx.prog
    registered = _registered(prog, ('iv_work.c',))
    n = 0
    for (root, g, sites) in h13.contexts(prog, lambda e: is_obj_free(e, PRIV), key='poolfree'):
        W = _worlds(prog, root, g, PRIV, registered)
        if W is None:
            raise AnalysisBroken('the pool record embeds no registered object')
        live = [e for e in sites if any(w[W.SHARED] for w in (W.at(e) or ()))]
        if not live:
            continue
        G = h13.guards(g, assertions=True, unlock_kills=False)
        ls = locksets(g)
        mpd = must_pass(g, lambda e: is_call(e, '___mutex_destroy') and lm_arg(e, 0) == (PRIV, 'lock'))
        des = [e for e in g.events() if is_call(e, '___mutex_destroy') and lm_arg(e, 0) == (PRIV, 'lock')]
        at = lambda e: G.get((e['_b'], e['_i']))
        n += 1
        _agg(ctx, 'R-C13b', 'pool-free:shutting-down', live, lambda e: h13.g_nonzero(at(e), K_SHUT),
             'free(pool) only after the decision shutting_down != 0', root, g)
        _agg(ctx, 'R-C13b', 'pool-free:no-threads', live, lambda e: h13.g_zero(at(e), K_STARTED, lock=POOL, count=True),
             'every path to free(pool) decided started_threads == 0 under the pool lock', root, g)
        _agg(ctx, 'R-C13b', 'pool-free:done-queue-empty', live, lambda e: h13.g_nonzero(at(e), K_DONE_EMPTY, lock=POOL),
             'every path to free(pool) decided that work_done is empty under the pool lock', root, g)
        _agg(ctx, 'R-C13b', 'pool-free:unlock-destroy-free', live,
             lambda e: bool(mpd.get((e['_b'], e['_i']))) and POOL not in held(ls.get((e['_b'], e['_i'])))
             and all(POOL not in held(ls.get((d['_b'], d['_i']))) for d in des),
             'the lock is released, then destroyed, then the pool is freed', root, g)
    if not n:
        raise AnalysisBroken('pool free not found')


# --------------------------------------------------------------------------
# R-C13c
# --------------------------------------------------------------------------

def hooks(ctx):
    prog = ctx.prog
    # --- births: ++ only when iv_thread_create reported success on every path to it
    nb = 0
    for (root, g, sites) in h13.contexts(prog, is_birth, key='birth'):
        rv = h13.result_vars(g, ('iv_thread_create',))
        def tr(e, s):
            if is_call(e, 'iv_thread_create'):
                return 'pending'
            return s
        def edge(blk, si, s):
            if s in ('pending', 'ok'):
                for (i, atoms) in h13.cond_edges(blk):
                    if i == si:
                        r = h13.result_edge(atoms, ('iv_thread_create',), rv, prog)
                        if r:
                            return r
            return s
        def jn(a, b):
            return a if a == b else 'mixed'
        _, ev_in = forward(g, 'none', tr, jn, edge=edge)
        nb += 1
        _agg(ctx, 'R-C13c', 'start:count-after-success@%s' % root.name, sites, lambda e: ev_in.get((e['_b'], e['_i'])) == 'ok',
             'started_threads++ only on the success edge of iv_thread_create', root, g)
    if not nb:
        raise AnalysisBroken('no increment of started_threads found')
    # --- every writer of the count is a birth, a death or the initialisation of a pool nobody else can reach yet
    # (looked for in the calling contexts: a helper that gets `&pool->threads` stores through its parameter)
    ws = [(root, e) for (root, g, sites) in h13.contexts(prog, lambda e: e['ev'] == 'store' and (PRIV, 'started_threads') in lvalue_steps(e['lhs']),
                                                        key='count-writers') for e in sites]
    others = [(fn, e) for (fn, e) in ws if not is_birth(e) and not is_death(e)]
    registered = _registered(prog, ('iv_work.c',))
    okw, det = True, []
    for (root, g, sites) in h13.contexts(prog, lambda e: e['ev'] == 'store' and (PRIV, 'started_threads') in lvalue_steps(e['lhs'])
                                         and not is_birth(e) and not is_death(e), key='count-init'):
        W = _worlds(prog, root, g, PRIV, registered)
        for e in sites:
            fresh = W is not None and not any(w[W.SHARED] for w in (W.at(e) or ()))
            good = e.get('op') == '=' and is_int(e.get('rhs'), 0) and fresh
            okw = okw and good
            det.append('%s %s' % (describe(e), 'in a pool not yet published' if fresh else 'in a LIVE pool'))
    if others and not det:
        okw = False
    ctx.ob('R-C13c', 'started_threads:writers', okw and bool(ws), loc=others[0][1]['loc'] if others else None,
           detail='besides ++ (birth) and -- (death) the count is only initialised to 0 in a pool that is not yet published: %s' % sorted(set(det)))
    # --- deaths
    nd = 0
    for (root, g, sites) in h13.contexts(prog, is_death, key='death'):
        nd += 1
        fc = h13.field_caches(g)
        CAP = 2
        # (a) exactly one thread_stop per death, none without: count both along every path
        def tr(e, S):
            if is_death(e):
                return frozenset((min(d + 1, CAP), s, z) for (d, s, z) in S)
            if hook_call(e, 'thread_stop', g):
                return frozenset((d, min(s + 1, CAP), z) for (d, s, z) in S)
            if e['ev'] == 'store' and (PRIV, 'thread_stop') in lvalue_steps(e['lhs']):
                return frozenset((d, s, False) for (d, s, z) in S)
            return S
        def edge(blk, si, S):
            for (i, atoms) in h13.cond_edges(blk):
                if i == si and h13.atoms_zero(atoms, ('field', PRIV, 'thread_stop'), fc):
                    return frozenset((d, s, True) for (d, s, z) in S)
                if i == si and h13.atoms_nonzero(atoms, ('field', PRIV, 'thread_stop'), fc):
                    return frozenset((d, s, False) for (d, s, z) in S)
            return S
        _, ev_in = forward(g, frozenset({(0, 0, False)}), tr, lambda a, b: a | b, edge=edge)
        ex = ev_in.get((g.exit, 0), frozenset())
        bad = [(d, s, z) for (d, s, z) in ex if not ((d == 0 and s == 0) or (d == 1 and (s == 1 or (s == 0 and z))))]
        ctx.ob('R-C13c', 'die:thread_stop-called@%s' % root.name, not bad and bool(ex), loc=sites[0]['loc'],
               detail='on every path through this handler: as many thread_stop calls as deaths (at most one; none needed on the thread_stop == NULL edge)%s'
                      % ('' if not bad else '; violated with (deaths, thread_stop calls, hook known NULL) = %s' % sorted(bad)), fn=root.q)
        # (b) the dying worker's loop can end: its kick event is unregistered on every path through a death
        unk = lambda e: is_call(e, 'iv_event_unregister') and lm_arg(e, 0) == (THR, 'kick')
        def tr2(e, s):
            d, u = s
            if is_death(e):
                d = True
            if unk(e):
                u = True
            return (d, u)
        _, ev2 = forward(g, frozenset({(False, False)}), lambda e, S: frozenset(tr2(e, s) for s in S), lambda a, b: a | b)
        ex2 = ev2.get((g.exit, 0), frozenset())
        ctx.ob('R-C13c', 'die:kick-unregistered@%s' % root.name, bool(ex2) and all(u for (d, u) in ex2 if d), loc=sites[0]['loc'],
               detail='every path on which the worker is counted out also unregisters its kick event (its loop can end)', fn=root.q)
        # (c) after the decrement the owner is posted unless a later decision says threads remain or the pool is not shutting down
        cv = h13.value_copies(g, K_STARTED, POOL)
        def excuse(blk, si, atoms):
            # a local that holds the count as the decrement left it (`left = --pool->started_threads`) stands for the count
            fcc = {v: K_STARTED for v in (cv.get((blk.id, len(blk.events))) or ())}
            return h13.atoms_zero(atoms, K_SHUT) or h13.atoms_nonzero(atoms, K_STARTED, fcc)
        def okpost(e):
            mp = h13.must(g, is_pool_post, excuse=excuse, start_event=e)
            return bool(mp.get((g.exit, 0), True)) and (g.exit, 0) in mp
        _agg(ctx, 'R-C13c', 'die:last-thread-posts-owner@%s' % root.name, sites, okpost,
             'after started_threads-- the pool event is posted on every path, except after deciding !shutting_down or started_threads != 0 '
             '(so the owner can free the pool)', root, g, path=False)
    if nd < 2:
        raise AnalysisBroken('worker death contexts: %d found, 2 confirmed' % nd)
    # --- thread_start precedes the first kick and the worker loop, in every thread body
    bodies = [b for b in h13.thread_bodies(prog) if any(h13.mentions_record(e, THR) or h13.mentions_record(e, PRIV) for e in h13.ctx_of(prog, b).events())]
    if not bodies:
        raise AnalysisBroken('worker thread body (argument of iv_thread_create) not found')
    for w in bodies:
        g = h13.ctx_of(prog, w)
        kicks = [e for e in g.events() if is_kick_post(e)]
        mains = [e for e in g.events() if is_call(e, 'iv_main')]
        if not kicks or not mains:
            raise AnalysisBroken('worker entry: first kick / iv_main not found')
        def excuse2(blk, si, atoms):
            return h13.atoms_zero(atoms, ('field', PRIV, 'thread_start'), h13.field_caches(g))
        mp = h13.must(g, lambda e: hook_call(e, 'thread_start', g), excuse=excuse2)
        _agg(ctx, 'R-C13c', 'worker:thread_start-before-first-kick', kicks + mains, lambda e: bool(mp.get((e['_b'], e['_i']))),
             'thread_start (if set) runs before the worker can pick up any work', w, g)
        # exactly once: no path calls it twice
        def trc(e, S):
            if hook_call(e, 'thread_start', g):
                return frozenset(min(c + 1, 2) for c in S)
            return S
        _, evc = forward(g, frozenset({0}), trc, lambda a, b: a | b)
        ctx.ob('R-C13c', 'worker:thread_start-at-most-once', all(c <= 1 for c in evc.get((g.exit, 0), frozenset({0}))) , loc=w.loc,
               detail='no path through the thread body calls thread_start twice', fn=w.q)


# --------------------------------------------------------------------------
# R-C13d
# --------------------------------------------------------------------------

def _cursor_of(g, base, _seen=None):
    """the list cursor(s) from which the object expression `base` (of &base->kick) is derived by container_of, also when
    the derived pointer travelled through copies (`thr = next;`, the result variable of an inlined helper; a NULL
    assigned on the "no more elements" path is no thread)"""
    def cursor_var(x):
        # a list cursor is a local of type struct iv_list_head *; `entry(thr->list.next)` advances from a thread, not from a cursor
        v = root_var(x)
        x0 = strip(x)
        if v is not None and isinstance(x0, dict) and x0.get('k') == 'var':
            return v
        return None
    cb = h13.container_base(base)
    if cb is not None:
        v = cursor_var(cb[1])
        return {v['name']} if v is not None else ({h13.was_of(cb[1])} if h13.was_of(cb[1]) else set())
    b = strip(base)
    _seen = set() if _seen is None else _seen
    if isinstance(b, dict) and b.get('k') == 'var' and b['name'] not in _seen:
        _seen.add(b['name'])
        out = set()
        for e in g.events():
            if e['ev'] == 'store' and e.get('op') == '=' and 'rhs' in e and strip(e['lhs']).get('k') == 'var' and strip(e['lhs'])['name'] == b['name']:
                if is_null(e['rhs']):
                    continue
                cb = h13.container_base(e['rhs'])
                if cb is None:
                    r = strip(e['rhs'])
                    if isinstance(r, dict) and r.get('k') == 'var' and r.get('vk') in ('local', 'param'):
                        sub = _cursor_of(g, r, _seen)
                        if not sub and r['name'] not in _seen - {r['name']}:
                            return set()
                        out |= sub
                        continue
                    return set()
                if cb[0] != THR:
                    return set()
                v = cursor_var(cb[1])
                if v is not None:
                    out.add(v['name'])
                elif h13.was_of(cb[1]):
                    out.add(h13.was_of(cb[1]))
        return out
    return set()


def put(ctx):
    """Old: the kick had to sit in a natural loop of a function that mentions idle_threads somewhere; tests on a single
    branch block.  Now, in the context of the exported iv_work_pool_put: per *definition* of the list cursor (first
    element of idle_threads, then whatever advances it) every path reaches a kick of the thread derived from it or the
    decision `cursor == &idle_threads`, and the walk ends only on that decision; must-facts elsewhere."""
    prog = ctx.prog
    f = prog.fn('iv_work_pool_put')
    g = h13.ctx_of(prog, f)
    ls = locksets(g)
    al = h13.ptr_aliases(g)
    exit_pt = (g.exit, 0)
    is_sd = lambda e: e['ev'] == 'store' and lvalue_steps(e['lhs']) == [(PRIV, 'shutting_down')]
    sd = [e for e in g.events() if is_sd(e)]
    unlock = lambda e: any(op == 'unlock' and lid == POOL for (op, lid) in lock_effect(e))
    sets = lambda e: is_sd(e) and e.get('op') == '=' and is_int(e.get('rhs')) and strip(e['rhs'])['v'] != 0
    mp_sd = h13.must(g, sets, kill=lambda e: is_sd(e) and not sets(e))
    ok = bool(sd) and all(POOL in held(ls.get((e['_b'], e['_i']))) for e in sd) and bool(mp_sd.get(exit_pt))
    ctx.ob('R-C13d', 'put:shutting_down-under-lock', ok, loc=sd[0]['loc'] if sd else f.loc,
           detail='shutting_down is set (non-zero) on every path, stored only under the pool lock', fn=f.q)
    # --- idle workers
    kicks = [e for e in g.events() if is_kick_post(e)]
    okk, why = bool(kicks), 'no kick post found'
    cursors = set()
    typed = set()          # thread-typed cursors (`for (thr = entry(head->next); &thr->list != head; thr = entry(thr->list.next))`)
    def next_of(x):
        """('head',) / ('entry', T) when x reads the `.next` of the idle list head / of the linkage of thread variable T"""
        x = h13.resolve(x, al)
        if not (isinstance(x, dict) and x.get('k') == 'member' and x.get('record') == 'iv_list_head' and x.get('field') == 'next'):
            return None
        b = x['base']
        if (last_member(b) if not x['arrow'] else h13.head_of(b, al)) == (PRIV, 'idle_threads'):
            return ('head',)
        if not x['arrow'] and last_member(b) == (THR, 'list'):
            v = strip(strip(b)['base']) if strip(b).get('arrow') else None
            if isinstance(v, dict) and v.get('k') == 'var':
                return ('entry', v['name'])
        return None
    def typed_defs(name):
        """the definitions of thread variable `name`, if each of them takes the entry of a `.next` pointer read"""
        ds = [e for e in g.events() if e['ev'] == 'store' and strip(e['lhs']).get('k') == 'var' and strip(e['lhs'])['name'] == name]
        out = []
        for e in ds:
            cb = h13.container_base(e['rhs']) if (e.get('op') == '=' and 'rhs' in e) else None
            nx = next_of(cb[1]) if (cb is not None and cb[0] == THR) else None
            if nx is None:
                return None
            out.append((e, nx))
        return out
    for k in kicks:
        base = strip(strip(k['args'][0])['e'])['base']
        b0 = strip(base)
        if isinstance(b0, dict) and b0.get('k') == 'var' and typed_defs(b0['name']):
            typed.add(b0['name'])
        else:
            cs = _cursor_of(g, base)
            if not cs:
                okk, why = False, 'the kicked thread is not derived from a list cursor (%s)' % canon(base)
            cursors |= cs
        if POOL not in held(ls.get((k['_b'], k['_i']))):
            okk, why = False, 'a kick is posted outside the pool-lock region'
    if okk:
        defs = [e for e in g.events() if e['ev'] == 'store' and strip(e['lhs']).get('k') == 'var' and strip(e['lhs'])['name'] in cursors]
        def is_first(e):
            r = h13.resolve(e.get('rhs'), al) if 'rhs' in e else None
            if not (isinstance(r, dict) and r.get('k') == 'member' and r.get('record') == 'iv_list_head' and r['field'] == 'next'):
                return False
            b = r['base']
            hd = last_member(b) if not r['arrow'] else h13.head_of(b, al)
            return hd == (PRIV, 'idle_threads')
        firsts = [e for e in defs if is_first(e)]
        tfirst = [e for t_ in typed for (e, nx) in typed_defs(t_) if nx == ('head',)]
        if not firsts and not tfirst:
            okk, why = False, 'no cursor starts at the first element of idle_threads'
        def var_def(e, name):
            return e['ev'] == 'store' and strip(e['lhs']).get('k') == 'var' and strip(e['lhs'])['name'] == name
        def derived_from(e, cur):
            """T = container_of(cur, work_pool_thread, list): the thread object the cursor points into"""
            if not (e['ev'] == 'store' and e.get('op') == '=' and 'rhs' in e and strip(e['lhs']).get('k') == 'var'):
                return False
            cb = h13.container_base(e['rhs'])
            if cb is None or cb[0] != THR:
                return False
            x0 = strip(cb[1])
            return isinstance(x0, dict) and ((x0.get('k') == 'var' and x0['name'] == cur) or h13.was_of(cb[1]) == cur)
        def kick_base_raw(e):
            return strip(strip(e['args'][0])['e'])['base']
        def kick_base(e):
            return strip(kick_base_raw(e))
        # variables that hold a thread taken from a cursor of the walk (directly or through copies)
        taken_vars = {strip(e['lhs'])['name'] for e in g.events() if any(derived_from(e, c) for c in cursors)}
        ch_ = True
        while ch_:
            ch_ = False
            for e in g.events():
                if e['ev'] == 'store' and e.get('op') == '=' and 'rhs' in e and strip(e['lhs']).get('k') == 'var':
                    r_ = strip(e['rhs'])
                    if isinstance(r_, dict) and r_.get('k') == 'var' and r_['name'] in taken_vars and strip(e['lhs'])['name'] not in taken_vars:
                        taken_vars.add(strip(e['lhs'])['name'])
                        ch_ = True
        for d in defs:
            cur = strip(d['lhs'])['name']
            def at_end(blk, si, atoms, cur=cur):
                for (op, lc, rc, l, r) in atoms:
                    # the idle list is decided to be empty (under the lock, nothing links a thread in here): every
                    # element a cursor can select is the head itself
                    if op == '!=' and h13.opkey(l) == ('empty', PRIV, 'idle_threads') and is_int(r, 0):
                        return True
                    if op != '==':
                        continue
                    for (x, y) in ((l, r), (r, l)):
                        x0 = strip(x)
                        # (the cursor itself, or the expression copy propagation spelled its read with)
                        if isinstance(x0, dict) and ((x0.get('k') == 'var' and x0['name'] == cur) or h13.was_of(x) == cur) \
                                and h13.head_of(y, al) == (PRIV, 'idle_threads'):
                            return True
                return False
            # (1a) the element this definition selects is the list head, or its thread object is taken (or kicked directly),
            #      before the cursor moves on / the function returns
            def used(e, cur=cur):
                if derived_from(e, cur):
                    return True
                if is_kick_post(e):
                    cb = h13.container_base(kick_base_raw(e))
                    x0 = strip(cb[1]) if cb is not None else None
                    return isinstance(x0, dict) and ((x0.get('k') == 'var' and x0['name'] == cur) or h13.was_of(cb[1]) == cur)
                return False
            def tr(e, s, cur=cur):
                return True if (used(e) or var_def(e, cur)) else s
            def ed(blk, si, s):
                if s:
                    return s
                return True if h13.edge_all(blk, si, lambda atoms: at_end(blk, si, atoms)) else s
            ev1 = h13.forward_from(g, d, False, tr, lambda a, b: a and b, edge=ed)
            pts = [(e['_b'], e['_i']) for e in defs if strip(e['lhs'])['name'] == cur] + [exit_pt]
            if not all(ev1.get(p, True) for p in pts):
                okk, why = False, 'an element selected at %s is neither used for a kick nor the list head' % relpath(d['loc'])
            # (2) the walk ends only at the list head (decided on whichever cursor of the walk holds the position then)
            if d in firsts:
                def any_end(blk, si, atoms):
                    if any(at_end(blk, si, atoms, cur=c_) for c_ in cursors):
                        return True
                    # the position may be held as the thread around it: `&T->list == &idle_threads`, T taken from a cursor of the walk
                    for (op, lc, rc, l, r) in atoms:
                        if op != '==':
                            continue
                        for (x, y) in ((l, r), (r, l)):
                            x0 = strip(x)
                            if isinstance(x0, dict) and x0.get('k') == 'addr' and last_member(x0['e']) == (THR, 'list') \
                                    and h13.head_of(y, al) == (PRIV, 'idle_threads') and (root_var(x0['e']) or {}).get('name') in taken_vars:
                                return True
                    return False
                mp = h13.must(g, lambda e: False, excuse=any_end, start_event=d)
                if not mp.get(exit_pt, True):
                    okk, why = False, 'the walk started at %s can end before the cursor is back at &idle_threads' % relpath(d['loc'])
        # the same for a thread-typed cursor T: the element a definition selects is `&T->list`; it is the head, or T is kicked,
        # before T is redefined / the function returns; the walk that starts at head.next ends only at the head
        for tn in sorted(typed):
            tdefs = typed_defs(tn)
            def t_end(blk, si, atoms, tn=tn):
                for (op, lc, rc, l, r) in atoms:
                    if op == '!=' and h13.opkey(l) == ('empty', PRIV, 'idle_threads') and is_int(r, 0):
                        return True
                    if op != '==':
                        continue
                    for (x, y) in ((l, r), (r, l)):
                        x0 = strip(x)
                        if isinstance(x0, dict) and x0.get('k') == 'addr' and last_member(x0['e']) == (THR, 'list') \
                                and (root_var(x0['e']) or {}).get('name') == tn and h13.head_of(y, al) == (PRIV, 'idle_threads'):
                            return True
                return False
            def t_kick(e, tn=tn):
                if not is_kick_post(e):
                    return False
                b = strip(strip(strip(e['args'][0])['e'])['base'])
                return isinstance(b, dict) and ((b.get('k') == 'var' and b['name'] == tn) or b.get('_was') == tn)
            for (d, nx) in tdefs:
                if nx[0] == 'entry' and nx[1] not in typed:
                    okk, why = False, 'the cursor advances from a thread that is not part of the walk (%s)' % relpath(d['loc'])
                ev1 = h13.forward_from(g, d, False, lambda e, s_, tn=tn: True if (t_kick(e) or var_def(e, tn)) else s_, lambda a, b: a and b,
                                       edge=lambda blk, si, s_: True if (s_ or h13.edge_all(blk, si, lambda atoms: t_end(blk, si, atoms))) else s_)
                pts = [(e['_b'], e['_i']) for (e, _) in tdefs] + [exit_pt]
                if not all(ev1.get(p_, True) for p_ in pts):
                    okk, why = False, 'the thread selected at %s is neither kicked nor the list head' % relpath(d['loc'])
                if nx == ('head',):
                    mp = h13.must(g, lambda e: False, excuse=t_end, start_event=d)
                    if not mp.get(exit_pt, True):
                        okk, why = False, 'the walk started at %s can end before the cursor is back at &idle_threads' % relpath(d['loc'])
        # (1b) every thread object taken from a cursor is kicked before the variable is reused / the function returns
        #      (the pointer may be copied on: state = the variables that hold it now, or True once it was kicked; it is
        #      lost -- not kicked -- when the last of them is overwritten)
        def is_read(name):
            return any(y.get('k') == 'var' and y.get('name') == name for e in g.events() if e['ev'] not in ('ret', 'leave', 'enter')
                       for k_, x in e.items() if isinstance(x, (dict, list)) and not (k_ == 'lhs' and strip(x).get('k') == 'var') for y in walk(x)) \
                or any(blk.term and blk.term.get('cond') is not None and any(y.get('k') == 'var' and y.get('name') == name for y in walk(blk.term['cond']))
                       for blk in g.blocks.values())
        for t in [e for e in g.events() if any(derived_from(e, c) for c in cursors)]:
            tv = strip(t['lhs'])['name']
            if not is_read(tv):
                continue                    # a result variable nobody reads (its value reached the caller's local by substitution)
            # state: None (t not executed yet) | 'lost' | frozenset of pending instances, each the set of variables that hold
            # a thread taken at t which was not kicked yet (advance-before-kick keeps the previous one in another variable)
            def tr_t(e, st, t=t, tv=tv):
                if st == 'lost':
                    return st
                if e is t:
                    old = frozenset(x - {tv} for x in (st or frozenset()))
                    if frozenset() in old:
                        return 'lost'
                    return old | {frozenset({tv})}
                if st is None:
                    return None
                if is_kick_post(e):
                    b_ = kick_base(e)
                    if isinstance(b_, dict):
                        nm = b_['name'] if b_.get('k') == 'var' else b_.get('_was')
                        return frozenset(x for x in st if nm not in x)
                if e['ev'] == 'store' and strip(e['lhs']).get('k') == 'var':
                    nm = strip(e['lhs'])['name']
                    r = strip(e['rhs']) if (e.get('op') == '=' and 'rhs' in e) else None
                    again = e is not t and any(derived_from(e, c) and derived_from(t, c) for c in cursors)
                    out = set()
                    for x in st:
                        if (isinstance(r, dict) and r.get('k') == 'var' and r['name'] in x) or (again and tv in x):
                            x = x | {nm}            # a copy (or the same object taken again from the same, unchanged cursor)
                        elif nm in x:
                            x = x - {nm}
                            if not x:
                                return 'lost'
                        out.add(x)
                    return frozenset(out)
                return st
            def jn_t(a, b):
                if a == 'lost' or b == 'lost':
                    return 'lost'
                if a is None:
                    return b
                if b is None:
                    return a
                return a | b
            def ed_t(blk, si, st):
                # `&T->list == &idle_threads`: what was taken is the list head itself, not a thread
                if not st or st == 'lost':
                    return st
                heads = set()
                for (i_, alts) in h13.cond_alts(blk):
                    if i_ != si or not alts:
                        continue
                    per_alt = []
                    for atoms in alts:
                        hs = set()
                        for (op, lc, rc, l, r) in atoms:
                            if op != '==':
                                continue
                            for (x, y) in ((l, r), (r, l)):
                                x0 = strip(x)
                                if isinstance(x0, dict) and x0.get('k') == 'addr' and last_member(x0['e']) == (THR, 'list') \
                                        and h13.head_of(y, al) == (PRIV, 'idle_threads') and root_var(x0['e']) is not None:
                                    hs.add(root_var(x0['e'])['name'])
                        per_alt.append(hs)
                    heads = set.intersection(*per_alt) if per_alt else set()
                return frozenset(x for x in st if not (x & heads)) if heads else st
            _, ev2 = forward(g, None, tr_t, jn_t, edge=ed_t, start=t['_b'])
            fin = ev2.get(exit_pt)
            if fin == 'lost' or (fin is not None and len(fin) > 0):
                okk, why = False, 'the idle thread taken at %s is not kicked on every path' % relpath(t['loc'])
    ctx.ob('R-C13d', 'put:idle-workers-kicked', okk, loc=kicks[0]['loc'] if kicks else f.loc,
           detail='every thread on the idle list is posted its kick inside the lock region%s' % ('' if okk else ': ' + why), fn=f.q)
    # --- no worker: the owner frees the pool from its loop
    mp_reg = h13.must(g, lambda e: is_sd(e), kill=unlock)
    cv = h13.value_copies(g, K_STARTED, POOL)
    def excuse(blk, si, atoms):
        # a local that holds the count as read in this lock region (`n = pool->started_threads`) stands for the count
        fcc = {v: K_STARTED for v in (cv.get((blk.id, len(blk.events))) or ())}
        return h13.atoms_nonzero(atoms, K_STARTED, fcc) and POOL in held(ls.get((blk.id, len(blk.events)))) \
            and bool(mp_reg.get((blk.id, len(blk.events))))
    mp = h13.must(g, is_pool_post, excuse=excuse)
    post = [e for e in g.events() if is_pool_post(e)]
    ctx.ob('R-C13d', 'put:no-threads-posts-owner', bool(mp.get(exit_pt)) and exit_pt in mp, loc=post[0]['loc'] if post else f.loc,
           detail='the owner\'s pool event is posted on every path, except after deciding started_threads != 0 in the lock region that set shutting_down', fn=f.q)
    # --- the handle is detached
    isnull = lambda e: e['ev'] == 'store' and lvalue_steps(e['lhs']) == [('iv_work_pool', 'priv')] and e.get('op') == '=' and is_null(e.get('rhs'))
    pv = [e for e in g.events() if isnull(e)]
    mpn = h13.must(g, isnull, kill=lambda e: e['ev'] == 'store' and lvalue_steps(e['lhs']) == [('iv_work_pool', 'priv')] and not isnull(e))
    ctx.ob('R-C13d', 'put:handle-detached', bool(pv) and bool(mpn.get(exit_pt)), loc=pv[0]['loc'] if pv else f.loc,
           detail='this->priv = NULL on every path: the caller may reuse the pool structure immediately', fn=f.q)


# --------------------------------------------------------------------------
# R-C13e
# --------------------------------------------------------------------------

def _record_effect(e, record):
    """does the event write, register, unlink or release (part of) an object of the record?"""
    if e['ev'] == 'store':
        l = strip(e['lhs'])
        if isinstance(l, dict) and l.get('k') == 'var':
            return False
        return h13.mentions_record(e['lhs'], record)
    if e['ev'] in ('call', 'enter') and e.get('callee') and e['ev'] == 'call':
        if e['callee'] == 'pthr_join' or e['callee'] in h13.PURE_CALLS:
            return False
        return any(h13.mentions_record(a, record) for a in e.get('args', []))
    return False


def threads(ctx):
    """Old: functions named iv_thread_died / iv_thread_destructor / iv_thread_create / iv_thread_allocate_key /
    iv_thread_handler, three textual kinds of release.  Now roles: the spawn site is the call of pthr_create (in its
    exported context), the OS-level body its function argument, the died handler what is installed in iv_thread.dead,
    the destructor what is passed to pthr_key_create."""
    prog = ctx.prog
    spawn = h13.contexts(prog, lambda e: is_call(e, 'pthr_create'), key='spawn')
    if not spawn:
        raise AnalysisBroken('thread creation site (pthr_create) not found')
    died = h13.handlers_of(prog, ITHR, 'dead')
    if not died:
        raise AnalysisBroken('no handler is installed in iv_thread.dead')
    # the OS-level thread functions and the thread-specific key they set to the thread record
    def keyid(g, e, i=0):
        v = root_var(e['args'][i]) if len(e.get('args', [])) > i else None
        origin = prog.funcs.get(e.get('fn')) if e.get('fn') else g
        return ((origin or g).file, v['name']) if v is not None else None
    osbodies = []
    for (root, g, sites) in spawn:
        for s_ in sites:
            h = h13.func_arg(prog, g, s_, 2)
            if h is None:
                raise AnalysisBroken('pthr_create: thread function is not a function name')
            if h not in osbodies:
                osbodies.append(h)
    keys = set()
    for h in osbodies:
        hg = h13.ctx_of(prog, h)
        for e in hg.events():
            if is_call(e, 'pthr_setspecific') and len(e.get('args', [])) > 1 and h13.mentions_record(e['args'][1], ITHR):
                keys.add(keyid(hg, e))
    keys.discard(None)
    if not keys:
        if not any(is_call(e, 'pthr_key_create') for f_ in prog.all_funcs() for e in f_.events()):
            raise AnalysisBroken('the created thread does not set a thread-specific key to its thread record (and no key is created anywhere)')
        # keys with destructors exist, but the new thread never stores its record under one: no destructor will run for it
        ctx.ob('R-C13e', 'handler:key-set-before-body', False, loc=osbodies[0].loc,
               detail='the created thread never sets a thread-specific key to its thread record: the exit destructor cannot report its death', fn=osbodies[0].q)
        return
    keyc = []
    for (root, g, sites) in h13.contexts(prog, lambda e: is_call(e, 'pthr_key_create'), key='keycreate'):
        sites = [e for e in sites if keyid(g, e) in keys]
        if sites:
            keyc.append((root, g, sites))
    if not keyc:
        # the created thread stores its record under a key that no reachable code creates: no destructor can run
        ctx.ob('R-C13e', 'destructor:registered', False, loc=osbodies[0].loc,
               detail='the thread stores its record under key %s, but no entry point of the library creates that key (with an exit destructor)'
                      % sorted(k[1] for k in keys), fn=osbodies[0].q)
    # --- the creator's handler
    for d in died:
        g = h13.ctx_of(prog, d)
        join = [e for e in g.events() if is_call(e, 'pthr_join')]
        if not join and not any(is_call(e, 'pthr_join') for f_ in prog.all_funcs() for e in f_.events()):
            raise AnalysisBroken('%s: join not found (pthr_join is not called anywhere)' % d.name)
        # (a died handler that cannot reach the join -- it exists elsewhere -- releases the record unjoined: the obligations below fail)
        mp = must_pass(g, lambda e: e in join)
        effs = [e for e in g.events() if _record_effect(e, ITHR)]
        kinds = (('unlink', lambda e: any(x.get('k') == 'member' and (x.get('record'), x.get('field')) == (ITHR, 'list') for x in walk(e.get('lhs') if e['ev'] == 'store' else e.get('args')))),
                 ('event-unregister', lambda e: is_call(e, 'iv_event_unregister') and lm_arg(e, 0) == (ITHR, 'dead')),
                 ('free', lambda e: is_obj_free(e, ITHR)))
        for what, pred in kinds:
            evs = [e for e in effs if pred(e)]
            ctx.ob('R-C13e', 'died:join-before-%s' % what, bool(evs) and all(mp.get((e['_b'], e['_i'])) for e in evs), loc=evs[0]['loc'] if evs else d.loc,
                   detail='pthr_join precedes the %s of the thread record' % what, fn=d.q)
        rest = [e for e in effs if not any(p(e) for (_, p) in kinds)]
        ctx.ob('R-C13e', 'died:join-before-any-other-effect', all(mp.get((e['_b'], e['_i'])) for e in rest), loc=rest[0]['loc'] if rest else d.loc,
               detail='nothing else modifies or releases part of the thread record before pthr_join: %s' % sorted({describe(e) for e in rest}), fn=d.q)
    # --- the exit destructor
    dtors = []
    for (root, g, sites) in keyc:
        for e in sites:
            t = h13.func_arg(prog, g, e, 1)
            dtors.append((root, e, t))
    for (root, e, t) in dtors:
        if t is None:
            ctx.ob('R-C13e', 'destructor:only-posts', False, loc=e['loc'], detail='the thread key is created without a destructor function', fn=root.q)
            continue
        g = h13.ctx_of(prog, t)
        eff = [x for x in g.events() if h13.is_effect(x)]
        isdead = lambda x: is_call(x, 'iv_event_post') and lm_arg(x, 0) == (ITHR, 'dead')
        def trc(x, S):
            return frozenset(min(c + 1, 2) for c in S) if isdead(x) else S
        _, evc = forward(g, frozenset({0}), trc, lambda a, b: a | b)
        cnt = evc.get((g.exit, 0), frozenset())
        ok = bool(cnt) and all(c == 1 for c in cnt) and all(isdead(x) for x in eff)
        ctx.ob('R-C13e', 'destructor:only-posts', ok, loc=t.loc,
               detail='the thread-exit destructor posts the dead event exactly once on every path and has no other effect on shared state: %s'
                      % sorted({describe(x) for x in eff}), fn=t.q)
    # --- creation: dead event registered, destructor armed, before the thread exists
    for (root, g, sites) in spawn:
        reg = must_pass(g, lambda e: is_call(e, 'iv_event_register') and lm_arg(e, 0) == (ITHR, 'dead'),
                        kill=lambda e: is_call(e, 'iv_event_unregister') and lm_arg(e, 0) == (ITHR, 'dead'))
        hset = must_pass(g, lambda e: e['ev'] == 'store' and e.get('op') == '=' and lvalue_steps(e['lhs'])[:1] == [('iv_event', 'handler')]
                         and (ITHR, 'dead') in lvalue_steps(e['lhs']) and
                         any(strip(e['rhs']).get('name') == d.name and strip(e['rhs']).get('vk') == 'func' for d in died))
        _agg(ctx, 'R-C13e', 'create:dead-event-registered-first', sites,
             lambda e: bool(reg.get((e['_b'], e['_i']))) and bool(hset.get((e['_b'], e['_i']))),
             'the dead event (which keeps the creator\'s iv_main alive) has its join handler and is registered before the thread is created', root, g)
        def arms(e):
            if is_call(e, 'pthr_key_create'):
                return keyid(g, e) in keys
            if is_call(e, 'pthr_once') or is_call(e, 'pthread_once'):
                t = h13.func_arg(prog, g, e, 1)
                if t is None:
                    return False
                tg = h13.ctx_of(prog, t)
                return any(is_call(x, 'pthr_key_create') and keyid(tg, x) in keys for x in tg.events())
            return False
        armed = must_pass(g, arms)
        # a library constructor that creates the key has run before anything can create a thread
        at_load = any(getattr(r_, 'constructor', False) and bool(must_pass(g_, lambda x, ss=ss: any(x is y for y in ss)).get((g_.exit, 0)))
                      for (r_, g_, ss) in keyc)
        _agg(ctx, 'R-C13e', 'destructor:registered', sites,
             lambda e: (at_load or bool(armed.get((e['_b'], e['_i'])))) and all(t is not None for (_, _, t) in dtors),
             'the thread key with its exit destructor is created before any thread is, so the destructor runs however the thread exits', root, g)
        # --- the OS-level thread body arms the destructor before the user routine
        for s in sites:
            h = h13.func_arg(prog, g, s, 2)
            if h is None:
                raise AnalysisBroken('pthr_create: thread function is not a function name')
            hg = h13.ctx_of(prog, h)
            sp = [e for e in hg.events() if is_call(e, 'pthr_setspecific') and keyid(hg, e) in keys
                  and h13.mentions_record(e['args'][1], ITHR)]
            src = h13.value_copies(hg, ('field', ITHR, 'start_routine'))
            def is_body(e):
                # the indirect call of the user's routine, also through a local that holds thr->start_routine there
                if e['ev'] != 'call' or 'fnexpr' not in e:
                    return False
                if last_member(e.get('fnexpr')) == (ITHR, 'start_routine') or h13.called_field(hg, e) == (ITHR, 'start_routine'):
                    return True
                v_ = strip(e['fnexpr'])
                return isinstance(v_, dict) and v_.get('k') == 'var' and v_['name'] in (src.get((e['_b'], e['_i'])) or ())
            body = [e for e in hg.events() if is_body(e)]
            mps = must_pass(hg, lambda e: e in sp)
            ctx.ob('R-C13e', 'handler:key-set-before-body', bool(body) and all(mps.get((e['_b'], e['_i'])) for e in body), loc=h.loc,
                   detail='the thread key is set to the thread record (arming the destructor) before the user routine runs', fn=h.q)
