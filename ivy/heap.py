"""Shape interpretation: abstract interpretation of small pointer-manipulating
functions over a *named symbolic heap*.

Domain: a finite set of named nodes (the letters of a documented pre-shape),
each with pointer fields whose values are node names or NULL and an integer
height; opaque subtrees are nodes whose children are never inspected.  The
function's own events (from the facts) are interpreted; every branch must be
decided by the abstract heap, otherwise the analysis is broken.  Used only
for the AVL rotation / single-step rebalance functions (straight-line code
with NULL guards and max/+1 arithmetic)."""
from .core import AnalysisBroken, canon, strip

NULL = None


class Stuck(Exception):
    pass


class Heap:
    def __init__(self):
        self.nodes = {}      # name -> dict(field -> value)
        self.cells = {}      # named pointer cells (e.g. the root slot)

    def node(self, name, **fields):
        self.nodes[name] = dict(fields)
        return name


class Ref:
    """An lvalue: ('field', node, name) | ('cell', name) | ('local', name)."""

    def __init__(self, kind, a, b=None):
        self.kind, self.a, self.b = kind, a, b


class Interp:
    def __init__(self, prog, heap, opaque=(), max_steps=20000):
        self.prog = prog
        self.heap = heap
        self.opaque = set(opaque)
        self.steps = 0
        self.max_steps = max_steps
        self.log = []

    # -- values -----------------------------------------------------------------
    def lval(self, e, env):
        e = strip(e)
        k = e.get('k')
        if k == 'var':
            return Ref('local', e['name'])
        if k == 'member':
            base = self.rval(e['base'], env) if e['arrow'] else None
            if not e['arrow']:
                raise Stuck('non-pointer member access %s' % canon(e))
            if base is NULL:
                raise Stuck('NULL dereference evaluating %s' % canon(e))
            if isinstance(base, tuple) and base[0] == 'cellref':
                raise Stuck('member of a cell reference')
            if base in self.opaque and e['field'] in ('left', 'right'):
                raise Stuck('children of opaque subtree %s inspected' % base)
            return Ref('field', base, e['field'])
        if k == 'deref':
            p = self.rval(e['e'], env)
            if isinstance(p, tuple) and p[0] == 'cellref':
                return Ref('cell', p[1])
            if isinstance(p, tuple) and p[0] == 'fieldref':
                return Ref('field', p[1], p[2])
            raise Stuck('dereference of %s' % (p,))
        raise Stuck('not an lvalue: %s' % canon(e))

    def load(self, ref, env):
        if ref.kind == 'local':
            if ref.a not in env:
                raise Stuck('uninitialised local %s' % ref.a)
            return env[ref.a]
        if ref.kind == 'cell':
            return self.heap.cells[ref.a]
        n = self.heap.nodes.get(ref.a)
        if n is None:
            raise Stuck('unknown node %s' % ref.a)
        if ref.b not in n:
            raise Stuck('field %s of %s not modelled' % (ref.b, ref.a))
        return n[ref.b]

    def store(self, ref, v, env):
        if ref.kind == 'local':
            env[ref.a] = v
        elif ref.kind == 'cell':
            self.heap.cells[ref.a] = v
            self.log.append(('cell', ref.a, v))
        else:
            self.heap.nodes[ref.a][ref.b] = v
            self.log.append(('field', ref.a, ref.b, v))

    def rval(self, e, env):
        e0 = e
        e = strip(e)
        if not isinstance(e, dict):
            raise Stuck('expression %r' % (e0,))
        k = e.get('k')
        if k == 'int':
            return e['v']
        if k == 'null':
            return NULL
        if k in ('var', 'member', 'deref'):
            return self.load(self.lval(e, env), env)
        if k == 'addr':
            r = self.lval(e['e'], env)
            if r.kind == 'cell':
                return ('cellref', r.a)
            if r.kind == 'field':
                return ('fieldref', r.a, r.b)
            raise Stuck('address of local %s' % r.a)
        if k == 'un':
            v = self.rval(e['e'], env)
            if e['op'] == '!':
                return int(not self.truth(v))
            if e['op'] == '-':
                return -v
        if k == 'bin':
            op = e['op']
            if op == '&&':
                return int(self.truth(self.rval(e['l'], env)) and self.truth(self.rval(e['r'], env)))
            if op == '||':
                return int(self.truth(self.rval(e['l'], env)) or self.truth(self.rval(e['r'], env)))
            a, b = self.rval(e['l'], env), self.rval(e['r'], env)
            if op in ('==', '!='):
                return int((a == b) == (op == '=='))
            if not (isinstance(a, int) and isinstance(b, int)):
                raise Stuck('arithmetic on pointers: %s' % canon(e))
            return int(eval('%d %s %d' % (a, op, b)))
        if k == 'cond':
            return self.rval(e['a'] if self.truth(self.rval(e['c'], env)) else e['b'], env)
        if k == 'call':
            return self.call(e.get('callee'), [self.rval(a, env) for a in e['args']])
        raise Stuck('cannot evaluate %s' % canon(e))

    @staticmethod
    def truth(v):
        return v is not NULL and v != 0

    # -- execution ------------------------------------------------------------------
    def call(self, name, args):
        f = self.prog.fn(name)
        env = {}
        for p, a in zip(f.params, args):
            env[p['name']] = a
        b = f.entry
        while True:
            self.steps += 1
            if self.steps > self.max_steps:
                raise AnalysisBroken('%s: shape interpretation does not terminate' % name)
            blk = f.blocks[b]
            for e in blk.events:
                ev = e['ev']
                if ev == 'load':
                    continue
                if ev == 'decl':
                    if 'init' in e:
                        env[e['name']] = self.rval(e['init'], env)
                elif ev == 'store':
                    ref = self.lval(e['lhs'], env)
                    if e['op'] == '=':
                        v = self.rval(e['rhs'], env)
                    elif e['op'] in ('++', '--'):
                        v = self.load(ref, env) + (1 if e['op'] == '++' else -1)
                    else:
                        v = int(eval('%d %s %d' % (self.load(ref, env), e['op'][:-1], self.rval(e['rhs'], env))))
                    self.store(ref, v, env)
                elif ev == 'call':
                    # value-returning calls are evaluated where their value is used;
                    # statement calls (void) are executed here
                    if not e.get('used'):
                        if 'callee' not in e:
                            raise Stuck('indirect call')
                        self.log.append(('call', e['callee'], [self._name(self.rval(a, env)) for a in e['args']]))
                        self.call(e['callee'], [self.rval(a, env) for a in e['args']])
                elif ev == 'ret':
                    return self.rval(e['value'], env) if 'value' in e else None
            if blk.noreturn:
                raise Stuck('fatal path reached')
            if not blk.succ:
                return None
            if len(blk.succ) == 1:
                b = blk.succ[0]
                continue
            c = blk.term.get('cond') if blk.term else None
            if c is None:
                raise Stuck('branch without condition')
            b = blk.succ[0] if self.truth(self.rval(c, env)) else blk.succ[1]

    @staticmethod
    def _name(v):
        return v
