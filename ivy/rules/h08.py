"""Helpers of the C08 rules (local equivalents of wanted core facilities).

normalise(g)     value propagation on an (inlined, private) function: reads of a local that is
                 a still-valid copy of an address (`lock = &st->event_list_mutex`), of another
                 variable (`st = _st`, `raw = iv_event_use_event_raw`) or of a memory read
                 (renamed parameters of inlined helpers included) are replaced by the copied
                 expression, so that every rule sees the same access path whether or not a
                 value was cached in a local.  core.copy_propagate does this only for memory
                 reads into `local` variables.
root_contexts    every library entry point (roles.roots) from which a site is reachable, inlined
                 and normalised; cached per program.
"""
import copy
import json
import os

from ..core import (AnalysisBroken, Inliner, PURE_CALLS, partition_flags, fold, canon, forward, last_member, lvalue_steps, norm_cond,
                    simplify, strip, strip_load, subst, walk)
from ..analyses import callback_kind
from .. import roles

LIST_WRITERS = {'iv_list_add', 'iv_list_add_tail', 'iv_list_del', 'iv_list_del_init', 'INIT_IV_LIST_HEAD',
                '__iv_list_steal_elements', 'iv_list_splice', 'iv_list_splice_init', 'iv_list_splice_tail',
                'iv_list_splice_tail_init', '__iv_list_splice'}
LIST_KEYS = frozenset({('iv_list_head', 'next'), ('iv_list_head', 'prev')})
DETACH = ('__iv_list_steal_elements', 'iv_list_splice_init', 'iv_list_splice_tail_init')
_IMPURE_NODES = ('call', 'assign', 'incdec', 'stmtexpr', 'other', 'deep', 'va_arg', 'init', 'compound', 'cond', 'container_of')


# --------------------------------------------------------------------------
# value propagation
# --------------------------------------------------------------------------

def _loc_key(x):
    """key of the memory location an lvalue expression denotes"""
    x = strip_load(x)
    while isinstance(x, dict) and x.get('k') == 'cast':
        x = strip_load(x['e'])
    if not isinstance(x, dict):
        return ('mem', '*')
    k = x.get('k')
    if k == 'var':
        return ('var', x['name'])
    if k == 'member':
        return (x.get('record'), x['field'])
    return ('mem', '*')


def _keys_read(e):
    """what evaluating e reads: every variable mentioned, and the location of every load that
    is not a plain variable read (an address computation `&p->f` reads only `p`)"""
    keys = set()
    for x in walk(e):
        k = x.get('k')
        if k == 'var' and x.get('vk') != 'func':
            keys.add(('var', x['name']))
        elif k == 'load':
            keys.add(_loc_key(x.get('e')))
        elif k in ('deref', 'index'):
            keys.add(('mem', '*'))
    return frozenset(keys)


def _copyable(rhs, name):
    if not isinstance(rhs, dict):
        return False
    r = strip(rhs)
    if not isinstance(r, dict) or r.get('k') in ('int', 'null', 'str'):
        return False
    n = 0
    for x in walk(rhs):
        n += 1
        k = x.get('k')
        if k in _IMPURE_NODES or k in ('bin', 'un'):
            return False
    if n > 40:
        return False
    if r.get('k') not in ('var', 'member', 'index', 'deref', 'addr'):
        return False
    return ('var', name) not in _keys_read(rhs)


def _unwas(x, excluded):
    """spell a copied expression with the locals core.copy_propagate had replaced (`_was`): at the point
    of the copy they hold the same value, and a copy that reads only variables survives calls and barriers"""
    def r(nd):
        w = nd.get('_was')
        if w and w not in excluded and nd.get('k') in ('load', 'cast', 'addr'):
            return {'k': 'load', 'e': {'k': 'var', 'name': w, 'vk': 'local', 'type': nd.get('type', '')}}
        return None
    return subst(x, r)


def _copies(fn):
    """forward must-analysis of the copies (local, copied expression, locations read) that are valid before
    every event: ({(block, index): frozenset}, address-taken locals)"""
    addr_taken, shared = set(), set()
    for e in fn.events():
        for x in walk(e):
            if x.get('k') == 'addr':
                v = strip(x['e'])
                if isinstance(v, dict) and v.get('k') == 'var':
                    addr_taken.add(v['name'])
            if x.get('k') == 'var' and x.get('vk') in ('global', 'staticlocal'):
                shared.add(x['name'])
    shared |= addr_taken

    def target(e):
        if e['ev'] == 'store' and e.get('op') == '=' and 'rhs' in e:
            l = strip(e['lhs'])
            if isinstance(l, dict) and l.get('k') == 'var' and l.get('vk') in ('local', 'param') and l['name'] not in addr_taken:
                return l['name']
        return None

    def escapes(keys):
        # values that code we do not see may change: memory, globals, address-taken locals
        return any(k[0] != 'var' or k[1] in shared for k in keys)

    def transfer(e, S):
        ev = e['ev']
        kills = set()
        if ev == 'store':
            for st in lvalue_steps(e['lhs']):
                kills.add(st)
            l = strip(e['lhs'])
            if isinstance(l, dict) and l.get('k') == 'var':
                kills.add(('var', l['name']))
            elif isinstance(l, dict) and l.get('k') in ('deref', 'index') and not lvalue_steps(e['lhs']):
                kills.add(('mem', '*'))
        elif ev == 'decl':
            kills.add(('var', e['name']))
        elif ev == 'call':
            for a in e.get('args', []):
                a = strip(a)
                if isinstance(a, dict) and a.get('k') == 'addr':
                    v = strip(a['e'])
                    if isinstance(v, dict) and v.get('k') == 'var':
                        kills.add(('var', v['name']))
            nm = e.get('callee')
            if nm in LIST_WRITERS:
                S = frozenset(x for x in S if not (x[2] & LIST_KEYS) and ('mem', '*') not in x[2])
            elif 'fnexpr' in e or nm not in PURE_CALLS:
                S = frozenset(x for x in S if not escapes(x[2]))
        if kills:
            S = frozenset(x for x in S if not (x[2] & kills) and ('var', x[0]) not in kills)
        t = target(e)
        if t is not None:
            S = frozenset(x for x in S if x[0] != t)
            rhs = _unwas(e['rhs'], addr_taken | {t})
            if _copyable(rhs, t):
                S = S | {(t, json.dumps(rhs, sort_keys=True), _keys_read(rhs))}
        return S

    _, ev_in = forward(fn, frozenset(), transfer, lambda a, b: a & b)
    return ev_in, addr_taken


def _propagate_once(fn):
    ev_in, _ = _copies(fn)
    n = [0]

    def rewrite(x, S):
        avail = {v: ex for (v, ex, _) in S}
        if not avail or not isinstance(x, (dict, list)):
            return x

        def r(nd):
            if nd.get('k') == 'load':
                inner = nd.get('e')
                if isinstance(inner, dict) and inner.get('k') == 'var' and inner.get('vk') in ('local', 'param') and inner['name'] in avail:
                    n[0] += 1
                    out = json.loads(avail[inner['name']])
                    out['_was'] = inner['name']
                    return out
            elif nd.get('k') == 'var' and nd.get('name', '').startswith('$ret') and nd['name'] in avail:
                # the Inliner substitutes a call expression by its return temporary as a bare variable node
                n[0] += 1
                out = json.loads(avail[nd['name']])
                out['_was'] = nd['name']
                return out
            return None
        return simplify(subst(x, r))

    for b, blk in fn.blocks.items():
        for i, e in enumerate(blk.events):
            S = ev_in.get((b, i))
            if not S:
                continue
            if e['ev'] == 'load':
                v = strip_load(e['e'])
                hit = [x for x in S if isinstance(v, dict) and v.get('k') == 'var' and v.get('vk') in ('local', 'param') and x[0] == v['name']]
                if hit:
                    ex = json.loads(hit[0][1])
                    was = v['name']
                    e['e'] = strip_load(ex)
                    e['e']['_was'] = was
                    n[0] += 1
                else:
                    e['e'] = rewrite(e['e'], S)
                continue
            for key in ('rhs', 'args', 'fnexpr', 'value', 'init'):
                if key in e:
                    e[key] = rewrite(e[key], S)
            if e['ev'] == 'store':
                l = e['lhs']
                if strip(l).get('k') != 'var':
                    e['lhs'] = rewrite(l, S)
        S = ev_in.get((b, len(blk.events)))
        if S and blk.term and blk.term.get('cond') is not None:
            blk.term = dict(blk.term, cond=rewrite(blk.term['cond'], S))
    return n[0]


def _collapse_substituted_addresses(g):
    """The Inliner substitutes `&x` for a pointer parameter p inside the read of p: `*p = 1` becomes
    `*load(&x) = 1`.  Reading an address value is the address: collapse, so that `*&x` simplifies to x
    (an out-parameter flag is then a plain local again).  The `enter` marker of an inlined call keeps a copy
    of the argument list; the calls' effects are the inlined body, so the copy is dropped (it would make
    every local passed by address look address-taken for good)."""
    def r(nd):
        if nd.get('k') == 'load' and isinstance(nd.get('e'), dict) and nd['e'].get('k') == 'addr':
            return subst(nd['e'], r)
        return None
    for blk in g.blocks.values():
        for e in blk.events:
            if e['ev'] == 'enter':
                e['inlined_args'] = e.get('args', [])
                e['args'] = []
                continue
            for key in ('rhs', 'args', 'fnexpr', 'value', 'init', 'lhs', 'e'):
                if key in e and isinstance(e[key], (dict, list)):
                    e[key] = simplify(subst(e[key], r))
        if blk.term and blk.term.get('cond') is not None:
            blk.term = dict(blk.term, cond=simplify(subst(blk.term['cond'], r)))


def _conditional_arms(g, J, ps, c, preds):
    """J joins the two arms of a conditional operator whose test is c: {pred of J: 'a' | 'b'} when a block T
    branches on c, each pred of J lies in the region entered by exactly one of T's edges, and the two regions
    (closed under predecessors up to T, evaluating nothing but reads) end in J; else None."""
    cc = canon(c)
    for T in g.blocks.values():
        if not T.term or T.term.get('cond') is None or len(T.succ) != 2 or T.succ[0] == T.succ[1] \
                or T.term.get('cls') in ('SwitchStmt', 'MethodDispatch') or canon(T.term['cond']) != cc:
            continue
        regions = []
        for k in (0, 1):
            seen, todo = set(), [T.succ[k]]
            while todo:
                x = todo.pop()
                if x is None or x in seen or x == J.id:
                    continue
                seen.add(x)
                todo.extend(g.blocks[x].succ)
            regions.append(seen)
        ra, rb = regions
        if (ra & rb) or T.id in ra or T.id in rb or J.id == T.id or g.exit in ra or g.exit in rb:
            continue
        ok = True
        ckeys = _keys_read(c)
        only_locals = all(k[0] == 'var' for k in ckeys) and not any(
            x.get('k') == 'var' and x.get('vk') not in ('local', 'param') and ('var', x['name']) in ckeys for x in walk(c))

        def harmless(e):
            """the arm's event cannot change the value of the test c"""
            if e['ev'] in ('load', 'decl', 'enter', 'leave'):
                return True
            if e['ev'] == 'call':
                return e.get('callee') in PURE_CALLS or (only_locals and not any(
                    isinstance(strip(a), dict) and strip(a).get('k') == 'addr' for a in e.get('args', [])))
            if e['ev'] == 'store':
                v = var_name(e['lhs'])
                return v is not None and ('var', v) not in ckeys
            return False
        for reg in (ra, rb):
            for x in reg:
                if not all(harmless(e) for e in g.blocks[x].events) or any(q != T.id and q not in reg for q in preds.get(x, [])):
                    ok = False
        if not ok:
            continue
        if ps[0] in ra and ps[1] in rb:
            return {ps[0]: 'a', ps[1]: 'b'}
        if ps[0] in rb and ps[1] in ra:
            return {ps[0]: 'b', ps[1]: 'a'}
    return None


def _lower_conditional_stores(g):
    """`v = c ? A : B;` and `switch (c ? A : B)` / `if (c ? A : B)` are evaluated by clang in a join block behind
    the (empty) arms of the conditional operator.  Duplicate the join block per arm and use the arm's value, so that
    a value computed with `?:` (nested ones included) reads like one computed with if/else: flag partitioning and
    the atoms of switch edges then apply."""
    from ..core import Block
    n = 0
    while n < 64:
        _merge_chains(g)
        preds = {}
        for b in g.blocks.values():
            for t in b.succ:
                if t is not None:
                    preds.setdefault(t, []).append(b.id)
        hit = None
        for j, J in g.blocks.items():
            if j in (g.exit, g.entry):
                continue
            ps = preds.get(j, [])
            if len(ps) != 2 or ps[0] == ps[1] or any(g.blocks[x].succ != [j] for x in ps):
                continue
            cands = []
            for idx, e in enumerate(J.events):
                if e['ev'] == 'store' and e.get('op') == '=' and 'rhs' in e and var_name(e['lhs']) is not None:
                    r = strip(e['rhs'])
                    if isinstance(r, dict) and r.get('k') == 'cond':
                        cands.append((idx, r))
            if J.term and J.term.get('cond') is not None:
                r = strip(J.term['cond'])
                if isinstance(r, dict) and r.get('k') == 'cond':
                    cands.append((None, r))
            for (idx, r) in cands:
                arms = _conditional_arms(g, J, ps, r['c'], preds)
                if arms is not None:
                    hit = (J, idx, r, arms)
                    break
            if hit:
                break
        if not hit:
            break
        J, idx, r, arms = hit
        nid = max(g.blocks) + 1
        for k, (pid, arm) in enumerate(sorted(arms.items())):
            evs = copy.deepcopy(J.events)
            term = copy.deepcopy(J.term)
            if idx is None:
                term['cond'] = copy.deepcopy(r[arm])
            else:
                evs[idx]['rhs'] = copy.deepcopy(r[arm])
            nb = Block(nid + k, evs, list(J.succ), term, J.noreturn)
            g.blocks[nb.id] = nb
            g.blocks[pid].succ = [nb.id]
        del g.blocks[J.id]
        g._preds = None
        n += 1
    if n:
        _renumber(g)
    return n


def _prune_constant_branches(g):
    """`if (1)` / `if (0 != 0)` left behind when a constant argument was substituted for a parameter:
    drop the edge that cannot be taken"""
    n = 0
    for blk in g.blocks.values():
        if blk.term and blk.term.get('cond') is not None and len(blk.succ) == 2 \
                and blk.term.get('cls') not in ('SwitchStmt', 'MethodDispatch'):
            c = strip(fold(blk.term['cond']))
            if isinstance(c, dict) and c.get('k') in ('int', 'null'):
                v = 0 if c.get('k') == 'null' else c['v']
                blk.succ = [blk.succ[0] if v else blk.succ[1]]
                blk.term = dict(blk.term, cls='Pruned', pruned=('false' if v else 'true'))
                blk.term.pop('cond', None)
                n += 1
        elif blk.term and blk.term.get('cls') == 'SwitchStmt' and blk.term.get('cond') is not None and len(blk.succ) > 1:
            # `switch (2)` left behind by the lowering of a conditional selector
            c = strip(fold(blk.term['cond']))
            cases = blk.term.get('cases') or []
            if isinstance(c, dict) and c.get('k') == 'int' and len(cases) == len(blk.succ):
                tgt = [blk.succ[i] for i, cv in enumerate(cases) if cv == c['v']] or \
                      [blk.succ[i] for i, cv in enumerate(cases) if cv == 'default']
                if len(tgt) == 1:
                    blk.succ = [tgt[0]]
                    blk.term = {'cls': 'Pruned', 'loc': blk.term.get('loc'), 'pruned': 'case %s' % c['v']}
                    n += 1
    if n:
        g._preds = None
    return n


def _resolve_indirect(g):
    """A callback called through a local that was loaded from the handler field earlier
    (`h = ie->handler; ...; h(c)`): name the call site by the field.  Only the identity of the site is
    concerned (which kind of callback is entered), so a barrier between load and call does not matter."""
    from ..analyses import CALLBACK_FIELDS
    n = 0
    defs = {}
    for e in g.events():
        if e['ev'] == 'store':
            v = var_name(e['lhs'])
            if v is not None:
                defs.setdefault(v, []).append(e)
    for e in g.events():
        if e['ev'] != 'call' or 'fnexpr' not in e:
            continue
        v = var_name(e['fnexpr'])
        if v is None or v not in defs:
            continue
        ds = defs[v]
        if all(d.get('op') == '=' and 'rhs' in d and last_member(d['rhs']) in CALLBACK_FIELDS for d in ds) \
                and len({canon(d['rhs']) for d in ds}) == 1:
            fe = copy.deepcopy(ds[0]['rhs'])
            fe['_was'] = v
            e['fnexpr'] = fe
            n += 1
    return n


# --------------------------------------------------------------------------
# open-coded list primitives
# --------------------------------------------------------------------------

def _renumber(g):
    g._preds = None
    for b in g.blocks.values():
        for i, e in enumerate(b.events):
            e['_b'] = b.id
            e['_i'] = i


def _merge_chains(g):
    """drop unreachable blocks and merge straight-line chains (the `do { } while (0)` of a macro, the join
    behind an inlined helper), so that a run of statements is one block whatever statement structure
    separates its parts"""
    live = g.reachable_blocks()
    live.add(g.exit)
    for b in list(g.blocks):
        if b not in live:
            del g.blocks[b]
    npred = {b: 0 for b in g.blocks}
    for b in g.blocks.values():
        for t in b.succ:
            if t in npred:
                npred[t] += 1
    n = 0
    for aid in sorted(g.blocks):
        a = g.blocks.get(aid)
        if a is None or aid == g.exit:
            continue
        while not a.noreturn and len(a.succ) == 1:
            t = a.succ[0]
            if t is None or t == a.id or t in (g.exit, g.entry) or npred.get(t) != 1 or t not in g.blocks:
                break
            bt = g.blocks[t]
            a.events = a.events + bt.events
            a.succ = list(bt.succ)
            a.term = bt.term
            a.noreturn = bt.noreturn
            del g.blocks[t]
            n += 1
    _renumber(g)
    return n


_TOP = {'k': 'top'}
_NULLS = ('NULL', '0')


def _has_top(t):
    return not isinstance(t, dict) or any(x.get('k') == 'top' for x in walk(t))


def _key(t):
    return canon(simplify(t))


def _list_field(m):
    return isinstance(m, dict) and m.get('k') == 'member' and m.get('record') == 'iv_list_head' and m.get('field') in ('next', 'prev')


def _distinct(a, b):
    """two addresses that cannot designate the same list head: those of different variables, of a variable and
    a member of another object, of members of different (record, field)"""
    a, b = strip(a), strip(b)
    if not (isinstance(a, dict) and isinstance(b, dict) and a.get('k') == 'addr' and b.get('k') == 'addr'):
        return False
    x, y = strip(a['e']), strip(b['e'])
    if not (isinstance(x, dict) and isinstance(y, dict)):
        return False
    kx, ky = x.get('k'), y.get('k')
    if kx == 'var' and ky == 'var':
        return x['name'] != y['name']
    if {kx, ky} == {'var', 'member'}:
        return True
    if kx == 'member' and ky == 'member':
        return (x.get('record'), x['field']) != (y.get('record'), y['field'])
    return False


class _Sym:
    """Symbolic execution of a straight-line run of stores to iv_list_head.next/prev and to plain locals.
    Terms are expressions over the values of the variables and of memory at the START of the run; a read of a
    link field goes through the log of the stores made so far (a store through a pointer that may or may not
    be the one read from is harmless iff it stored the value the field holds anyway)."""
    def __init__(self, raw_env):
        self.raw = dict(raw_env)        # local -> copied expression valid at the start
        self.env = {}                   # local -> term
        self.busy = set()
        self.log = []                   # (pointer term, field, value term)
        self.assume = []                # {key, key}: pointers taken to differ (to be granted by the primitive's precondition)

    def var(self, v):
        n = v['name']
        if n in self.env:
            return copy.deepcopy(self.env[n])
        if n in self.raw and n not in self.busy:
            self.busy.add(n)
            saved, self.log = self.log, []
            t = self.rv(self.raw[n])
            self.log = saved
            self.busy.discard(n)
            if not _has_top(t):
                t = dict(t)
                t.setdefault('_was', n)
                self.env[n] = t
                return copy.deepcopy(t)
        return {'k': 'load', 'e': v}

    def rv(self, x):
        if not isinstance(x, dict):
            return _TOP
        k = x.get('k')
        if k == 'load':
            return self.read_lv(x.get('e'))
        if k in ('cast', 'paren', 'stmtexpr') and isinstance(x.get('e'), dict):
            return self.rv(x['e'])
        if k in ('int', 'null'):
            return x
        if k == 'addr':
            l = self.lv(x['e'])
            return _TOP if _has_top(l) else simplify({'k': 'addr', 'e': l})
        if k == 'container_of':
            p = self.rv(x['e'])
            return _TOP if _has_top(p) else dict(x, e=p)
        if k == 'var' and x.get('vk') == 'func':
            return x
        if k in ('var', 'member', 'deref'):
            return self.read_lv(x)
        return _TOP

    def ptr_of(self, m):
        """pointer term of the object a member expression selects from"""
        if m['arrow']:
            return self.rv(m['base'])
        l = self.lv(m['base'])
        return _TOP if _has_top(l) else simplify({'k': 'addr', 'e': l})

    def lv(self, l):
        if not isinstance(l, dict):
            return _TOP
        k = l.get('k')
        if k == 'paren' and isinstance(l.get('e'), dict):
            return self.lv(l['e'])
        if k == 'var':
            return l
        if k == 'member':
            b = self.rv(l['base']) if l['arrow'] else self.lv(l['base'])
            return _TOP if _has_top(b) else simplify(dict(l, base=b))
        if k == 'deref':
            p = self.rv(l['e'])
            return _TOP if _has_top(p) else simplify({'k': 'deref', 'e': p})
        return _TOP

    def read_lv(self, l):
        if not isinstance(l, dict):
            return _TOP
        k = l.get('k')
        if k == 'paren' and isinstance(l.get('e'), dict):
            return self.read_lv(l['e'])
        if k == 'var':
            if l.get('vk') in ('local', 'param'):
                return self.var(l)
            return {'k': 'load', 'e': l}
        if k == 'member':
            p = self.ptr_of(l)
            if _has_top(p):
                return _TOP
            if _list_field(l):
                return self.read(p, l['field'])
            return {'k': 'load', 'e': simplify(dict(l, base=p, arrow=True))}
        if k == 'deref' and not self.log:
            p = self.rv(l['e'])
            return _TOP if _has_top(p) else {'k': 'load', 'e': simplify({'k': 'deref', 'e': p})}
        return _TOP

    @staticmethod
    def initial(p, field):
        return {'k': 'load', 'e': simplify({'k': 'member', 'base': copy.deepcopy(p), 'field': field, 'arrow': True, 'record': 'iv_list_head'})}

    def read(self, p, field):
        pk = _key(p)
        res, maybe = None, []
        for (q, f, v) in reversed(self.log):
            if f != field:
                continue
            if _key(q) == pk:
                res = v
                break
            if not _distinct(q, p):
                maybe.append((q, v))
        if res is None:
            res = self.initial(p, field)
        if _has_top(res):
            return _TOP
        for (q, v) in maybe:
            if _has_top(v) or _key(v) != _key(res):
                # the value read is res only if q and p are different nodes
                if _has_top(q):
                    return _TOP
                self.assume.append(frozenset((_key(q), pk)))
        return copy.deepcopy(res)

    def store(self, lhs, rhs):
        l = strip(lhs)
        p = self.ptr_of(l)
        self.log.append((p, l['field'], self.rv(rhs)))

    def assign(self, name, rhs):
        self.env[name] = self.rv(rhs) if rhs is not None else _TOP
        self.raw.pop(name, None)


def _match_primitive(W, assume=()):
    """W: [(pointer term, field, value term)] in program order.  The list primitive whose effect (as a parallel
    assignment over the start state) W is: (callee, [argument terms]) or None.  The order of the stores is free
    where the primitive's precondition makes the written locations distinct (a node being added is on no list;
    the list stolen from is not empty and the new head is private), and where two locations that may coincide
    receive the same value (del_init of a self-linked node); it is kept for iv_list_del's poisoning."""
    if any(_has_top(p) or _has_top(v) for (p, f, v) in W):
        return None
    S = [(_key(p), f, _key(v)) for (p, f, v) in W]
    if len(set(S)) != len(S):
        return None
    SS = set(S)
    ini = lambda p, f: _key(_Sym.initial(p, f))

    def granted(private, others, pairs=()):
        """every no-alias assumption made while reading is part of the primitive's precondition: the private node
        differs from the other nodes involved; `pairs` differ"""
        for a in assume:
            if len(a) == 2 and private in a and (a - {private}) <= set(others):
                continue
            if a in [frozenset(x) for x in pairs]:
                continue
            return False
        return True
    if len(W) == 2:
        for (p, f, v) in W:
            n = _key(p)
            if SS == {(n, 'next', n), (n, 'prev', n)} and not assume:
                return ('INIT_IV_LIST_HEAD', [p])
        return None
    if len(W) == 4:
        for (p, f, v) in W:
            n, h = _key(p), _key(v)
            if n == h:
                continue
            if not granted(n, (h, ini(v, 'prev'), ini(v, 'next'))):
                continue
            if f == 'next' and SS == {(n, 'next', h), (n, 'prev', ini(v, 'prev')), (ini(v, 'prev'), 'next', n), (h, 'prev', n)}:
                return ('iv_list_add_tail', [p, v])
            if f == 'prev' and SS == {(n, 'prev', h), (n, 'next', ini(v, 'next')), (ini(v, 'next'), 'prev', n), (h, 'next', n)}:
                return ('iv_list_add', [p, v])
        if assume:
            return None
        for (p, f, v) in W:
            n = _key(p)
            P, X = ini(p, 'prev'), ini(p, 'next')
            if _key(v) == n and SS == {(P, 'next', X), (X, 'prev', P), (n, 'next', n), (n, 'prev', n)}:
                return ('iv_list_del_init', [p])
            if _key(v) in _NULLS:
                for z in _NULLS:
                    want = [(P, 'next', X), (X, 'prev', P), (n, 'next', z), (n, 'prev', z)]
                    if SS == set(want) and S.index(want[0]) < S.index(want[2]) and S.index(want[1]) < S.index(want[3]):
                        return ('iv_list_del', [p])
        return None
    if len(W) == 6:
        for (p, f, v) in W:
            o = _key(p)
            if _key(v) != o:
                continue
            X, P = ini(p, 'next'), ini(p, 'prev')
            for (p2, f2, v2) in W:
                w = _key(p2)
                if w != o and f2 == 'next' and _key(v2) == X and granted(w, (o, X, P), ((o, X), (o, P))) and \
                        SS == {(w, 'next', X), (w, 'prev', P), (X, 'prev', w), (P, 'next', w), (o, 'next', o), (o, 'prev', o)}:
                    return ('__iv_list_steal_elements', [p, p2])
        return None
    return None


def _fuse_links(g):
    """The bodies of INIT_IV_LIST_HEAD / iv_list_add / iv_list_add_tail / iv_list_del / iv_list_del_init /
    __iv_list_steal_elements written out at the use site -- with the addresses and the neighbours cached in
    locals or not, in any equivalent order -- become the helper's call event (placed where the first store was,
    the values read in between being those of the state before the primitive)."""
    ev_in, addr_taken = _copies(g)
    total = 0

    def unit(e):
        if e['ev'] == 'store' and e.get('op') == '=' and 'rhs' in e and _list_field(strip(e['lhs'])):
            return 'store'
        if e['ev'] == 'call' and e.get('callee') == 'INIT_IV_LIST_HEAD' and len(e.get('args', [])) == 1:
            return 'init'
        return None

    def local_store(e):
        if e['ev'] == 'store':
            l = strip(e['lhs'])
            if isinstance(l, dict) and l.get('k') == 'var' and l.get('vk') in ('local', 'param') and l['name'] not in addr_taken:
                return l['name']
        return None

    for b, blk in g.blocks.items():
        evs = blk.events
        out = []
        i = 0
        changed = False
        while i < len(evs):
            if unit(evs[i]) is None:
                out.append(evs[i])
                i += 1
                continue
            raw = {v: json.loads(ex) for (v, ex, _) in (ev_in.get((b, evs[i]['_i'])) or ()) if v not in addr_taken}
            sym = _Sym(raw)
            best = None
            j = i
            while j < len(evs):
                e = evs[j]
                u = unit(e)
                if u == 'store':
                    sym.store(e['lhs'], e['rhs'])
                elif u == 'init':
                    p = sym.rv(e['args'][0])
                    sym.log.append((p, 'next', copy.deepcopy(p)))
                    sym.log.append((p, 'prev', copy.deepcopy(p)))
                elif e['ev'] == 'load':
                    pass
                elif e['ev'] == 'decl' and e.get('name') not in addr_taken:
                    sym.assign(e['name'], None)
                elif local_store(e) is not None:
                    sym.assign(local_store(e), e['rhs'] if e.get('op') == '=' and 'rhs' in e else None)
                    e['_term'] = sym.env[local_store(e)]
                else:
                    break
                if u and len(sym.log) in (2, 4, 6):
                    m = _match_primitive(sym.log, sym.assume)
                    if m is not None and not (u == 'init' and len(sym.log) == 2):
                        best = (j, m)
                if len(sym.log) >= 6:
                    break
                j += 1
            if best is None:
                out.append(evs[i])
                i += 1
                continue
            j, (callee, args) = best
            span = evs[i:j + 1]
            assigned = {local_store(e) for e in span if local_store(e) is not None} | {e['name'] for e in span if e['ev'] == 'decl'}
            moved = [e for e in span if unit(e) is None]
            terms = list(args) + [e['_term'] for e in moved if local_store(e) is not None]
            if any(_has_top(t) for t in terms) or \
                    any(x.get('k') == 'var' and x.get('name') in assigned for t in terms for x in walk(t)):
                out.append(evs[i])
                i += 1
                continue
            for e in moved:
                if local_store(e) is not None:
                    e['rhs'] = e.pop('_term')
                    e['op'] = '='
                out.append(e)
            first = evs[i]
            ce = {k: v for k, v in first.items() if k not in ('lhs', 'rhs', 'op', 'args', 'callee', 'from_decl', '_term')}
            ce.update(ev='call', callee=callee, args=[copy.deepcopy(a) for a in args], used=False, synthetic=True, fused=True)
            out.append(ce)
            i = j + 1
            changed = True
            total += 1
        if changed:
            blk.events = out
    for e in g.events():
        e.pop('_term', None)
    _renumber(g)
    return total


def normalise(g, rounds=6):
    """in-place value propagation to a fixpoint (g must be a private copy: an Inliner result).  A flag
    that reaches its test through copies (`return kicked;` ... `run = helper(); if (run)`) becomes a
    tested flag only after propagation: flag partitioning is repeated then."""
    if getattr(g, '_h08_normalised', False):
        return g
    _collapse_substituted_addresses(g)
    _lower_conditional_stores(g)
    for _ in range(rounds):
        for _ in range(rounds):
            if not _propagate_once(g):
                break
        changed = _prune_constant_branches(g)
        if os.environ.get('IVY_NO_FLAGS') != '1' and partition_flags(g, max_flags=8):
            changed = True
        if not changed:
            break
    _merge_chains(g)
    if _fuse_links(g):
        for _ in range(rounds):
            if not _propagate_once(g):
                break
    _resolve_indirect(g)
    g._h08_normalised = True
    return g


# --------------------------------------------------------------------------
# calls through constant tables of function pointers
# --------------------------------------------------------------------------

def table_call(prog, unit, e):
    """For an indirect call `T[i](...)` / `T[i].f(...)` through a file-scope array that is never written and
    whose initialiser names a function for every element: (index expression, [Func per element]); else None."""
    if e.get('ev') not in ('call', 'enter') or 'fnexpr' not in e:
        return None
    fe = strip(e['fnexpr'])
    field = None
    if isinstance(fe, dict) and fe.get('k') == 'member' and not fe.get('arrow'):
        field = fe['field']
        fe = strip(fe['base'])
    if not (isinstance(fe, dict) and fe.get('k') == 'index'):
        return None
    base = strip(fe['base'])
    if not (isinstance(base, dict) and base.get('k') == 'var' and base.get('vk') in ('global', 'staticlocal')):
        return None
    g = prog.global_for(unit, base['name']) if unit else prog.globals.get(base['name'])
    if not isinstance(g, dict) or g.get('extern_decl') or not isinstance(g.get('init'), dict) or g['init'].get('k') != 'init':
        return None
    if 'const' not in (g.get('type') or '') and prog.global_writers(base['name']):
        return None
    elems = g['init'].get('elems')
    if not elems or (g.get('bound') is not None and g['bound'] != len(elems)):
        return None
    out = []
    for el in elems:
        el = strip(el)
        if field is not None:
            if not (isinstance(el, dict) and el.get('k') == 'init' and isinstance(el.get('fields'), dict)):
                return None
            el = strip(el['fields'].get(field))
        if isinstance(el, dict) and el.get('k') == 'addr':
            el = strip(el['e'])
        if not (isinstance(el, dict) and el.get('k') == 'var' and el.get('vk') == 'func'):
            return None
        t = prog.resolve(g.get('unit'), el['name']) if g.get('unit') else prog.funcs.get(el['name'])
        if t is None or not t.blocks:
            return None
        out.append(t)
    return fe['idx'], out


def _func_ref(prog, unit, x):
    x = strip(x)
    if isinstance(x, dict) and x.get('k') == 'addr':
        x = strip(x['e'])
    if isinstance(x, dict) and x.get('k') == 'var' and x.get('vk') == 'func':
        t = prog.resolve(unit, x['name']) if unit else prog.funcs.get(x['name'])
        return t if t is not None and t.blocks else None
    return None


def local_pointer_call(prog, caller, e):
    """For an indirect call through a plain local of `caller` that is only ever assigned addresses of
    functions (`kick = helper_a; ... kick(x)`): (variable name, [Func...] sorted by name); else None."""
    if 'fnexpr' not in e:
        return None
    fe = strip(e['fnexpr'])
    if isinstance(fe, dict) and fe.get('k') == 'deref':
        fe = strip(fe['e'])
    if not (isinstance(fe, dict) and fe.get('k') == 'var' and fe.get('vk') == 'local'):
        return None
    v = fe['name']
    unit = prog.unit_of(caller)
    tg = {}
    for x in caller.events():
        if any(y.get('k') == 'addr' and var_name(y['e']) == v for y in walk(x)):
            return None
        if x['ev'] == 'store' and var_name(x['lhs']) == v:
            t = _func_ref(prog, unit, x.get('rhs')) if x.get('op') == '=' else None
            if t is None:
                return None
            tg[t.q] = t
    if not tg:
        return None
    return v, [tg[q] for q in sorted(tg)]


class TableInliner(Inliner):
    """an Inliner that also enters the functions selected by a call through a constant table of function
    pointers or through a local that holds one of several function addresses"""
    def _targets(self, caller, e, known_table=None):
        tg = Inliner._targets(self, caller, e, known_table)
        if tg is None and 'callee' not in e:
            tc = table_call(self.prog, self.prog.unit_of(caller), e)
            if tc is None:
                tc = local_pointer_call(self.prog, caller, e)
            if tc is not None and not any(self.stop(t) for t in tc[1]):
                return list(tc[1])
        return tg


def _encode_pointer_local(prog, unit, g, en):
    """The dispatch `enter` of a call through a function-pointer local v: when every store to v in g is the address
    of one of the entered functions, number them (v = address of target k becomes v = k): v is then an ordinary
    small-integer flag, the dispatch tests v == k, and flag partitioning threads the choice through.  Returns
    (index expression, [Func per number]) or None."""
    fe = strip(en.get('fnexpr'))
    if isinstance(fe, dict) and fe.get('k') == 'deref':
        fe = strip(fe['e'])
    if not (isinstance(fe, dict) and fe.get('k') == 'var' and fe.get('vk') == 'local'):
        return None
    v = fe['name']
    qs = list(en.get('targets') or [])
    stores = [x for x in g.events() if x['ev'] == 'store' and var_name(x['lhs']) == v]
    if not stores or any(y.get('k') == 'addr' and var_name(y['e']) == v for x in g.events() for y in walk(x)):
        return None
    num = []
    for x in stores:
        t = _func_ref(prog, unit, x.get('rhs')) if x.get('op') == '=' else None
        if t is None or t.q not in qs:
            return None
        num.append(qs.index(t.q))
    for x, k in zip(stores, num):
        x['rhs_function'] = x['rhs']
        x['rhs'] = {'k': 'int', 'v': k, 'type': 'int'}
    funcs = [prog.funcs.get(q) for q in qs]
    if any(f is None for f in funcs):
        return None
    return {'k': 'load', 'e': dict(fe)}, funcs


def _determinise_table_dispatch(prog, g):
    """The Inliner enters the targets of one call site through a non-deterministic dispatch block.  For a call
    through a constant table the element entered is the one the index selects: element k on `index == k`
    (the last one otherwise: an index outside the table is undefined behaviour)."""
    from ..core import Block
    n = 0
    for blk in list(g.blocks.values()):
        if not (blk.term and blk.term.get('cls') == 'MethodDispatch' and blk.events and blk.events[-1]['ev'] == 'enter'):
            continue
        en = blk.events[-1]
        origin = prog.funcs.get(en.get('fn')) if en.get('fn') else None
        unit = prog.unit_of(origin) if origin is not None else None
        tc = table_call(prog, unit, en)
        if tc is None:
            tc = _encode_pointer_local(prog, unit, g, en)
        if tc is None or [t.q for t in tc[1]] != list(en.get('targets') or []) or len(blk.succ) != len(tc[1]):
            continue
        idx, succ = tc[0], list(blk.succ)

        def test(k):
            return {'cls': 'IfStmt', 'loc': en['loc'], 'table_dispatch': True,
                    'cond': {'k': 'bin', 'op': '==', 'l': copy.deepcopy(idx), 'r': {'k': 'int', 'v': k}, 'type': 'int'}}
        cur = blk
        for k in range(len(succ) - 1):
            cur.term = test(k)
            if k == len(succ) - 2:
                cur.succ = [succ[k], succ[k + 1]]
            else:
                nb = Block(max(g.blocks) + 1, [], [], None)
                g.blocks[nb.id] = nb
                cur.succ = [succ[k], nb.id]
                cur = nb
        n += 1
    if n:
        g._preds = None
    return n


def inline(prog, f, **kw):
    g = TableInliner(prog, **kw).inline(f)
    _determinise_table_dispatch(prog, g)
    return normalise(g)


def global_paths(g):
    """spellings of the file-scope / global objects g reads or tests: plain variables and members selected
    from them with `.` (a flag grouped into a static struct)"""
    out = set()

    def scan(x):
        for y in walk(x):
            m = y
            while isinstance(m, dict) and m.get('k') == 'member' and not m.get('arrow'):
                m = strip_load(m['base'])
            if isinstance(m, dict) and m.get('k') == 'var' and m.get('vk') in ('global', 'staticlocal') and y.get('k') in ('var', 'member'):
                out.add(canon(y))
    for e in g.events():
        scan(e)
    for blk in g.blocks.values():
        if blk.term and blk.term.get('cond') is not None:
            scan(blk.term['cond'])
    return out


# --------------------------------------------------------------------------
# contexts
# --------------------------------------------------------------------------

def closure_of(prog, owners):
    """{q: Func} of every function from which one of `owners` is reachable by direct calls"""
    out = {}
    for o in owners:
        for c in roles.callers_closure(prog, o):
            out[c.q] = c
    return out


def nearest_roots(prog, owners):
    """{q: Func} of the entry points (external linkage or address taken) nearest to `owners`: the owners themselves
    where they are entry points, else their direct callers, transitively.  An entry point is analysed on its own
    (it can be called from outside); what calls it sees it through its contract."""
    rts = {r.q for r in roles.roots(prog)}
    out, seen, work = {}, set(), list(owners)

    def dispatchers(x):
        """functions that call x through a constant table of function pointers or through a local that holds
        function addresses (what TableInliner enters): x's address is taken, but these are its callers"""
        res = []
        for c in prog.all_funcs():
            for e in c.events():
                if e['ev'] == 'call' and 'fnexpr' in e:
                    tc = table_call(prog, prog.unit_of(c), e) or local_pointer_call(prog, c, e)
                    if tc and any(t.q == x.q for t in tc[1]):
                        res.append(c)
                        break
        return res
    while work:
        x = work.pop()
        if x.q in seen:
            continue
        seen.add(x.q)
        if x.q in rts:
            via = dispatchers(x) if x.static else []
            if via:
                work.extend(via)
            else:
                out[x.q] = x
            continue
        for (c, e) in prog.callers_of(x.name):
            u = prog.unit_of(c)
            t = prog.resolve(u, e['callee']) if u else None
            if t is not None and t.q != x.q:
                continue
            work.append(c)
    return out


def root_contexts(prog, site_pred, what, anchor=None):
    """[(root Func, inlined+normalised root, [site events])] for every entry point (external linkage or
    address taken) from which an event satisfying site_pred is reachable by direct calls.  anchor: the
    predicate that finds the functions containing the site in un-normalised bodies (default site_pred)."""
    owners = roles.functions_with(prog, anchor or site_pred)
    if not owners:
        raise AnalysisBroken('%s: site not found' % what)
    cl = closure_of(prog, owners)
    rts = {r.q: r for r in roles.roots(prog)}
    cache = prog.__dict__.setdefault('_h08_ctx', {})
    out = []
    for q in sorted(cl):
        if q not in rts:
            continue
        if q not in cache:
            cache[q] = inline(prog, cl[q])
        g = cache[q]
        sites = [e for e in g.events() if site_pred(e)]
        if sites:
            out.append((cl[q], g, sites))
    if not out:
        raise AnalysisBroken('%s: no entry point reaches the site' % what)
    return out, cl


# --------------------------------------------------------------------------
# typed access-path helpers
# --------------------------------------------------------------------------

def member_of(x):
    """the member node an address argument `&O->f` / `&O.f` designates, else None"""
    a = strip(x)
    if isinstance(a, dict) and a.get('k') == 'addr':
        m = strip(a['e'])
        if isinstance(m, dict) and m.get('k') == 'member':
            return m
    return None


def container_ptr(x, key):
    """for `&O->f` with (record, f) == key: the pointer expression O; for `&V.f`: `&V`; else None"""
    m = member_of(x)
    if m is None or (m.get('record'), m['field']) != key:
        return None
    return object_ptr(m)


def object_ptr(m):
    """the pointer through which the object that (transitively, by `.` selections) contains member m is
    reached: O for `O->a.b.m`, &V for `V.a.m`"""
    while True:
        if m['arrow']:
            return m['base']
        b = strip(m['base'])
        if isinstance(b, dict) and b.get('k') == 'member':
            m = b
            continue
        if isinstance(b, dict) and b.get('k') == 'deref':
            return b['e']
        return {'k': 'addr', 'e': m['base']}


def spellings(x):
    """canonical strings under which the value of x is known (its own text, and the locals it was cached in)"""
    out = set()
    y = x
    while isinstance(y, dict):
        out.add(canon(y))
        if '_was' in y:
            out.add(y['_was'])
        if y.get('k') in ('load', 'cast', 'paren', 'stmtexpr') and isinstance(y.get('e'), dict):
            y = y['e']
        else:
            break
    return out


def same(a, b):
    return bool(spellings(a) & spellings(b))


def var_name(x):
    x = strip(x)
    if isinstance(x, dict) and x.get('k') == 'var' and x.get('vk') != 'func':
        return x['name']
    return None


def written_vars(g):
    w = set()
    for e in g.events():
        if e['ev'] == 'store':
            n = var_name(e['lhs'])
            if n is not None:
                w.add(n)
        if e['ev'] == 'call':
            for a in e.get('args', []):
                a = strip(a)
                if isinstance(a, dict) and a.get('k') == 'addr' and var_name(a['e']):
                    w.add(var_name(a['e']))
    return w


def value_sets(g, gen, seeds=()):
    """Forward must-analysis: the set of plain variables that hold, before every event, a value of the
    class described by gen(expr, S) -> bool (S = current set).  `v = E` with gen(E) adds v, any other
    definition of v removes it; on an `a == b` edge where one side is in the class, the other side (if a
    plain variable) joins it."""
    def tr(e, S):
        if e['ev'] == 'store':
            n = var_name(e['lhs'])
            if n is not None:
                S2 = S - {n}
                if e.get('op') == '=' and 'rhs' in e and gen(e['rhs'], S):
                    S2 = S2 | {n}
                return S2
        elif e['ev'] == 'decl':
            return S - {e['name']}
        elif e['ev'] == 'call':
            for a in e.get('args', []):
                a = strip(a)
                if isinstance(a, dict) and a.get('k') == 'addr' and var_name(a['e']) in S:
                    S = S - {var_name(a['e'])}
        return S

    def edge(blk, si, S):
        if blk.term and blk.term.get('cond') is not None and len(blk.succ) == 2 \
                and blk.term.get('cls') not in ('SwitchStmt', 'MethodDispatch'):
            for (op, lc, rc, l, r) in norm_cond(blk.term['cond'], si == 0):
                if op != '==' or not isinstance(l, dict) or not isinstance(r, dict):
                    continue
                if gen(l, S) and var_name(r):
                    S = S | {var_name(r)}
                elif gen(r, S) and var_name(l):
                    S = S | {var_name(l)}
        return S
    _, ev_in = forward(g, frozenset(seeds), tr, lambda a, b: a & b, edge=edge)
    return ev_in


def in_class(x, S, direct):
    """x is a plain variable in S, was cached in one, or satisfies direct(x)"""
    if not isinstance(x, dict):
        return False
    n = var_name(x)
    if n is not None and n in S:
        return True
    y = x
    while isinstance(y, dict):
        if y.get('_was') in S:
            return True
        if y.get('k') in ('load', 'cast', 'paren', 'stmtexpr') and isinstance(y.get('e'), dict):
            y = y['e']
        else:
            break
    return direct(x)


# --------------------------------------------------------------------------
# guarded list memory of the iv_event machinery
# --------------------------------------------------------------------------

class Keys:
    """(record, field) of the objects the rules speak about.  LINK and OWNER are fields of the public struct
    iv_event; the fields of the per-thread state are private to the library: they default to today's names and are
    re-identified by role (c08.derive_keys) when a refactoring renamed them or moved them into a sub-structure."""
    LINK = ('iv_event', 'list')
    OWNER = ('iv_event', 'owner')
    DEFAULTS = {'PENDING': ('iv_state', 'events_pending'), 'EVL_KEY': ('iv_state', 'event_list_mutex'),
                'KICK': ('iv_state', 'events_kick'), 'LOCAL': ('iv_state', 'events_local')}

    def __init__(self):
        self.set(**self.DEFAULTS)

    def set(self, **kw):
        for k, v in kw.items():
            setattr(self, k, v)
        self.EVL = '%s.%s' % self.EVL_KEY
        self.derived = kw != self.DEFAULTS


K = Keys()


def list_class(x, batches):
    """Which list of the iv_event machinery a `struct iv_list_head *` value points into:
    'pending' (&O->events_pending), 'link' (&E->list), 'batch' (a local head the pending list was
    detached to), a node reached from one of them through ->next/->prev; else None."""
    a = strip(x)
    if not isinstance(a, dict):
        return None
    if a.get('k') == 'addr':
        m = strip(a['e'])
        if isinstance(m, dict) and m.get('k') == 'member':
            key = (m.get('record'), m['field'])
            if key == K.PENDING:
                return 'pending'
            if key == K.LINK:
                return 'link'
        if canon(a) in batches:
            return 'batch'
        return None
    if a.get('k') == 'member' and a.get('record') == 'iv_list_head' and a['field'] in ('next', 'prev'):
        head = a['base'] if a['arrow'] else {'k': 'addr', 'e': a['base']}
        c = list_class(head, batches)
        return ('node of ' + c) if c else None
    return None


def list_accesses(g, batches):
    """[(event, class, what)] events of g that read or write link fields of the guarded lists"""
    out = []
    for e in g.events():
        if e['ev'] == 'call' and e.get('callee') in (LIST_WRITERS | {'iv_list_empty'}):
            cls = [list_class(a, batches) for a in e.get('args', [])]
            cls = [c for c in cls if c]
            if cls:
                out.append((e, cls[0], '%s(%s)' % (e['callee'], ', '.join(canon(a) for a in e['args']))))
        elif e['ev'] == 'load':
            x = strip_load(e['e'])
            c = list_class(x, batches)
            if c and c.startswith('node of'):
                out.append((e, c, 'read ' + canon(x)))
        elif e['ev'] == 'store':
            x = strip(e['lhs'])
            c = list_class(x, batches)
            if c and c.startswith('node of'):
                out.append((e, c, 'write ' + canon(x)))
    return out


def is_event_site(e):
    return e['ev'] == 'call' and callback_kind(e) == ('callback', 'event')


def touches_event_handler(e):
    """role anchor of the runner in un-normalised function bodies: the handler field of an iv_event is
    read (to be called, directly or through a local)"""
    if is_event_site(e):
        return True
    return e['ev'] == 'load' and last_member(strip_load(e['e'])) == ('iv_event', 'handler')


# --------------------------------------------------------------------------
# R-C08e: path-sensitive evaluation of the registration count and of the wake-up transport's set-up
# --------------------------------------------------------------------------

RAW_SETUP = 'iv_event_raw_register'          # exported raw-event API
RAW_TEARDOWN = 'iv_event_raw_unregister'
SLOT_SETUP = 'event_rx_on'                   # poll-method table slots
SLOT_TEARDOWN = 'event_rx_off'
MT_PREDICATES = ('is_mt_app', 'pthreads_available')      # the core's names (PURE_CALLS) of "this process has threads"
_NEGOP = {'==': '!=', '!=': '==', '<': '>=', '>=': '<', '>': '<=', '<=': '>'}
_SWAPOP = {'==': '==', '!=': '!=', '<': '>', '>': '<', '<=': '>=', '>=': '<='}
_PYOP = {'==': lambda a, b: a == b, '!=': lambda a, b: a != b, '<': lambda a, b: a < b, '>': lambda a, b: a > b,
         '<=': lambda a, b: a <= b, '>=': lambda a, b: a >= b}
_INT_TYPES = ('int', 'unsigned int', 'long', 'unsigned long', 'short', 'unsigned short', 'unsigned', 'char', 'unsigned char',
              'signed char', 'long long', 'unsigned long long', 'size_t', 'ssize_t', 'uint32_t', 'int32_t', 'uint64_t', 'int64_t',
              'uint16_t', 'int16_t', 'uint8_t', 'int8_t', '_Bool', 'bool')


def transport_site(x):
    """For a call (event or expression node): ('setup' | 'teardown', 'raw' | 'slot') when it sets up / tears down the
    wake-up transport of a thread -- the raw-event API applied to the state's kick raw event, or the poll method's
    event_rx_on / event_rx_off slot -- else None."""
    if not isinstance(x, dict) or (x.get('ev') != 'call' and x.get('k') != 'call'):
        return None
    nm = x.get('callee')
    if nm in (RAW_SETUP, RAW_TEARDOWN):
        args = x.get('args') or []
        if args and last_member(member_of(args[0])) == K.KICK:
            return ('setup' if nm == RAW_SETUP else 'teardown', 'raw')
        return None
    if 'fnexpr' in x:
        lm = last_member(x['fnexpr'])
        if lm and lm[0] == 'iv_fd_poll_method' and lm[1] in (SLOT_SETUP, SLOT_TEARDOWN):
            return ('setup' if lm[1] == SLOT_SETUP else 'teardown', 'slot')
    return None


def _global_key(x):
    """env key of a file-scope scalar: a global variable or a member selected with `.` from a file-scope aggregate"""
    m = strip(x)
    y = m
    while isinstance(y, dict) and y.get('k') == 'member' and not y.get('arrow'):
        y = strip_load(y['base'])
    if isinstance(y, dict) and y.get('k') == 'var' and y.get('vk') in ('global', 'staticlocal') and m.get('k') in ('var', 'member'):
        return ('g', canon(m))
    return None


def counter_fields(g):
    """(record, field) of the integer members of run-time records that g stores to: the candidates for a count"""
    out = set()
    for e in g.events():
        if e['ev'] != 'store':
            continue
        l = strip_load(e['lhs'])
        if isinstance(l, dict) and l.get('k') == 'member' and l.get('record') and _global_key(l) is None \
                and (l.get('type') or '').replace('volatile ', '').replace('const ', '').strip() in _INT_TYPES:
            out.add((l['record'], l['field']))
    return out


class CountStates:
    """Disjunctive forward evaluation of an inlined entry point.  One state per class of paths:

      fields   value of every tracked integer member F relative to its value F0 on entry: ('o', F, k) = F0 + k, or a constant
      f0       what the branches taken say about F0: ('==', m) or ('!=', {m, ...})  (counts are taken to be non-negative)
      env      scalar locals / file-scope flags: constants, 'nz', the symbolic values below, comparisons of them
      att      outcome of the set-up attempts made on the path, per transport: 'pending' (result not examined),
               'ok' (an edge says the result is 0 / not negative), 'failed' (an edge excludes 0); '!last': the
               transport attempted last (the one the code settled for, or gave up on)
      mt       what the path learned from the "application is multi-threaded" predicate (None / True / False)
      ret      (location, class of the value) of the entry point's own return statement, once passed

    Symbolic values: ('o', F, k); ('r', transport) = result of the last set-up attempt; ('mt',); ('cmp', op, sym, n) =
    truth value of a comparison.  Everything is resolved against the state when it is read, so a result kept in a
    local, returned through a helper, negated, or compared later refines the same fact."""

    MAXSTATES = 1500

    def __init__(self, g, tracked):
        self.g = g
        self.tracked = set(tracked)
        init = frozenset([self._freeze({}, {}, {}, {}, None, None)])
        _, self.ev_in = forward(g, init, self._transfer, lambda a, b: a | b, edge=self._edge)

    # ---- representation
    @staticmethod
    def _freeze(fields, env, f0, att, mt, ret):
        return (frozenset(fields.items()), frozenset(env.items()), frozenset(f0.items()), frozenset(att.items()), mt, ret)

    @staticmethod
    def thaw(st):
        return {'fields': dict(st[0]), 'env': dict(st[1]), 'f0': dict(st[2]), 'att': dict(st[3]), 'mt': st[4], 'ret': st[5]}

    def _refreeze(self, S):
        return self._freeze(S['fields'], S['env'], S['f0'], S['att'], S['mt'], S['ret'])

    def at(self, e):
        return [self.thaw(s) for s in self.ev_in.get((e['_b'], e['_i']), ())]

    @staticmethod
    def attempted(S):
        return {k: v for k, v in S['att'].items() if k != '!last'}

    @staticmethod
    def transport_up(S):
        """the set-up the path attempted last succeeded"""
        return S['att'].get(S['att'].get('!last')) == 'ok'

    def at_exit(self):
        return [self.thaw(s) for s in self.ev_in.get((self.g.exit, 0), ())]

    # ---- values
    def _resolve(self, v, S):
        if isinstance(v, tuple):
            if v[0] == 'o':
                c = S['f0'].get(v[1])
                if c and c[0] == '==':
                    return ('c', c[1] + v[2])
            elif v[0] == 'r':
                a = S['att'].get(v[1])
                if a == 'ok':
                    return ('c', 0)
                if a == 'failed':
                    return 'nz'
            elif v[0] == 'mt':
                if S['mt'] is not None:
                    return 'nz' if S['mt'] else ('c', 0)
            elif v[0] == 'cmp':
                t = self.truth(v, S)
                if t is not None:
                    return ('c', int(t))
        return v

    def field_value(self, F, S):
        return self._resolve(S['fields'].get(F, ('o', F, 0)), S)

    def flag_implies(self, S, path, op, n):
        """the file-scope scalar spelled `path` satisfies (path op n) on the paths of S"""
        v = self._resolve(S['env'].get(('g', path), '?'), S)
        if isinstance(v, tuple) and v[0] == 'c':
            return _PYOP[op](v[1], n)
        return v == 'nz' and op == '!=' and n == 0

    def delta(self, F, S):
        """net change of F on the paths of S, or None when unknown"""
        v = S['fields'].get(F, ('o', F, 0))
        if isinstance(v, tuple) and v[0] == 'o' and v[1] == F:
            return v[2]
        c = S['f0'].get(F)
        if isinstance(v, tuple) and v[0] == 'c' and c and c[0] == '==':
            return v[1] - c[1]
        return None

    @staticmethod
    def _shift(v, d):
        if isinstance(v, tuple) and v[0] == 'c':
            return ('c', v[1] + d) if abs(v[1] + d) <= 4096 else '?'
        if isinstance(v, tuple) and v[0] == 'o':
            return ('o', v[1], v[2] + d) if abs(v[2] + d) <= 6 else '?'
        return '?'

    def truth(self, v, S):
        if isinstance(v, tuple):
            if v[0] == 'c':
                return v[1] != 0
            if v[0] == 'cmp':
                op, s, n = v[1], self._resolve(v[2], S), v[3]
                if isinstance(s, tuple) and s[0] == 'c':
                    return _PYOP[op](s[1], n)
                if s == 'nz' and n == 0 and op in ('==', '!='):
                    return op == '!='
                if isinstance(s, tuple) and s[0] == 'o':
                    c = S['f0'].get(s[1])
                    if c and c[0] == '!=' and (n - s[2]) in c[1] and op in ('==', '!='):
                        return op == '!='
                return None
            if v[0] == 'o':
                c = S['f0'].get(v[1])
                if c and c[0] == '!=' and -v[2] in c[1]:
                    return True
            return None
        if v == 'nz':
            return True
        return None

    def _negate(self, v):
        if isinstance(v, tuple):
            if v[0] == 'c':
                return ('c', int(v[1] == 0))
            if v[0] == 'cmp':
                return ('cmp', _NEGOP[v[1]], v[2], v[3])
            return ('cmp', '==', v, 0)
        if v == 'nz':
            return ('c', 0)
        return '?'

    def _compare(self, op, a, b):
        ca, cb = isinstance(a, tuple) and a[0] == 'c', isinstance(b, tuple) and b[0] == 'c'
        if ca and cb:
            return ('c', int(_PYOP[op](a[1], b[1])))
        if cb and isinstance(a, tuple) and a[0] in ('o', 'r', 'mt'):
            return ('cmp', op, a, b[1])
        if ca and isinstance(b, tuple) and b[0] in ('o', 'r', 'mt'):
            return ('cmp', _SWAPOP[op], b, a[1])
        if cb and b[1] == 0 and op in ('==', '!='):
            if a == 'nz':
                return ('c', int(op == '!='))
            if isinstance(a, tuple) and a[0] == 'cmp':
                return a if op == '!=' else self._negate(a)
        if ca and a[1] == 0 and op in ('==', '!='):
            return self._compare(op, b, a)
        return '?'

    def value(self, x, S):
        """abstract value of expression x in state S (resolved)"""
        if not isinstance(x, dict):
            return '?'
        k = x.get('k')
        if k in ('load', 'cast', 'stmtexpr', 'paren') and 'e' in x:
            return self.value(x['e'], S)
        if k == 'int':
            return ('c', x['v'])
        if k == 'null':
            return ('c', 0)
        if k == 'var':
            if x.get('vk') == 'func':
                return 'nz'
            key = ('g' if x.get('vk') in ('global', 'staticlocal') else 'v', x['name'])
            return self._resolve(S['env'].get(key, '?'), S)
        if k == 'member':
            F = (x.get('record'), x['field'])
            gk = _global_key(x)
            if gk is not None:
                return self._resolve(S['env'].get(gk, '?'), S)
            if F in self.tracked:
                return self.field_value(F, S)
            return '?'
        if k == 'incdec':
            v = self.value(x['e'], S)          # the store event precedes the use of the expression's value
            if x.get('prefix'):
                return v
            return self._resolve(self._shift(v, -1 if x['op'] == '++' else 1), S)
        if k == 'assign':
            return self.value(x['l'], S)
        if k == 'un':
            v = self.value(x['e'], S)
            if x['op'] == '!':
                return self._resolve(self._negate(v), S)
            if x['op'] == '-' and isinstance(v, tuple) and v[0] == 'c':
                return ('c', -v[1])
            if x['op'] == '+':
                return v
            return '?'
        if k == 'bin':
            op = x['op']
            if op in ('&&', '||'):
                a, b = self.truth(self.value(x['l'], S), S), self.truth(self.value(x['r'], S), S)
                if op == '&&':
                    if a is False or b is False:
                        return ('c', 0)
                    return ('c', 1) if a and b else '?'
                if a or b:
                    return ('c', 1)
                return ('c', 0) if a is False and b is False else '?'
            a, b = self.value(x['l'], S), self.value(x['r'], S)
            if op in _PYOP:
                return self._resolve(self._compare(op, a, b), S)
            if op in ('+', '-'):
                if isinstance(b, tuple) and b[0] == 'c':
                    return self._resolve(self._shift(a, b[1] if op == '+' else -b[1]), S)
                if op == '+' and isinstance(a, tuple) and a[0] == 'c':
                    return self._resolve(self._shift(b, a[1]), S)
            return '?'
        if k == 'cond':
            t = self.truth(self.value(x['c'], S), S)
            if t is not None:
                return self.value(x['a'] if t else x['b'], S)
            a, b = self.value(x['a'], S), self.value(x['b'], S)
            return a if a == b else '?'
        if k == 'call':
            ts = transport_site(x)
            if ts and ts[0] == 'setup':
                return self._resolve(('r', ts[1]), S)
            if x.get('callee') in MT_PREDICATES:
                return self._resolve(('mt',), S)
            # a call of a helper that was inlined, left inside a larger expression (`v = helper(x) ? A : B`):
            # its value is what the inlined body returned
            return self._resolve(S['env'].get(('call', x.get('loc')), '?'), S)
        if k == 'addr':
            return 'nz'
        return '?'

    # ---- refinement
    def _atom(self, s, op, n, S):
        """the path continues only where (s op n); False when that contradicts what the state knows"""
        if s[0] == 'o':
            F, m = s[1], n - s[2]
            cur = S['f0'].get(F)
            if cur and cur[0] == '==':
                return _PYOP[op](cur[1], m)
            neq = cur[1] if cur else frozenset()
            # (the value tested, F0 + k, is a count: not negative)
            if op == '==' or (op == '<' and n == 1) or (op == '<=' and n == 0):
                m = m if op == '==' else -s[2]
                if m in neq:
                    return False
                S['f0'][F] = ('==', m)
            elif op == '!=' or (op == '>' and n == 0) or (op == '>=' and n == 1):
                S['f0'][F] = ('!=', neq | {m if op == '!=' else -s[2]})
            return True
        excludes0 = not _PYOP[op](0, n)
        if s[0] == 'r':
            if S['att'].get(s[1]) == 'pending':
                if excludes0:
                    S['att'][s[1]] = 'failed'
                elif (op == '==' and n == 0) or (op == '>=' and n == 0) or (op == '>' and n == -1):
                    S['att'][s[1]] = 'ok'         # failure is reported as a non-zero (negative) value
            return True
        if s[0] == 'mt':
            if excludes0:
                S['mt'] = True
            elif op == '==' and n == 0:
                S['mt'] = False
            return True
        return True

    def _assume_value(self, v, t, S):
        tv = self.truth(v, S)
        if tv is not None:
            return tv == t
        if isinstance(v, tuple) and v[0] == 'cmp':
            return self._atom(v[2], v[1] if t else _NEGOP[v[1]], v[3], S)
        if isinstance(v, tuple) and v[0] in ('o', 'r', 'mt'):
            return self._atom(v, '!=' if t else '==', 0, S)
        return True

    def _env_key(self, x):
        y = strip(x)
        if isinstance(y, dict) and y.get('k') == 'var' and y.get('vk') != 'func':
            return ('g' if y.get('vk') in ('global', 'staticlocal') else 'v', y['name'])
        if isinstance(y, dict) and y.get('k') == 'member':
            return _global_key(y)
        return None

    def assume(self, c, t, S):
        """refine S by `condition c evaluates to t`; False when infeasible"""
        y = strip(c)
        if not isinstance(y, dict):
            return True
        if y.get('k') == 'un' and y.get('op') == '!':
            return self.assume(y['e'], not t, S)
        if y.get('k') == 'bin' and y['op'] in ('&&', '||'):
            conj = y['op'] == '&&'
            if t == conj:          # both operands have the value t
                return self.assume(y['l'], t, S) and self.assume(y['r'], t, S)
            a, b = self.truth(self.value(y['l'], S), S), self.truth(self.value(y['r'], S), S)
            if a is not None and a == conj:
                return self.assume(y['r'], t, S)
            if b is not None and b == conj:
                return self.assume(y['l'], t, S)
            return True
        if y.get('k') == 'bin' and y['op'] in _PYOP:
            a, b = self.value(y['l'], S), self.value(y['r'], S)
            op = y['op'] if t else _NEGOP[y['op']]
            for (u, ux, w, o) in ((a, y['l'], b, op), (b, y['r'], a, _SWAPOP[op])):
                key = self._env_key(ux)
                if u in ('?', 'nz') and key is not None and isinstance(w, tuple) and w[0] == 'c':
                    if u == 'nz':
                        if o == '==' and w[1] == 0:
                            return False
                        if o == '==':
                            S['env'][key] = w
                    elif o == '==':
                        S['env'][key] = w
                    elif not _PYOP[o](0, w[1]):
                        S['env'][key] = 'nz'
                    return True
            return self._assume_value(self._compare(y['op'], a, b), t, S)
        v = self.value(y, S)
        key = self._env_key(y)
        if v == '?' and key is not None:
            S['env'][key] = 'nz' if t else ('c', 0)
            return True
        return self._assume_value(v, t, S)

    # ---- dataflow
    def _store_key(self, lhs):
        l = strip_load(lhs)
        while isinstance(l, dict) and l.get('k') in ('cast', 'paren') and 'e' in l:
            l = strip_load(l['e'])
        if not isinstance(l, dict):
            return None
        if l.get('k') == 'var':
            return ('g' if l.get('vk') in ('global', 'staticlocal') else 'v', l['name'])
        if l.get('k') == 'member':
            gk = _global_key(l)
            if gk is not None:
                return gk
            F = (l.get('record'), l['field'])
            if F in self.tracked:
                return ('f', F)
        return None

    def _tr_one(self, e, S):
        ev = e['ev']
        if ev == 'store':
            key = self._store_key(e['lhs'])
            if key is None:
                return S
            if key[0] == 'f':
                cur = S['fields'].get(key[1], ('o', key[1], 0))
            else:
                cur = S['env'].get(key, '?')
            op = e.get('op')
            if op == '=' and 'rhs' in e:
                v = self.value(e['rhs'], S)
            elif op in ('++', '--'):
                v = self._shift(cur, 1 if op == '++' else -1)
            elif op in ('+=', '-=') and 'rhs' in e:
                r = self.value(e['rhs'], S)
                v = self._shift(cur, r[1] if op == '+=' else -r[1]) if isinstance(r, tuple) and r[0] == 'c' else '?'
            else:
                v = '?'
            if key[0] == 'f':
                S['fields'][key[1]] = v
            elif v == '?':
                S['env'].pop(key, None)
            else:
                S['env'][key] = v
            return S
        if ev == 'decl':
            S['env'].pop(('v', e['name']), None)
            return S
        if ev == 'call':
            ts = transport_site(e)
            if ts and ts[0] == 'setup':
                S['att'][ts[1]] = 'pending'
                S['att']['!last'] = ts[1]
            for a in e.get('args', []):
                a = strip(a)
                if isinstance(a, dict) and a.get('k') == 'addr' and var_name(a['e']) is not None:
                    S['env'].pop(('v', var_name(a['e'])), None)
            if 'fnexpr' in e or e.get('callee') not in PURE_CALLS:
                # code that is not in view may change file-scope flags
                for k_ in [k_ for k_ in S['env'] if k_[0] == 'g']:
                    del S['env'][k_]
            return S
        if ev == 'leave' and e.get('retvar'):
            v = S['env'].get(('v', e['retvar']), '?')
            if v == '?':
                S['env'].pop(('call', e.get('loc')), None)
            else:
                S['env'][('call', e.get('loc'))] = v
            return S
        if ev == 'ret' and not e.get('chain'):
            cls = '?'
            if 'value' in e:
                t = self.truth(self.value(e['value'], S), S)
                cls = '?' if t is None else ('nonzero' if t else 'zero')
            else:
                cls = 'void'
            S['ret'] = (e['loc'], cls)
            return S
        return S

    def _transfer(self, e, states):
        out = set()
        for st in states:
            out.add(self._refreeze(self._tr_one(e, self.thaw(st))))
        if len(out) > self.MAXSTATES:
            raise AnalysisBroken('state explosion in the count/transport evaluation of %s' % self.g.name)
        return frozenset(out)

    def _edge(self, blk, si, states):
        t = blk.term
        if not t or len(blk.succ) < 2 or t.get('cond') is None or t.get('cls') == 'MethodDispatch':
            return states
        out = set()
        if t.get('cls') == 'SwitchStmt':
            cases = t.get('cases') or []
            if si >= len(cases) or len(cases) != len(blk.succ):
                return states
            me = cases[si]
            ints = [cv for cv in cases if isinstance(cv, int)]
            for st in states:
                S = self.thaw(st)
                sel = {'k': 'bin', 'op': '==', 'l': t['cond'], 'r': None}
                ok = True
                if isinstance(me, int):
                    ok = self.assume(dict(sel, r={'k': 'int', 'v': me}), True, S)
                elif me == 'default':
                    for cv in ints:
                        ok = ok and self.assume(dict(sel, r={'k': 'int', 'v': cv}), False, S)
                if ok:
                    out.add(self._refreeze(S))
            return frozenset(out) if out else None
        if len(blk.succ) != 2:
            return states
        for st in states:
            S = self.thaw(st)
            if self.assume(t['cond'], si == 0, S):
                out.add(self._refreeze(S))
        return frozenset(out) if out else None


# --------------------------------------------------------------------------
# value ranges of file-scope selectors (iteration 4)
# --------------------------------------------------------------------------

_BOOL_OPS = ('==', '!=', '<', '>', '<=', '>=', '&&', '||')


def _const_values(x, depth=0):
    """the finite set of integers expression x can evaluate to, or None"""
    x = strip(fold(x)) if isinstance(x, dict) else x
    if not isinstance(x, dict) or depth > 6:
        return None
    k = x.get('k')
    if k == 'int':
        return {x['v']}
    if k == 'null':
        return {0}
    if k in ('load', 'cast', 'paren') and isinstance(x.get('e'), dict) and '*' not in str(x.get('to', '')):
        return _const_values(x['e'], depth + 1)
    if k == 'cond':
        a, b = _const_values(x['a'], depth + 1), _const_values(x['b'], depth + 1)
        return None if a is None or b is None else a | b
    if (k == 'bin' and x.get('op') in _BOOL_OPS) or (k == 'un' and x.get('op') == '!'):
        return {0, 1}
    return None


def selector_values(prog, path):
    """Every value the file-scope scalar spelled `path` (a variable with internal linkage, or a member selected with
    `.` from one) can hold at run time: its static initialiser (0 when there is none) and the constants the program
    stores into it -- provided the object's address is never taken and every store to it is in view and stores a
    constant.  None when that cannot be established (the range is then unknown, nothing is concluded)."""
    cache = prog.__dict__.setdefault('_h08_selector_values', {})
    if path in cache:
        return cache[path]
    cache[path] = None
    root = path.split('.', 1)[0]
    sub = path.split('.')[1:]
    decls = [g for key, g in prog.globals.items() if isinstance(g, dict) and g.get('name', key.split(':')[-1]) == root
             and not g.get('extern_decl')]
    if not decls or not all(g.get('static') for g in decls) or any('*' in (g.get('type') or '') or '[' in (g.get('type') or '') for g in decls):
        return None
    vals = set()
    for g in decls:
        init = g.get('init')
        for fld in sub:
            if isinstance(init, dict) and init.get('k') == 'init' and isinstance(init.get('fields'), dict):
                init = init['fields'].get(fld)
            elif init is not None:
                return None
        if init is None:
            vals.add(0)
        else:
            v = _const_values(init)
            if v is None:
                return None
            vals |= v
    for f in prog.all_funcs():
        for e in f.pristine().events():
            for x in walk(e):
                if x.get('k') == 'addr':
                    y = strip(x['e'])
                    while isinstance(y, dict) and y.get('k') == 'member' and not y.get('arrow'):
                        y = strip_load(y['base'])
                    if isinstance(y, dict) and y.get('k') == 'var' and y.get('vk') in ('global', 'staticlocal') and y.get('name') == root:
                        return None
    for (f, e) in prog.global_writers(root):
        l = canon(strip(e['lhs']))
        if l != path:
            if l == root or path.startswith(l + '.') or l.startswith(path + '.') or '[' in l:
                return None            # the enclosing aggregate is overwritten as a whole
            continue                   # another member of the same aggregate
        v = _const_values(e['rhs']) if e.get('op') == '=' and 'rhs' in e else None
        if v is None:
            return None
        vals |= v
    if len(vals) > 16:
        return None
    cache[path] = frozenset(vals)
    return cache[path]


def prune_by_selector_range(prog, g, max_rounds=4):
    """Removes from g (a private clone) the branch edges that no value of a file-scope selector can take: the edge of
    `case c` / of `sel == c` when c is not in the selector's range (selector_values) narrowed by the comparisons that
    hold on every path to the branch, and the `default` / fall-off edge when every remaining value has its own case.
    This is what makes a `switch` without default over a two-valued mode variable as exhaustive as if / else.
    Returns the number of edges removed."""
    from ..analyses import holding
    removed = 0
    for _ in range(max_rounds):
        hd = holding(g, user_call_kills=False)
        changed = False
        for b, blk in g.blocks.items():
            t = blk.term
            if not t or t.get('cond') is None or len(blk.succ) < 2 or t.get('cls') == 'MethodDispatch':
                continue
            held_atoms = hd.get((b, len(blk.events)))
            if held_atoms is None:
                continue

            def feasible(edge_atoms):
                """False when some selector with a known range has no value that satisfies what holds here and the edge"""
                by_sel = {}
                for (op, lc, rc) in edge_atoms:
                    by_sel.setdefault(lc, []).append((op, rc))
                for lc, mine in by_sel.items():
                    if _global_key_of_text(g, lc) is None:
                        continue
                    V = selector_values(prog, lc)
                    if V is None:
                        continue
                    cons = mine + [(a[0], a[2]) for a in held_atoms if a[1] == lc]
                    cons = [(op, int(rc)) for (op, rc) in cons if op in _PYOP and isinstance(rc, str) and rc.lstrip('-').isdigit()]
                    if not any(all(_PYOP[op](v, n) for (op, n) in cons) for v in V):
                        return False
                return True
            keep = list(range(len(blk.succ)))
            if t.get('cls') == 'SwitchStmt':
                cases = t.get('cases') or []
                if len(cases) != len(blk.succ):
                    continue
                lc = canon(t['cond'])
                ints = [cv for cv in cases if isinstance(cv, int)]
                keep = []
                for si, cv in enumerate(cases):
                    if isinstance(cv, int):
                        ok = feasible([('==', lc, str(cv))])
                    elif cv == 'default':
                        ok = feasible([('!=', lc, str(c)) for c in ints])
                    else:
                        ok = True
                    if ok:
                        keep.append(si)
                if keep and len(keep) < len(blk.succ):
                    removed += len(blk.succ) - len(keep)
                    blk.succ = [blk.succ[si] for si in keep]
                    if len(keep) == 1:
                        blk.term = {'cls': 'Pruned', 'loc': t.get('loc'), 'pruned': 'case %s' % cases[keep[0]]}
                    else:
                        blk.term = dict(t, cases=[cases[si] for si in keep])
                    changed = True
            elif len(blk.succ) == 2:
                keep = [si for si in (0, 1)
                        if feasible([(op, lc, rc) for (op, lc, rc, l, r) in norm_cond(t['cond'], si == 0)])]
                if len(keep) == 1:
                    removed += 1
                    blk.succ = [blk.succ[keep[0]]]
                    blk.term = dict(t, cls='Pruned', pruned=('true' if keep[0] == 0 else 'false'))
                    blk.term.pop('cond', None)
                    changed = True
        g._preds = None
        if not changed:
            break
    return removed


def _global_key_of_text(g, text):
    """`text` is the spelling of a file-scope scalar that g reads or tests"""
    paths = g.__dict__.get('_h08_global_paths')
    if paths is None:
        paths = global_paths(g)
        try:
            g.__dict__['_h08_global_paths'] = paths
        except Exception:
            pass
    return text if text in paths else None
